"""A small translator from a subset of Rust to Gallina, for pure decision functions.

Supported: a function body that is
  * a sequence of `let x = e;`, `let (a, b) = e;`, `if cond { return e; }` and `if let Some(x) = e { such statements }`
    (falling through when nothing returns) followed by an expression, or
  * `match *self { Path::A => e, Path::B => e }`
(a procedure over one `&mut` accumulator - `return;`, final `*acc += e;` - becomes a function returning the accumulator)
with expressions built from identifiers, numeric literals, field access (`.x` / `.y` of points, the fields of the
structs declared by the caller, `.start` / `.end` of a range parameter), the point / vector methods `.square_length()`,
`.to_vector()`, `.to_point()`, `.lerp(p, t)`, `.cross(v)`, calls of methods translated before (declared by the caller),
the scalar constants and functions `S::ZERO … S::NINE`, `S::value(lit)`, `S::signum`, `S::abs`, parentheses, tuples,
struct literals (with field shorthand), `Some(e)` / `None`, `if c { a } else { b }`, `f32::min / max`, `!`, unary `-`, `* / % + -` (on scalars; `+ -` on points and
vectors, `*` of a point or vector by a scalar), comparisons (`==` also on points) and `&& ||`, and enum
paths (`Ordering::Greater`).  Floats become `Q` (comparisons through Qltb / Qle_bool / Qeq_bool of
Model/Bezier.v), integers become `Z` (`%` is Z.rem, Rust's remainder).  Anything else raises
Unsupported: the generator then emits a definition that cannot be proved equal to the model, so
the check reports the function as no longer matching.
"""
import re


class Unsupported(Exception):
    pass


TOK = re.compile(r"\s*(?:(\d+\.\d+|\d+)|([A-Za-z_][A-Za-z0-9_]*(?:::[A-Za-z_][A-Za-z0-9_]*)*)|(\|\||&&|==|!=|>=|<=|=>|[-+*/%!<>().,{};=:&]))")


def tokenize(s):
    out, i = [], 0
    s = s.strip()
    while i < len(s):
        m = TOK.match(s, i)
        if not m or m.end() == i:
            raise Unsupported("cannot tokenize at: " + s[i:i + 30])
        if m.group(1) is not None:
            out.append(("num", m.group(1)))
        elif m.group(2) is not None:
            out.append(("id", m.group(2)))
        else:
            out.append(("op", m.group(3)))
        i = m.end()
        while i < len(s) and s[i].isspace():
            i += 1
    return out


class P:
    def __init__(self, toks, env, enums, structs=None, methods=None):
        self.t, self.i, self.env, self.enums = toks, 0, dict(env), enums
        # structs: gallina type name -> {"rust": [names], "ctor": constructor, "fields": [(rust field, accessor, type)]}
        # methods: (receiver type, method name) -> (gallina function, [argument types], result type)
        self.structs, self.methods = structs or {}, methods or {}
        self.subst = {}            # local names bound to untyped literals
        self.acc = None            # name of the `&mut` accumulator parameter of a procedure, if any

    def peek(self, k=0):
        return self.t[self.i + k] if self.i + k < len(self.t) else ("eof", "")

    def eat(self, kind=None, val=None):
        tok = self.peek()
        if (kind and tok[0] != kind) or (val and tok[1] != val):
            raise Unsupported("expected %s %s, got %s" % (kind, val, tok))
        self.i += 1
        return tok

    # every parse_* returns (gallina text, type) with type in {"Q", "Z", "bool", "pt", "enum"}
    def expr(self):
        return self.p_or()

    def p_or(self):
        a = self.p_and()
        while self.peek() == ("op", "||"):
            self.eat()
            b = self.p_and()
            a = ("(%s || %s)" % (self.b(a), self.b(b)), "bool")
        return a

    def p_and(self):
        a = self.p_cmp()
        while self.peek() == ("op", "&&"):
            self.eat()
            b = self.p_cmp()
            a = ("(%s && %s)" % (self.b(a), self.b(b)), "bool")
        return a

    def b(self, a):
        if a[1] != "bool":
            raise Unsupported("boolean expected: " + a[0])
        return a[0]

    def p_cmp(self):
        a = self.p_add()
        if self.peek()[0] == "op" and self.peek()[1] in (">", "<", ">=", "<=", "==", "!="):
            op = self.eat()[1]
            b = self.p_add()
            a, b = self.unify(a, b)
            ty = a[1]
            if ty == "Q":
                f = {">": "Qltb %s %s" % (b[0], a[0]), "<": "Qltb %s %s" % (a[0], b[0]),
                     ">=": "Qle_bool %s %s" % (b[0], a[0]), "<=": "Qle_bool %s %s" % (a[0], b[0]),
                     "==": "Qeq_bool %s %s" % (a[0], b[0]), "!=": "negb (Qeq_bool %s %s)" % (a[0], b[0])}[op]
            elif ty == "Z":
                f = {">": "Z.ltb %s %s" % (b[0], a[0]), "<": "Z.ltb %s %s" % (a[0], b[0]),
                     ">=": "Z.leb %s %s" % (b[0], a[0]), "<=": "Z.leb %s %s" % (a[0], b[0]),
                     "==": "Z.eqb %s %s" % (a[0], b[0]), "!=": "negb (Z.eqb %s %s)" % (a[0], b[0])}[op]
            elif ty == "pt" and op in ("==", "!="):
                f = "peqb %s %s" % (a[0], b[0])
                if op == "!=":
                    f = "negb (%s)" % f
            else:
                raise Unsupported("comparison of " + str(ty))
            return ("(%s)" % f, "bool")
        return a

    def unify(self, a, b):
        # untyped numeric literals take the type of the other operand
        if a[1] == "lit" and b[1] == "lit":
            raise Unsupported("two literals")
        if a[1] == "lit":
            a = (self.lit(a[0], b[1]), b[1])
        if b[1] == "lit":
            b = (self.lit(b[0], a[1]), a[1])
        if a[1] != b[1]:
            raise Unsupported("type mismatch %s / %s" % (a, b))
        return a, b

    def lit(self, text, ty):
        if "\u00ab" in text:           # an if-expression whose branches are untyped literals
            return re.sub("\u00ab([^\u00bb]*)\u00bb", lambda m: self.lit(m.group(1), ty), text)
        if ty == "Z":
            if "." in text:
                raise Unsupported("float literal in integer context")
            return "%s%%Z" % text
        if ty == "Q":
            if "." in text:
                import math
                ip, fp = text.split(".")
                num, den = int(ip + fp), 10 ** len(fp)
                g = math.gcd(num, den)
                return "(%d # %d)" % (num // g, den // g)
            return "(%s # 1)" % text
        raise Unsupported("literal of type " + ty)

    def p_add(self):
        a = self.p_mul()
        while self.peek()[0] == "op" and self.peek()[1] in ("+", "-"):
            op = self.eat()[1]
            b = self.p_mul()
            a, b = self.unify(a, b)
            if a[1] == "pt":
                a = ("(%s %s %s)" % ("padd" if op == "+" else "psub", a[0], b[0]), "pt")
            elif a[1] in ("Q", "Z"):
                a = ("(%s %s %s)%s" % (a[0], op, b[0], "%Z" if a[1] == "Z" else ""), a[1])
            else:
                raise Unsupported("arithmetic on " + str(a[1]))
        return a

    def p_mul(self):
        a = self.p_unary()
        while self.peek()[0] == "op" and self.peek()[1] in ("*", "/", "%"):
            op = self.eat()[1]
            b = self.p_unary()
            if a[1] == "pt" and op in ("*", "/"):
                if b[1] == "lit":
                    b = (self.lit(b[0], "Q"), "Q")
                if b[1] != "Q":
                    raise Unsupported("point times " + str(b[1]))
                a = ("(%s %s %s)" % ("pscale" if op == "*" else "pdiv", a[0], b[0]), "pt")
                continue
            a, b = self.unify(a, b)
            if a[1] == "Z":
                g = {"*": "(%s * %s)%%Z", "/": "(Z.quot %s %s)", "%": "(Z.rem %s %s)"}[op] % (a[0], b[0])
            elif a[1] == "Q":
                if op == "%":
                    raise Unsupported("float remainder")
                g = "(%s %s %s)" % (a[0], op, b[0])
            else:
                raise Unsupported("arithmetic on " + str(a[1]))
            a = (g, a[1])
        return a

    def p_unary(self):
        if self.peek() == ("op", "!"):
            self.eat()
            a = self.p_unary()
            return ("(negb %s)" % self.b(a), "bool")
        if self.peek() == ("op", "-"):
            self.eat()
            a = self.p_unary()
            if a[1] == "lit":
                return ("-" + a[0], "lit")
            return ("(- %s)%s" % (a[0], "%Z" if a[1] == "Z" else ""), a[1])
        return self.p_postfix()

    def args(self):
        """( e, e, ... ) after the opening parenthesis has been eaten"""
        out = []
        while self.peek() != ("op", ")"):
            if self.peek() == ("op", "&"):
                self.eat()
            out.append(self.expr())
            if self.peek() == ("op", ","):
                self.eat()
        self.eat("op", ")")
        return out

    def coerce(self, a, ty):
        if a[1] == "lit":
            return (self.lit(a[0], ty), ty)
        if a[1] != ty:
            raise Unsupported("argument of type %s where %s is expected" % (a[1], ty))
        return a

    def p_postfix(self):
        a = self.p_primary()
        while self.peek() == ("op", "."):
            self.eat()
            if self.peek()[0] == "num" and isinstance(a[1], tuple) and a[1][0] == "tup":
                k = int(self.eat("num")[1])
                n = len(a[1][1])
                if k >= n:
                    raise Unsupported("tuple field %d of a %d-tuple" % (k, n))
                # (x0, x1, ..., xn-1) is ((..(x0, x1).., xn-2), xn-1)
                text = a[0]
                for _ in range(n - 1 - k):
                    text = "(fst %s)" % text
                if k > 0:
                    text = "(snd %s)" % text
                a = (text, a[1][1][k])
                continue
            name = self.eat("id")[1]
            if self.peek() == ("op", "("):
                self.eat()
                args = self.args()
                if name == "square_length" and a[1] == "pt" and not args:
                    a = ("(px %s * px %s + py %s * py %s)" % (a[0], a[0], a[0], a[0]), "Q")
                elif name in ("to_vector", "to_point") and a[1] == "pt" and not args:
                    pass
                elif name == "lerp" and a[1] == "pt" and len(args) == 2:
                    a = ("(plerp %s %s %s)" % (a[0], self.coerce(args[0], "pt")[0], self.coerce(args[1], "Q")[0]), "pt")
                elif name in ("is_some", "is_none") and isinstance(a[1], tuple) and a[1][0] == "opt" and not args:
                    a = ("(match %s with Some _ => %s | None => %s end)" % (a[0], "true" if name == "is_some" else "false", "false" if name == "is_some" else "true"), "bool")
                elif name in ("min", "max") and a[1] == "Q" and len(args) == 1:
                    a = ("(%s %s %s)" % ("Qmin" if name == "min" else "Qmax", a[0], self.coerce(args[0], "Q")[0]), "Q")
                elif name == "cross" and a[1] == "pt" and len(args) == 1:
                    a = ("(cross %s %s)" % (a[0], self.coerce(args[0], "pt")[0]), "Q")
                elif (a[1], name) in self.methods:
                    g, tys, rty = self.methods[(a[1], name)]
                    flat = []
                    for x in args:
                        if x[1] == "range":
                            flat += [(x[0] + "_start", "Q"), (x[0] + "_end", "Q")]
                        else:
                            flat.append(x)
                    if len(flat) != len(tys):
                        raise Unsupported("arity of " + name)
                    a = ("(%s %s%s)" % (g, a[0], "".join(" " + self.coerce(x, t)[0] for x, t in zip(flat, tys))), rty)
                else:
                    raise Unsupported("method %s of %s" % (name, a[1]))
            elif name in ("x", "y") and a[1] == "pt":
                a = ("(p%s %s)" % (name, a[0]), "Q")
            elif a[1] == "range" and name in ("start", "end"):
                a = ("%s_%s" % (a[0], name), "Q")
            elif isinstance(a[1], tuple) and a[1][0] == "flat" and name in dict(a[1][1]):
                a = ("%s_%s" % (a[0], name), dict(a[1][1])[name])       # a struct parameter passed as its fields
            elif a[1] in self.structs and name in [f[0] for f in self.structs[a[1]]["fields"]]:
                f = [f for f in self.structs[a[1]]["fields"] if f[0] == name][0]
                a = ("(%s %s)" % (f[1], a[0]), f[2])
            else:
                raise Unsupported("field %s of %s" % (name, a[1]))
        return a

    SCALARS = {"S::ZERO": "0", "S::ONE": "1", "S::TWO": "2", "S::THREE": "3", "S::FOUR": "4", "S::FIVE": "5",
               "S::SIX": "6", "S::SEVEN": "7", "S::EIGHT": "8", "S::NINE": "9", "S::TEN": "10", "S::HALF": "(1 # 2)"}

    def struct_of(self, rust_name):
        if rust_name == "Self":
            return self.env.get("self") if self.env.get("self") in self.structs else None
        for k, d in self.structs.items():
            if rust_name in d["rust"]:
                return k
        return None

    def p_primary(self):
        tok = self.peek()
        if tok[0] == "num":
            self.eat()
            return (tok[1], "lit")
        if tok == ("op", "("):
            self.eat()
            items = [self.expr()]
            while self.peek() == ("op", ","):
                self.eat()
                if self.peek() == ("op", ")"):
                    break
                items.append(self.expr())
            self.eat("op", ")")
            if len(items) == 1:
                return items[0]
            if any(x[1] == "lit" for x in items):
                raise Unsupported("untyped literal in a tuple")
            return ("(%s)" % ", ".join(x[0] for x in items), ("tup", tuple(x[1] for x in items)))
        if tok[0] == "id":
            self.eat()
            name = tok[1]
            if name in self.SCALARS:
                return (self.SCALARS[name], "Q")
            if name == "S::value" and self.peek() == ("op", "("):
                self.eat()
                a = self.args()
                if len(a) != 1 or a[0][1] != "lit":
                    raise Unsupported("S::value of a non-literal")
                return (self.lit(a[0][0], "Q"), "Q")
            if name in ("S::signum", "S::abs") and self.peek() == ("op", "("):
                self.eat()
                a = self.args()
                if len(a) != 1:
                    raise Unsupported("arity of " + name)
                return ("(%s %s)" % ({"S::signum": "qsignum", "S::abs": "Qabs"}[name], self.coerce(a[0], "Q")[0]), "Q")
            if name == "if":
                c = self.expr()
                a = self.block_expr()
                self.eat("id", "else")
                b = self.block_expr()
                if a[1] == "lit" and b[1] == "lit":
                    mark = lambda t: t if "\u00ab" in t else "\u00ab%s\u00bb" % t
                    return ("(if %s then %s else %s)" % (self.b(c), mark(a[0]), mark(b[0])), "lit")
                a, b = self.unify(a, b)
                return ("(if %s then %s else %s)" % (self.b(c), a[0], b[0]), a[1])
            if name in ("f32::min", "f32::max", "f64::min", "f64::max", "S::min", "S::max") and self.peek() == ("op", "("):
                self.eat()
                a = self.args()
                if len(a) != 2:
                    raise Unsupported("arity of " + name)
                return ("(%s %s %s)" % ("Qmin" if name.endswith("min") else "Qmax", self.coerce(a[0], "Q")[0], self.coerce(a[1], "Q")[0]), "Q")
            if name == "None":
                return ("None", ("opt", None))
            if name == "Some" and self.peek() == ("op", "("):
                self.eat()
                a = self.args()
                if len(a) != 1 or a[0][1] == "lit":
                    raise Unsupported("Some of an untyped literal")
                return ("(Some %s)" % a[0][0], ("opt", a[0][1]))
            st = self.struct_of(name)
            if st is not None and self.peek() == ("op", "{"):
                self.eat()
                given = {}
                while self.peek() != ("op", "}"):
                    f = self.eat("id")[1]
                    if self.peek() == ("op", ":"):
                        self.eat()
                        given[f] = self.expr()
                    elif f in self.env:
                        given[f] = (self.local(f), self.env[f])      # field shorthand
                    else:
                        raise Unsupported("field shorthand for an unknown variable " + f)
                    if self.peek() == ("op", ","):
                        self.eat()
                self.eat("op", "}")
                fields = self.structs[st]["fields"]
                if set(given) != {f[0] for f in fields}:
                    raise Unsupported("fields of " + name)
                return ("(%s %s)" % (self.structs[st]["ctor"], " ".join(self.coerce(given[f[0]], f[2])[0] for f in fields)), st)
            if name in self.subst:
                return (self.subst[name], "lit")
            if name in self.env:
                return (self.local(name), self.env[name])
            if name in self.enums:
                return (self.enums[name], "enum")
            raise Unsupported("unknown identifier " + name)
        raise Unsupported("unexpected token %s" % (tok,))

    def block_expr(self):
        """{ (let x = e;)* e } as an expression; the bindings are local to the block"""
        self.eat("op", "{")
        saved_env, saved_subst = dict(self.env), dict(self.subst)
        lets = []
        while self.peek() == ("id", "let"):
            self.eat()
            n = self.eat("id")[1]
            self.eat("op", "=")
            e = self.expr()
            self.eat("op", ";")
            if e[1] == "lit":
                self.subst[n] = e[0]
                self.env.pop(n, None)
                continue
            self.subst.pop(n, None)
            self.env[n] = e[1]
            lets.append((self.local(n), e[0]))
        r = self.expr()
        self.eat("op", "}")
        self.env, self.subst = saved_env, saved_subst
        text = r[0]
        for n, e in reversed(lets):
            text = "(let %s := %s in %s)" % (n, e, text)
        return (text, r[1])

    RESERVED = {"from", "to", "in", "at", "as", "end", "fix", "fun", "let", "match", "with", "then", "else", "return", "Type", "Prop", "Set", "using", "where", "for", "forall", "exists", "if", "mod"}

    def local(self, name):
        return name + "_" if name in self.RESERVED else name

    # ---- bodies
    def body(self):
        """{ (if c { return e; })* e }   or   { match *self { A => e, B => e } }"""
        self.eat("op", "{")
        if self.peek() == ("id", "match"):
            self.eat()
            self.eat("op", "*")
            scrut = self.eat("id")[1]
            self.eat("op", "{")
            arms = []
            while self.peek() != ("op", "}"):
                pat = self.eat("id")[1]
                if pat not in self.enums:
                    raise Unsupported("pattern " + pat)
                self.eat("op", "=>")
                e = self.expr()
                if self.peek() == ("op", ","):
                    self.eat()
                arms.append((self.enums[pat], e))
            self.eat("op", "}")
            self.eat("op", "}")
            tys = {e[1] for _, e in arms}
            if len(tys) != 1:
                raise Unsupported("arms of different types")
            return ("match %s with %s end" % (scrut, " ".join("| %s => %s" % (p, e[0]) for p, e in arms)), tys.pop())
        stmts = self.stmt_list()
        if self.acc and self.peek() == ("op", "*") and self.peek(1) == ("id", self.acc):
            # the final `*acc += e;` of a procedure over a `&mut` accumulator
            self.eat()
            self.eat()
            self.eat("op", "+")
            self.eat("op", "=")
            e = self.coerce(self.expr(), self.env[self.acc])
            self.eat("op", ";")
            last = ("(%s + %s)%s" % (self.acc, e[0], "%Z" if e[1] == "Z" else ""), e[1])
        else:
            last = self.expr()
        self.eat("op", "}")
        if self.peek()[0] != "eof":
            raise Unsupported("trailing tokens")
        return self.fold(stmts, last[0], last[1])

    def fold(self, stmts, out, ty):
        """the statements in front of a result expression, innermost last"""
        for st in reversed(stmts):
            if st[0] == "let":
                out = "let %s := %s in\n  %s" % (st[1], st[2][0], out)
            elif st[0] == "ret":
                ty = self.join(st[2][1], ty)
                out = "if %s then %s else\n  %s" % (st[1], st[2][0], out)
            else:       # ("iflet", name, scrutinee, inner statements): falls through to what follows when nothing returns
                inner, ty = self.fold(st[3], out, ty)
                out = "match %s with\n  | Some %s => %s\n  | None => %s\n  end" % (st[2][0], st[1], inner, out)
        return (out, ty)

    def stmt_list(self):
        """(let x = e; | let (a, b) = e; | if c { return e; } | if let Some(x) = e { statements })*"""
        stmts = []        # ("let", pattern text, expr) | ("ret", cond, expr) | ("iflet", name, expr, statements)
        while True:
            if self.peek() == ("id", "if") and self.peek(1) == ("id", "let"):
                self.eat()
                self.eat()
                self.eat("id", "Some")
                self.eat("op", "(")
                n = self.eat("id")[1]
                self.eat("op", ")")
                self.eat("op", "=")
                e = self.expr()
                if not (isinstance(e[1], tuple) and e[1][0] == "opt" and e[1][1] is not None):
                    raise Unsupported("if let Some against " + str(e[1]))
                self.eat("op", "{")
                saved_env, saved_subst = dict(self.env), dict(self.subst)
                self.subst.pop(n, None)
                self.env[n] = e[1][1]
                inner = self.stmt_list()
                self.eat("op", "}")
                self.env, self.subst = saved_env, saved_subst
                stmts.append(("iflet", self.local(n), e, inner))
            elif self.peek() == ("id", "if"):
                # `if c { return e; }` is a statement; any other `if` here is the final expression
                j = self.i + 1
                depth = 0
                while j < len(self.t) and not (self.t[j] == ("op", "{") and depth == 0):
                    depth += self.t[j] == ("op", "(")
                    depth -= self.t[j] == ("op", ")")
                    j += 1
                if j + 1 >= len(self.t) or self.t[j + 1] != ("id", "return"):
                    break
                self.eat()
                c = self.expr()
                self.eat("op", "{")
                self.eat("id", "return")
                if self.peek() == ("op", ";") and self.acc:
                    e = (self.acc, self.env[self.acc])           # `return;` of a procedure: the accumulator as it is
                else:
                    e = self.expr()
                self.eat("op", ";")
                self.eat("op", "}")
                stmts.append(("ret", self.b(c), e))
            elif self.peek() == ("id", "let"):
                self.eat()
                if self.peek() == ("op", "("):
                    self.eat()
                    names = []
                    while self.peek() != ("op", ")"):
                        names.append(self.eat("id")[1])
                        if self.peek() == ("op", ","):
                            self.eat()
                    self.eat("op", ")")
                    self.eat("op", "=")
                    e = self.expr()
                    self.eat("op", ";")
                    if not (isinstance(e[1], tuple) and e[1][0] == "tup" and len(e[1][1]) == len(names)):
                        raise Unsupported("tuple pattern against " + str(e[1]))
                    for n, t in zip(names, e[1][1]):
                        self.env[n] = t
                    stmts.append(("let", "'(%s)" % ", ".join(self.local(n) for n in names), e))
                else:
                    n = self.eat("id")[1]
                    self.eat("op", "=")
                    e = self.expr()
                    self.eat("op", ";")
                    if e[1] == "lit":
                        self.subst[n] = e[0]          # an untyped literal (or if of literals): inlined where it is used
                        self.env.pop(n, None)
                        continue
                    self.subst.pop(n, None)
                    self.env[n] = e[1]
                    stmts.append(("let", self.local(n), e))
            else:
                break
        return stmts

    def join(self, a, b):
        if a == b:
            return a
        if isinstance(a, tuple) and isinstance(b, tuple) and a[0] == "opt" and b[0] == "opt":
            if a[1] is None:
                return b
            if b[1] is None or a[1] == b[1]:
                return a
        raise Unsupported("return types differ: %s / %s" % (a, b))


def translate(body_src, env, enums, structs=None, methods=None, acc=None):
    """body_src: the function body including its braces; env: parameter name -> type;
    enums: Rust path -> Gallina constructor; acc: the `&mut` accumulator parameter of a procedure (its
    `return;` yields the accumulator, its final `*acc += e;` the sum).  Returns (gallina expression, type)."""
    toks = tokenize(body_src)
    p = P(toks, env, enums, structs, methods)
    p.acc = acc
    return p.body()
