"""Translators: regenerate coq/theories/Gen/*.v from the Rust source on every run.
A file is rewritten only when its content changes (keeps `make` incremental)."""
import os, re


def write_if_changed(path, content):
    old = None
    if os.path.exists(path):
        with open(path) as fh:
            old = fh.read()
    if old != content:
        os.makedirs(os.path.dirname(path), exist_ok=True)
        with open(path, "w") as fh:
            fh.write(content)
        return True
    return False


GENERATORS = []   # filled by gen_*.py modules: functions (repo) -> (filename, content)


def regenerate(repo, gendir):
    changed = []
    for g in GENERATORS:
        name, content = g(repo)
        if write_if_changed(os.path.join(gendir, name), content):
            changed.append(name)
    return changed
