#!/usr/bin/env python3
"""Run the registered checks against the seeded changes kept under /verif/seeded/<name>/.

  seeded.py import <dir with OUT/> <name>   copy patch.diff, demo, demo_output.txt, meta.json into seeded/<name>/
  seeded.py run [name ...] [--tier quick|thorough] [--all-checks]
        for each seeded change: git -C /repo apply, run the check of its property (and with
        --all-checks every registered check), record caught / missed, git -C /repo checkout -- .
  seeded.py matrix                          print the catch matrix (seeded/RESULTS.json) as markdown

Nothing is ever committed in /repo; the tree is restored after every run (also on failure)."""
import json
import os
import shutil
import subprocess
import sys
import time

VERIF = os.path.dirname(os.path.dirname(os.path.abspath(__file__)))
REPO = "/repo"
SEEDED = os.path.join(VERIF, "seeded")
RESULTS = os.path.join(SEEDED, "RESULTS.json")


def sh(cmd, **kw):
    return subprocess.run(cmd, shell=True, stdout=subprocess.PIPE, stderr=subprocess.STDOUT, text=True, **kw)


def repo_clean():
    return sh("git -C %s status --porcelain" % REPO).stdout.strip() == ""


def do_import(src, name):
    out = os.path.join(src, "OUT") if os.path.isdir(os.path.join(src, "OUT")) else src
    dst = os.path.join(SEEDED, name)
    os.makedirs(dst, exist_ok=True)
    for f in ("patch.diff", "demo_output.txt", "meta.json"):
        if os.path.exists(os.path.join(out, f)):
            shutil.copy(os.path.join(out, f), os.path.join(dst, f))
    demo = os.path.join(out, "demo")
    if os.path.isdir(demo):
        d2 = os.path.join(dst, "demo")
        shutil.rmtree(d2, ignore_errors=True)
        shutil.copytree(demo, d2, ignore=shutil.ignore_patterns("target", "Cargo.lock"))
    print("imported", name, sorted(os.listdir(dst)))


def load_results():
    if os.path.exists(RESULTS):
        return json.load(open(RESULTS))
    return {}


def run_one(name, tier, all_checks):
    d = os.path.join(SEEDED, name)
    meta = json.load(open(os.path.join(d, "meta.json")))
    prop = meta["property"]
    patch = os.path.join(d, "patch.diff")
    assert repo_clean(), "/repo has local changes"
    r = sh("git -C %s apply --check %s" % (REPO, patch))
    if r.returncode != 0:
        return {"property": prop, "applies": False, "detail": r.stdout[-400:]}
    sh("git -C %s apply %s" % (REPO, patch))
    res = {"property": prop, "applies": True, "summary": meta.get("summary", ""), "checks": {}}
    try:
        manifest = json.load(open(os.path.join(VERIF, "MANIFEST.json")))
        ids = [c["property_id"] for c in manifest["checks"]] if all_checks else [prop]
        for pid in ids:
            t0 = time.time()
            env = dict(os.environ, VERIF_TIER=tier)
            r = sh("python3 tools/lv.py check %s --tier %s" % (pid, tier), cwd=VERIF, env=env)
            viol = [l for l in r.stdout.splitlines() if l.startswith("VIOLATION")]
            if "harness does not build" in r.stdout and "crates/" not in r.stdout.split("harness does not build")[1][:1500]:
                # an error in the harness' own sources is not a catch
                res["checks"][pid] = {"exit": r.returncode, "caught": False, "invalid": "harness build error", "seconds": 0,
                                      "no_failing_input": False, "first_failure": ""}
                continue
            res["checks"][pid] = {
                "exit": r.returncode,
                "caught": bool(viol) and r.returncode != 0,
                "no_failing_input": any("no-failing-input-found" in l for l in viol),
                "seconds": round(time.time() - t0, 1),
                "first_failure": next((l.strip()[:300] for l in r.stdout.splitlines() if "failing input" in l or "broken:" in l), ""),
            }
    finally:
        sh("git -C %s checkout -- ." % REPO)
        sh("git -C %s clean -fdq -- crates" % REPO)
    return res


def main():
    a = sys.argv[1:]
    if not a:
        print(__doc__)
        return 2
    if a[0] == "import":
        do_import(a[1], a[2])
        return 0
    if a[0] == "run":
        tier = "quick"
        if "--tier" in a:
            tier = a[a.index("--tier") + 1]
        all_checks = "--all-checks" in a
        names = [x for x in a[1:] if not x.startswith("--") and x not in ("quick", "thorough")]
        if not names:
            names = sorted(n for n in os.listdir(SEEDED) if os.path.isdir(os.path.join(SEEDED, n)))
        results = load_results()
        for n in names:
            r = run_one(n, tier, all_checks)
            key = n
            old = results.get(key, {})
            if old.get("checks") and r.get("checks"):
                merged = dict(old["checks"])
                merged.update(r["checks"])
                r["checks"] = merged
            results[key] = r
            own = r.get("checks", {}).get(r["property"], {})
            print("%-14s %s own-check caught=%s %s" % (n, r["property"], own.get("caught"), own.get("first_failure", "")[:160]))
            json.dump(results, open(RESULTS, "w"), indent=1, sort_keys=True)
        return 0
    if a[0] == "matrix":
        results = load_results()
        print("| seeded change | property | what was changed | caught by |")
        print("|---|---|---|---|")
        for n in sorted(results):
            r = results[n]
            caught = [p + (" (no failing input)" if c.get("no_failing_input") else "") for p, c in sorted(r.get("checks", {}).items()) if c.get("caught")]
            print("| %s | %s | %s | %s |" % (n, r["property"], r.get("summary", "").replace("|", "/"), ", ".join(caught) or "**missed**"))
        return 0
    return 2


if __name__ == "__main__":
    sys.exit(main())
