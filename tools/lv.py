#!/usr/bin/env python3
"""lv.py - driver of the lyon verification framework (see /verif/DESIGN.md).

  lv.py setup                         build the Coq development and the harness
  lv.py check Cxx [--tier T] [--seed N]
  lv.py all [--tier T]                run every registered check (local convenience)

Exit status of `check`: 0 = property held on everything explored (KNOWN-FINDING
lines may be printed), 1 = `VIOLATION property=<id> replay=<path>` printed.
"""
import sys, os, re, json, time, subprocess, fcntl, hashlib, shutil, glob
from concurrent.futures import ThreadPoolExecutor

ROOT = os.path.dirname(os.path.dirname(os.path.abspath(__file__)))
COQ = os.path.join(ROOT, "coq")
HARNESS = os.path.join(ROOT, "harness")
WORK = os.path.join(ROOT, "work")
REPO = "/repo"
sys.path.insert(0, os.path.join(ROOT, "tools"))
import props as P          # registry of properties
import gen as G            # translators (Gen/*.v from the Rust source)

ENV = dict(os.environ)
ENV.update({"CARGO_NET_OFFLINE": "true", "CARGO_TERM_COLOR": "never"})

FORBIDDEN = re.compile(
    r"\b(Admitted|admit|Axiom|Axioms|Parameter|Parameters|Conjecture|Conjectures|"
    r"Admit Obligations|bypass_check|Unset Guard Checking|Unset Positivity Checking|"
    r"Unset Universe Checking|type-in-type|impredicative-set)\b")

# axioms of the standard library that may appear in Print Assumptions (by name)
ALLOWED_AXIOMS = {
    "ClassicalDedekindReals.sig_forall_dec", "ClassicalDedekindReals.sig_not_dec",
    "FunctionalExtensionality.functional_extensionality_dep",
    "functional_extensionality_dep", "sig_forall_dec", "sig_not_dec",
    "Classical_Prop.classic", "classic",
}


def log(*a):
    print(*a, file=sys.stderr, flush=True)


class Lock:
    def __init__(self, name):
        os.makedirs(WORK, exist_ok=True)
        self.path = os.path.join(WORK, "." + name + ".lock")

    def __enter__(self):
        self.f = open(self.path, "w")
        fcntl.flock(self.f, fcntl.LOCK_EX)

    def __exit__(self, *a):
        fcntl.flock(self.f, fcntl.LOCK_UN)
        self.f.close()


def run(cmd, cwd=None, timeout=1800, env=None):
    try:
        r = subprocess.run(cmd, cwd=cwd, env=env or ENV, stdout=subprocess.PIPE,
                           stderr=subprocess.STDOUT, timeout=timeout, text=True)
        return r.returncode, r.stdout
    except subprocess.TimeoutExpired as e:
        out = e.stdout if isinstance(e.stdout, str) else (e.stdout or b"").decode("utf8", "replace")
        return 124, out + "\nTIMEOUT after %ss" % timeout


# ------------------------------------------------------------------ Coq side

def coq_makefile():
    mk = os.path.join(COQ, "Makefile")
    cp = os.path.join(COQ, "_CoqProject")
    if not os.path.exists(mk) or os.path.getmtime(mk) < os.path.getmtime(cp):
        rc, out = run(["coq_makefile", "-f", "_CoqProject", "-o", "Makefile"], cwd=COQ, timeout=120)
        if rc != 0:
            raise RuntimeError("coq_makefile failed:\n" + out)


def coq_build(targets, timeout=1500):
    """make the given .vo targets (full .vo build). Returns (ok, log)."""
    with Lock("coq"):
        G.regenerate(REPO, os.path.join(COQ, "theories", "Gen"))
        coq_makefile()
        rc, out = run(["make", "-j16"] + targets, cwd=COQ, timeout=timeout)
        return rc == 0, out


def coq_sources():
    return sorted(glob.glob(os.path.join(COQ, "theories", "**", "*.v"), recursive=True))


def strip_comments(s):
    out, depth, i = [], 0, 0
    while i < len(s):
        if s.startswith("(*", i):
            depth += 1; i += 2
        elif s.startswith("*)", i) and depth > 0:
            depth -= 1; i += 2
        else:
            if depth == 0:
                out.append(s[i])
            i += 1
    return "".join(out)


def forbidden_gate():
    bad = []
    for f in coq_sources():
        txt = strip_comments(open(f).read())
        for m in FORBIDDEN.finditer(txt):
            line = txt.count("\n", 0, m.start()) + 1
            bad.append("%s:%d: %s" % (os.path.relpath(f, ROOT), line, m.group(0)))
    return bad


def theorems_of(props_file):
    txt = strip_comments(open(os.path.join(COQ, props_file)).read())
    return re.findall(r"^\s*(?:Theorem|Corollary)\s+([A-Za-z0-9_']+)", txt, re.M), \
        re.findall(r"^\s*(?:Example)\s+([A-Za-z0-9_']+)", txt, re.M)


def print_assumptions(prop_id, module, names, outdir):
    """Returns dict name -> list of axioms ([] = closed)."""
    os.makedirs(outdir, exist_ok=True)
    f = os.path.join(outdir, "assume_%s.v" % prop_id)
    with open(f, "w") as fh:
        fh.write("From LV Require Import %s.\n" % module)
        for n in names:
            fh.write("Print Assumptions %s.\n" % n)
    rc, out = run(["coqc", "-noglob", "-Q", os.path.join(COQ, "theories"), "LV", f], cwd=outdir, timeout=600)
    if rc != 0:
        return None, out
    blocks = re.split(r"(?=^Closed under the global context|^Axioms:)", out, flags=re.M)
    blocks = [b for b in blocks if b.startswith("Closed") or b.startswith("Axioms:")]
    res = {}
    if len(blocks) != len(names):
        return None, "could not parse Print Assumptions output:\n" + out
    for n, b in zip(names, blocks):
        if b.startswith("Closed"):
            res[n] = []
        else:
            res[n] = re.findall(r"^([A-Za-z_][A-Za-z0-9_.']*)\s*:", b, re.M)
    return res, out


def parse_coq_value(out):
    """Parse the value printed by `Eval vm_compute in (f cases).` : a (nested)
    list/tuple of integers.  Returns a python object."""
    m = re.search(r"=\s*(.*?)\n\s*:\s", out, re.S)
    if not m:
        raise ValueError("no value in coqc output: " + out[-2000:])
    s = m.group(1)
    s = s.replace(";", ",").replace("%Z", "").replace("%N", "").replace("%nat", "")
    s = re.sub(r"\btrue\b", "True", s)
    s = re.sub(r"\bfalse\b", "False", s)
    s = re.sub(r"\s+", " ", s)
    return eval(s, {"__builtins__": {}}, {"True": True, "False": False})


def eval_shards(files, timeout=1500):
    """coqc every shard, at most 16 at a time and within a memory budget (LV_MEM_GB, default 10 GB: a shard of n MB of
    case literals needs about 0.3 + 0.75 n GB in vm_compute; `vp run` limits a command to 16 GB); returns
    (values, errors)."""
    import threading
    budget = float(os.environ.get("LV_MEM_GB", "10"))
    cond = threading.Condition()
    state = {"free": budget}

    def cost(f):
        return min(budget, 0.3 + 0.75 * os.path.getsize(f) / 1e6)

    def one(f):
        f = os.path.abspath(f)
        c = cost(f)
        with cond:
            while state["free"] < c:
                cond.wait()
            state["free"] -= c
        try:
            rc, out = run(["coqc", "-noglob", "-Q", os.path.join(COQ, "theories"), "LV", f],
                          cwd=os.path.dirname(f), timeout=timeout)
        finally:
            with cond:
                state["free"] += c
                cond.notify_all()
        if rc != 0:
            return f, None, (out[-3000:] or "coqc exited with status %s and no output (killed: out of memory?)" % rc)
        try:
            return f, parse_coq_value(out), None
        except Exception as e:
            return f, None, "parse error: %s" % e
    vals, errs = [], []
    # largest first, so that the big shards do not queue up behind the budget at the end
    order = sorted(files, key=lambda f: -os.path.getsize(f))
    with ThreadPoolExecutor(max_workers=16) as ex:
        for f, v, e in ex.map(one, order):
            if e is not None:
                errs.append((f, e))
            else:
                vals.append((f, v))
    vals.sort(key=lambda x: x[0])
    return vals, errs


# -------------------------------------------------------------- harness side

def harness_build(profile="debug"):
    with Lock("cargo"):
        lock_src = os.path.join(REPO, "Cargo.lock")
        lock_dst = os.path.join(HARNESS, "Cargo.lock")
        if not os.path.exists(lock_dst) and os.path.exists(lock_src):
            shutil.copy(lock_src, lock_dst)
        cmd = ["cargo", "build", "--offline", "--quiet"] + (["--release"] if profile == "release" else [])
        rc, out = run(cmd, cwd=HARNESS, timeout=1800)
        errs = "\n".join(l for l in out.splitlines() if l.startswith("error") or "error[" in l)
        return rc == 0, (errs or out[-3000:])


def harness_bin(profile):
    return os.path.join(HARNESS, "target", profile, "lvh")


def harness_run(sub, profile, tier, seed, outdir, extra=(), timeout=None):
    if timeout is None:
        timeout = 600 if tier == "quick" else 3000
    os.makedirs(outdir, exist_ok=True)
    cmd = [harness_bin(profile), sub, "--tier", tier, "--seed", str(seed), "--out", outdir,
           "--shards", "16" if tier == "quick" else "128"] + list(extra)
    return run(cmd, cwd=ROOT, timeout=timeout)


# ---------------------------------------------------------- known findings

def load_known(prop_id):
    path = os.path.join(ROOT, "known_findings.txt")
    known = []
    if os.path.exists(path):
        for line in open(path):
            line = line.strip()
            m = re.match(r"known:\s+property=(\S+)\s+class=(\S+)\s+(.*)", line)
            if m and m.group(1) == prop_id:
                known.append((m.group(2), m.group(3)))
    return known


def known_budgets(known):
    """a known finding may carry `budget=N`: at most N cases of that class per run are the known finding; a run
    with more of them is something else (the class is a family of inputs on which the pinned code fails rarely)"""
    out = {}
    for c, desc in known:
        m = re.match(r"budget=(\d+)\s", desc)
        if m:
            out[c] = int(m.group(1))
    return out


# ------------------------------------------------------------------- check

def write_replay(prop_id, obj):
    d = os.path.join(WORK, "replay")
    os.makedirs(d, exist_ok=True)
    h = hashlib.sha1(json.dumps(obj, sort_keys=True).encode()).hexdigest()[:10]
    p = os.path.join(d, "%s_%s.json" % (prop_id, h))
    with open(p, "w") as fh:
        json.dump(obj, fh, indent=1)
    return p


def check(prop_id, tier, seed):
    t0 = time.time()
    spec = P.PROPS[prop_id]
    outdir = os.path.join(WORK, prop_id, tier)
    shutil.rmtree(outdir, ignore_errors=True)
    os.makedirs(outdir, exist_ok=True)
    broken = []          # obligations / correspondences that no longer check
    failures = []        # concrete failing inputs (dicts with 'what', 'input', optional 'class')
    cov = {"counters": {}}
    obligations = discharged = 0
    thm_names = []

    # 1. proof obligations ---------------------------------------------------
    ok, out = coq_build(spec["coq_targets"])
    if not ok:
        err = "\n".join(out.splitlines()[-25:])
        broken.append({"kind": "proof-obligation", "what": "Coq build of %s failed" % spec["coq_targets"],
                       "detail": err})
    gate = forbidden_gate()
    if gate:
        broken.append({"kind": "proof-gate", "what": "forbidden construct in the development", "detail": gate})
    axioms_seen = {}
    if spec.get("props_file"):
        thm_names, ex_names = theorems_of(spec["props_file"])
        gen_obl = spec.get("generated_obligations", [])
        obligations = len(thm_names) + len(ex_names) + len(gen_obl)
        if ok:
            res, aout = print_assumptions(prop_id, spec["props_module"], thm_names + gen_obl, outdir)
            if res is None:
                broken.append({"kind": "proof-obligation", "what": "Print Assumptions failed", "detail": aout[-2000:]})
            else:
                for n, ax in res.items():
                    bad_ax = [a for a in ax if a not in ALLOWED_AXIOMS and a.split(".")[-1] not in ALLOWED_AXIOMS]
                    axioms_seen[n] = ax
                    if bad_ax:
                        broken.append({"kind": "proof-gate", "what": "theorem %s depends on non-allow-listed axioms" % n,
                                       "detail": bad_ax})
                    else:
                        discharged += 1
                discharged += len(ex_names)

    # 2. correspondence + direct evaluation of the property ---------------------
    stats_all = []
    mismatches = []
    inconclusive = []
    for run_spec in spec.get("harness", []):
        sub, profile = run_spec["sub"], run_spec.get("profile", "debug")
        okb, outb = harness_build(profile)
        if not okb:
            broken.append({"kind": "correspondence", "what": "harness does not build against /repo (%s)" % profile,
                           "detail": outb})
            continue
        rdir = os.path.join(outdir, sub + "_" + profile)
        rc, hout = harness_run(sub, profile, tier, seed, rdir, run_spec.get("extra", []))
        if rc != 0:
            broken.append({"kind": "correspondence", "what": "harness run %s/%s exited with %d%s" % (
                sub, profile, rc, " (did not finish in time: hang)" if rc == 124 else ""),
                           "detail": hout[-2000:]})
            # the harness leaves a breadcrumb naming the input it is working on: a hang or an abort
            # (stack overflow, allocation failure) that no panic handler can catch happened there
            crumb = os.path.join(rdir, "current_case.txt")
            if os.path.exists(crumb):
                failures.append({"what": "the library did not return on this input (hang, stack overflow or abort)"
                                 if rc == 124 or rc < 0 or rc == 134 else "the harness stopped on this input",
                                 "input": open(crumb).read()[:3000], "run": sub + "/" + profile})
            continue
        for sf in sorted(glob.glob(os.path.join(rdir, "*_stats.json"))):
            st = json.load(open(sf))
            st["_run"] = sub + "/" + profile
            stats_all.append(st)
            for f in st.get("failures", []):
                f["run"] = sub + "/" + profile
                failures.append(f)
        shards = sorted(glob.glob(os.path.join(rdir, "*_cases_*.v")))
        if shards and ok:
            vals, errs = eval_shards(shards)
            for f, e in errs:
                broken.append({"kind": "correspondence", "what": "model evaluation failed on " + os.path.basename(f),
                               "detail": e})
            for f, v in vals:
                kind = run_spec.get("result_kind", spec.get("result_kind"))
                for pref, k in spec.get("shard_kinds", {}).items():
                    if os.path.basename(f).startswith(pref):
                        kind = k
                for item in v:
                    if kind == "plane":
                        # whole-plane checker: the ids of the cases it could not decide everywhere (never an alarm)
                        inconclusive.append(item)
                        continue
                    if kind == "curvedev":
                        # verified curve-deviation checker: (id, code, detail); code 0 = a range left undecided
                        # when the fuel ran out (never an alarm), 1 = parameters not ordered / not ending at 1,
                        # 2 = witness (range index, parameter num, den), 3 = vertex far from its curve point
                        if item[1] == 0:
                            inconclusive.append(item[0])
                            continue
                        if item[1] == 4:
                            # beyond the tolerance but within the budget of the known finding K6: a known finding,
                            # now with an exact witness
                            failures.append({"what": "verified curve-deviation checker: a point of the curve (range %s, parameter %s/%s) is "
                                                     "farther than the tolerance from the polyline, within the K6 budget" % tuple((list(item[2]) + ["?"] * 3)[:3]),
                                             "class": "K6", "case": item[0],
                                             "input": lookup_case(outdir, {"case": item}), "run": sub + "/" + profile})
                            continue
                        what = {1: "verified curve-deviation checker: the reported curve parameters are not ordered or do not end at 1",
                                2: "verified curve-deviation checker: a point of the curve (range %s, parameter %s/%s) is farther than "
                                   "the tolerance from every segment of the flattened polyline" % tuple((list(item[2]) + ["?"] * 3)[:3]),
                                3: "verified curve-deviation checker: vertex %s of the polyline is farther than the tolerance from the "
                                   "curve point of its own parameter" % (item[2][0] if item[2] else "?")}.get(item[1], "verified curve-deviation checker")
                        failures.append({"what": what, "case": item[0],
                                         "input": lookup_case(outdir, {"case": item}), "run": sub + "/" + profile})
                        continue
                    if kind == "region":
                        # verified region comparator: (id, n_unaccepted_intervals, [witness]) ; an entry
                        # without a witness point is undecided residue (never an alarm), n = -1 is an overlap
                        if item[2] or item[1] == -1:
                            wit = item[2][0] if item[2] else None
                            failures.append({"what": "verified region comparator found a witness point far from the outline "
                                                     "where coverage and fill rule disagree" if item[1] != -1 else
                                                     "verified cover count found a point far from the outline covered twice",
                                             "case": item[0], "witness_point_num_den": wit,
                                             "input": lookup_case(outdir, {"case": item}), "run": sub + "/" + profile})
                        else:
                            inconclusive.append(item[0])
                        continue
                    if kind == "cover":
                        # verified stroke cover checker: (id, uncovered must points on the scanned lines, triangles too far)
                        failures.append({"what": "verified cover checker: %d uncovered point(s) of the band on the scanned "
                                                 "lines, %d triangle(s) reaching beyond the allowed distance" % (item[1], item[2]),
                                         "case": item[0],
                                         "input": lookup_case(outdir, {"case": item}), "run": sub + "/" + profile})
                        continue
                    mismatches.append({"run": sub + "/" + profile, "shard": os.path.basename(f), "case": item})
        elif shards and not ok:
            pass  # model does not build: already recorded as a broken obligation

    if mismatches:
        idx = {}
        for st in stats_all:
            pass
        broken.append({"kind": "correspondence",
                       "what": "model and implementation disagree on %d case(s)" % len(mismatches),
                       "detail": mismatches[:20]})
        # attach the inputs of the disagreeing cases
        for m in mismatches[:20]:
            m["input"] = lookup_case(outdir, m)

    # 3. when something broke and no failing input is known yet: search ---------
    searched = False
    if broken and not failures and tier != "thorough":
        searched = True
        for run_spec in spec.get("harness", []):
            sub, profile = run_spec["sub"], run_spec.get("profile", "debug")
            if not os.path.exists(harness_bin(profile)):
                continue
            sdir = os.path.join(outdir, "search_" + sub + "_" + profile)
            rc, hout = harness_run(sub, profile, "thorough", seed + 1, sdir,
                                   list(run_spec.get("extra", [])) + ["--direct-only"])
            for sf in sorted(glob.glob(os.path.join(sdir, "*_stats.json"))):
                st = json.load(open(sf))
                for f in st.get("failures", []):
                    f["run"] = sub + "/" + profile + " (search)"
                    failures.append(f)
            # do not keep the (large) search shards
            for f in glob.glob(os.path.join(sdir, "*_cases_*.v")):
                os.remove(f)

    # 4. classify -----------------------------------------------------------------
    known = load_known(prop_id)
    known_classes = {k for k, _ in known}
    new_failures = [f for f in failures if f.get("class") not in known_classes]
    known_hits = {}
    for f in failures:
        c = f.get("class")
        if c in known_classes:
            known_hits.setdefault(c, []).append(f)
    for c, budget in known_budgets(known).items():
        hits = known_hits.get(c, [])
        if len(hits) > budget:
            # more cases than the known finding accounts for: the excess is reported
            for f in hits[budget:]:
                f = dict(f)
                f["what"] = "%s [class %s: %d cases this run, the known finding accounts for at most %d]" % (
                    f.get("what", ""), c, len(hits), budget)
                new_failures.append(f)

    lines = []
    status = 0
    for c, desc in known:
        if c in known_hits:
            lines.append("KNOWN-FINDING: property=%s %s [%s; %d case(s) this run, e.g. %s]" % (
                prop_id, desc, c, len(known_hits[c]), json.dumps(known_hits[c][0].get("input", known_hits[c][0].get("program", "")))[:200]))
        else:
            lines.append("KNOWN-FINDING: property=%s %s [%s; not hit by this run's inputs]" % (prop_id, desc, c))
    # broken obligations that are fully explained by known findings do not alarm
    explained = spec.get("known_explains", {})
    if new_failures:
        status = 1
        rp = write_replay(prop_id, {"property": prop_id, "kind": "failing-input", "tier": tier, "seed": seed,
                                    "failure": new_failures[0], "more": new_failures[1:10],
                                    "broken": broken})
        lines.append("VIOLATION property=%s replay=%s" % (prop_id, rp))
    elif broken:
        status = 1
        rp = write_replay(prop_id, {"property": prop_id, "kind": "no-failing-input-found", "tier": tier,
                                    "seed": seed, "broken": broken, "searched_thorough": searched})
        lines.append("VIOLATION property=%s replay=%s no-failing-input-found" % (prop_id, rp))

    # 5. evidence -------------------------------------------------------------------
    counters = {}
    samples = []
    distinct = distinct_nt = 0
    per_sub = {}
    for st in stats_all:
        for k, v in st.get("counters", {}).items():
            counters[st["_run"] + ":" + k] = v
        samples += [x for x in st.get("samples", []) if x not in samples][:4]
        sub = st["_run"].split("/")[0]
        d = per_sub.setdefault(sub, [0, 0])
        # debug and release runs of one generator see the same cases: count them once
        d[0] = max(d[0], st.get("distinct", 0))
        d[1] = max(d[1], st.get("distinct_nontrivial", 0))
    distinct = sum(d[0] for d in per_sub.values())
    distinct_nt = sum(d[1] for d in per_sub.values())
    evaluations = sum(v for k, v in counters.items() if k.endswith(":evaluations"))
    level = spec["level"]
    coverage = {
        "evaluations": evaluations,
        "distinct_nontrivial": distinct_nt,
        "distinct": distinct,
        "rule": spec.get("rule", ""),
        "samples": samples[:8] if samples else [],
        "counters": counters,
        "model_vs_impl_disagreements": len(mismatches),
        "inconclusive_cells": len(inconclusive),
        "direct_property_failures": len(failures),
        "known_finding_cases": {c: len(v) for c, v in known_hits.items()},
        "broken": [b["what"] for b in broken],
    }
    if obligations:
        coverage.update({
            "obligations": obligations, "discharged": discharged,
            "theorems": thm_names,
            "axioms_per_theorem": axioms_seen,
            "checker_cmd": "cd /verif/coq && make -j16 %s && coqc Print-Assumptions file (tools/lv.py)" % " ".join(spec["coq_targets"]),
            "trusted_base": spec.get("trusted_base", []) + P.COMMON_TRUSTED_BASE,
        })
    if level == "translation_validation":
        coverage.update({"programs": evaluations, "disagreements_checked": len(failures) + len(mismatches)})
    if spec.get("exhaustive_note"):
        coverage["exhaustive_part"] = spec["exhaustive_note"]
    ev = {
        "property_id": prop_id, "tier": tier, "seed": seed, "level": level,
        "coverage": coverage,
        "assumptions": spec.get("assumptions", []),
        "wall_s": round(time.time() - t0, 2),
        "violations": len(new_failures) + (1 if (broken and not new_failures) else 0),
    }
    os.makedirs(os.path.join(ROOT, "evidence"), exist_ok=True)
    with open(os.path.join(ROOT, "evidence", prop_id + ".json"), "w") as fh:
        json.dump(ev, fh, indent=1)
    for l in lines:
        print(l, flush=True)
    log("[%s %s] obligations %d/%d, evaluations %d, mismatches %d, direct failures %d (new %d), broken %d, %.1fs" % (
        prop_id, tier, discharged, obligations, evaluations, len(mismatches), len(failures), len(new_failures),
        len(broken), time.time() - t0))
    for b in broken:
        log("  broken:", b["what"], "::", json.dumps(b.get("detail"))[:1500])
    for f in new_failures[:5]:
        log("  failing input:", json.dumps(f)[:600])
    return status


def lookup_case(outdir, m):
    """find the printed input of a disagreeing case in the *_index.txt of its run"""
    try:
        cid = m["case"][0] if isinstance(m["case"], (list, tuple)) else m["case"]
        for idxf in glob.glob(os.path.join(outdir, "*", "*_index.txt")):
            with open(idxf) as fh:
                for line in fh:
                    if line.startswith("%d\t" % cid):
                        return line.rstrip("\n").split("\t", 1)[1][:4000]
    except Exception:
        pass
    return None


def setup():
    t0 = time.time()
    G.regenerate(REPO, os.path.join(COQ, "theories", "Gen"))
    with Lock("coq"):
        coq_makefile()
        rc, out = run(["make", "-j16"], cwd=COQ, timeout=3000)
    if rc != 0:
        print(out[-4000:])
        print("setup: Coq build failed")
        return 1
    for prof in ("debug", "release"):
        ok, out = harness_build(prof)
        if not ok:
            print(out)
            print("setup: harness build (%s) failed" % prof)
            return 1
    print("setup ok in %.0fs" % (time.time() - t0))
    return 0


def main():
    if len(sys.argv) < 2:
        print(__doc__); return 2
    cmd = sys.argv[1]
    args = sys.argv[2:]
    tier = os.environ.get("VERIF_TIER", "quick")
    seed = int(os.environ.get("VERIF_SEED", "1"))
    rest = []
    i = 0
    while i < len(args):
        if args[i] == "--tier":
            tier = args[i + 1]; i += 2
        elif args[i] == "--seed":
            seed = int(args[i + 1]); i += 2
        else:
            rest.append(args[i]); i += 1
    if tier not in ("quick", "thorough"):
        tier = "quick"
    if cmd == "setup":
        return setup()
    if cmd == "check":
        return check(rest[0], tier, seed)
    if cmd == "all":
        rc = 0
        for pid in sorted(P.PROPS):
            rc |= check(pid, tier, seed)
        return rc
    print(__doc__)
    return 2


if __name__ == "__main__":
    sys.exit(main())
