#!/usr/bin/env python3
"""Regenerates /verif/MANIFEST.json from tools/props.py (single source of truth)."""
import json, os, sys
ROOT = os.path.dirname(os.path.dirname(os.path.abspath(__file__)))
sys.path.insert(0, os.path.join(ROOT, "tools"))
import props as P

ids = [json.loads(l)["id"] for l in open(os.path.join(ROOT, "properties.jsonl"))]
checks = []
for pid in ids:
    if pid not in P.PROPS:
        continue
    s = P.PROPS[pid]
    checks.append({
        "property_id": pid,
        "quick_cmd": "python3 tools/lv.py check %s --tier quick" % pid,
        "thorough_cmd": "python3 tools/lv.py check %s --tier thorough" % pid,
        "evidence_file": "/verif/evidence/%s.json" % pid,
        "engine": "coq-model+harness",
        "level_claimed": {"category": s["level"], "text": s["level_text"], "design_ref": "DESIGN.md section 5, " + pid},
        "level_note": s["level_note"],
        "technique": s["technique"],
    })
na = [{"property_id": pid, "reason": P.NOT_CLAIMED.get(pid, "no registered check in this revision of /verif (work in progress, see DESIGN.md section 9)")}
      for pid in ids if pid not in P.PROPS]
m = {
    "version": 1,
    "setup_cmd": "python3 tools/lv.py setup",
    "hooks": {
        "guard": "lyon_verif",
        "enable": "RUSTFLAGS=\"--cfg lyon_verif\" (set in /verif/harness/.cargo/config.toml; the harness crate has path dependencies on /repo/crates/*)",
        "baseline_off_cmd": "cd /repo && cargo test --workspace --no-fail-fast --offline",
        "source_commits": P.HOOK_COMMITS,
        "add_only": True,
    },
    "engines": [{
        "name": "coq-model+harness", "path": "/verif/coq + /verif/harness + /verif/tools/lv.py",
        "serves_properties": [c["property_id"] for c in checks],
        "kind_free_text": "Coq 8.16 theorems about executable Gallina models; models evaluated with vm_compute on the "
                          "cases the Rust harness ran against the real code (correspondence); Coq-verified checkers "
                          "applied to implementation output; translators regenerate Gen/*.v from the Rust source",
    }],
    "checks": checks,
    "not_applicable": na,
    "notes": "All checks rebuild the harness against /repo's working tree (cargo path dependencies) and re-make the Coq "
             "development on every invocation. Known findings: /verif/known_findings.txt.",
}
json.dump(m, open(os.path.join(ROOT, "MANIFEST.json"), "w"), indent=1)
print("MANIFEST.json: %d checks, %d not claimed" % (len(checks), len(na)))
