"""Registry of the properties: what to build, what to run, how the evidence is described."""

COMMON_TRUSTED_BASE = [
    "Coq 8.16.1 kernel (coqc, full .vo builds; vm_compute used for evaluation of the models on the harness cases)",
    "tools/lv.py driver (diffing, classification), harness/ (Rust generators, recording builders, Gallina literal printer)",
    "the hand-written Gallina model is tied to the code only by the differential runs reported in this file",
]

PROPS = {}
NOT_CLAIMED = {}
HOOK_COMMITS = ["7ec16b3d", "7b24226a", "84b9c3d7", "6b48c09b", "afcbabcb"]

PROPS["C14"] = dict(
    level="proof",
    level_text="Theorems (Props/C14.v) for all well-nested builder programs and all attribute counts: every read view "
               "of the modelled storage (position events, attribute events, id events resolved through the stores, "
               "reversed, first endpoint, concatenation) equals the program's event sequence, is well formed, "
               "reversing twice is the identity and no read leaves the storage. The model is tied to path.rs by "
               "bounded-exhaustive + random differential runs (debug and release builds).",
    level_note="Trusted: Coq kernel; the hand-written model's fidelity is checked, not proved (differential runs on "
               "integer-valued coordinates); Polygon views are modelled and proved (Model/Polygon.v), PathBuffer entries and "
               "PathCommands with external storage are compared with the program's events directly (not modelled); "
               "unsafe pointer arithmetic is modelled as checked list access.",
    technique="Coq proof (induction over builder programs) + model/implementation correspondence via vm_compute",
    coq_targets=["theories/Props/C14.vo", "theories/Run/C14.vo"],
    props_file="theories/Props/C14.v",
    props_module="Props.C14",
    harness=[dict(sub="c14", profile="debug"), dict(sub="c14", profile="release")],
    rule="builder programs: every well-nested sequence of begin/line/quadratic/cubic/end/close calls up to "
         "6 (quick) / 8 (thorough) calls x attribute counts 0..3 with pairwise distinct operands (exhaustive), "
         "plus seeded random programs up to 200 calls with 0..5 attributes and repeated coordinates; "
         "every program is also appended to a PathBuffer between two other paths (attributes read back through the "
         "entry's slice), rebuilt as PathCommands over external endpoint / control-point storage (events, id events, "
         "random access by event id) and, when polygonal with one sub-path, read through Polygon::{path_events, iter, "
         "id_iter, event}; polygons: every point list of up to 4 points on a 2x2 lattice and random ones of 5..24 "
         "points, open and closed, compared with Model/Polygon.v; "
         "a case is non-trivial when it has at least 3 builder calls; distinct = distinct program text",
    exhaustive_note="all well-nested call-kind sequences up to the stated length x attribute counts 0..3; all polygons of "
                    "up to 4 points on a 2x2 lattice",
    trusted_base=[
        "Model/PathStore.v models path.rs storage/iterators with integer coordinates; f32 specifics (NaN checks, "
        "debug validator) are outside the model",
        "u32 wrap-around of endpoint ids (paths with more than 2^32 points) is not modelled",
    ],
    assumptions=["builder programs are well nested (the PathBuilder contract; lyon's debug validator enforces it)",
                 "every attribute slice has exactly num_attributes entries (asserted by the builder)"],
)

PROPS["C10"] = dict(
    level="proof",
    level_text="Theorems (Props/C10.v): for line, quadratic and cubic segments over the rationals, split / before_split / "
               "after_split / split_range / flip / degree elevation / affine transformation commute with sampling exactly, "
               "and the derivative is the first-order term of the sampled curve (explicit remainder), for ALL control "
               "points and parameters (ring identities). The Gallina definitions follow the operation order of the Rust "
               "source: 35 functions (sample, x, y, derivative, dx, dy, flip, split_range, split, before_split, after_split "
               "of the three segment types, to_cubic, to_quadratic) are ALSO regenerated from the source text on every run "
               "by the translator tools/rs2coq.py (Gen/Functions.v) and proved equal to the models (Proofs/Gen_Geom.v), and "
               "the split / flip / coordinate theorems are restated on the generated functions; LineSegment::solve_t_for_x / y, "
               "solve_y_for_x, solve_x_for_y and the baseline of both curves are regenerated too and proved to invert the "
               "regenerated evaluation (non-degenerate segment, any abscissa), to answer 0 on the degenerate branch and to "
               "join the curve's end points; the models "
               "are compared with lyon_geom (f64) for exact equality on the exactness domain. Length "
               "additivity is transcendental: validated numerically per run (not a theorem, except for lines).",
    level_note="Trusted: Coq kernel; model fidelity by differential runs on integer control points / dyadic parameters "
               "(there IEEE arithmetic is exact); rounding on general inputs and arc trigonometry are not covered by "
               "the theorems; arc operations are validated numerically.",
    technique="Coq proof (ring/field identities over Q) + exact differential correspondence via vm_compute",
    coq_targets=["theories/Props/C10.vo", "theories/Run/Geom.vo"],
    props_file="theories/Props/C10.v",
    props_module="Props.C10",
    harness=[dict(sub="c10", profile="debug")],
    rule="random integer control polygons in [-8,8]^2 (1/8 all-equal, 1/8 collinear, 1/8 start=end, 1/8 coincident "
         "control point), parameters k/16, integer affine maps; every operation of line/quadratic/cubic is one case; "
         "lengths also against a 1024-sample polyline; 8000 / 60000 f32 lattice curves (coincident control points, as they are "
         "and under an affine map) for the same identities numerically; "
         "non-trivial = control points not all equal; distinct = distinct (op, operands) text",
    trusted_base=["Model/Bezier.v follows line.rs / quadratic_bezier.rs / cubic_bezier.rs operation by operation over Q"],
    assumptions=["exact (rational) arithmetic in the theorems; f64 rounding only enters outside the exactness domain"],
)

PROPS["C12"] = dict(
    level="proof",
    level_text="Theorems (Props/C12.v) over the rationals: LineSegment::intersection_t as coded returns Some(t,u) exactly "
               "when the two segments are non-parallel, share no endpoint and meet at a point, and then (t,u) are that "
               "point's parameters (sound, complete, unique, symmetric); parallel/overlapping and endpoint-sharing "
               "segments return None; same for segment x infinite line. Tied to the code twice: intersection_t and "
               "line_intersection_t are regenerated from line.rs on every run (tools/rs2coq.py, Gen/Functions.v), proved "
               "equal to the model, and soundness / completeness are restated on the generated function; and by an EXHAUSTIVE comparison "
               "on all ordered pairs of lattice segments (4x4 lattice quick, 5x5 thorough) + random lattices. "
               "Line x quadratic IS modelled (Model/QuadLine.v, line_intersections_t statement by statement with the float "
               "special cases written out and the square root as an oracle assumed right only at the discriminant): every "
               "reported parameter is in [0,1] and on the line, every crossing in [0,1] is reported unless the projection "
               "is constant, the result is increasing; the pinned linear branch is refuted by a witness (defect repaired "
               "in /repo); tied to the code on lattice quadratics x axis-parallel lines (3000 / 24000 per run, half with a "
               "vanishing quadratic term). The other curve queries (line x cubic, cubic x cubic) are not modelled: every "
               "returned parameter is checked to denote a common point and constructed transversal crossings must be "
               "reported (validation, not proof).",
    level_note="Trusted: Coq kernel; f64 division is correctly rounded (the run compares the implementation's t with the "
               "model's rational within 2^-53 relative); curve-curve / curve-line soundness is validated per run only.",
    technique="Coq proof (Cramer's rule over Q, lra/field) + exhaustive lattice correspondence via vm_compute",
    coq_targets=["theories/Props/C12.vo", "theories/Run/C12.vo"],
    props_file="theories/Props/C12.v",
    props_module="Props.C12",
    harness=[dict(sub="c12", profile="debug")],
    rule="all ordered pairs of segments with integer endpoints in {0..3}^2 (quick, 65536 pairs) / {0..4}^2 (thorough), "
         "then random segments in [-50,50]^2 with a collinear-endpoint bias; degree-elevated f32 quadratics at small scale "
         "(lattice x 2^-7..2^-10) against unit-direction lines where lyon's thresholds select the quadratic branch and the "
         "discriminant is robustly positive (both crossings must be reported); curve queries on random f64 curves with "
         "constructed crossings; every cubic against the point curve at one of its own points, in both orders; line x "
         "quadratic with an exactly vanishing quadratic term (control point at the mean distance from a lattice line: 6000 / "
         "40000) through line_intersections_t / line_intersections / line_segment_intersections_t / the raised cubic; the "
         "Model/QuadLine.v correspondence (lattice quadratics x axis-parallel lines, 3000 / 24000); f32 line x cubic / quadratic queries on lattice curves moved by an affine map (generic, "
         "degree-elevated quadratics, linear-derivative cubics) with a constructed transversal line (soundness to 1e-3 of the "
         "curve's size, both crossings reported; K16 known); Triangle::{contains_point, intersects_line_segment, intersects}, "
         "axis-aligned line intersections, intersects_line / overlaps_line / overlaps_segment / contains_segment, "
         "Line::intersects_box against integer oracles; utils::cubic_polynomial_roots on polynomials with chosen roots; "
         "non-trivial = pair that crosses or is reported; distinct = distinct coordinates",
    exhaustive_note="segment pairs on the stated lattice are enumerated completely",
    trusted_base=["Model/LineInter.v follows LineSegment::intersection_t / line_intersection_t statement by statement"],
    assumptions=["rational arithmetic in the theorems; on integer input every f64 intermediate before the final division is exact"],
)

PROPS["C11"] = dict(
    level="proof",
    level_text="Theorems (Props/C11.v) per coordinate over the rationals. Quadratic: the reported local extremum is a root of "
               "the derivative in (0,1) and every such root is reported; no extremum => monotone on [0,1]; the exact range "
               "contains every point of the curve and is attained (tight); the fast range contains the exact one; the "
               "monotonic ranges chain from 0 to 1, every piece is x- and y-monotone and (clamp = identity) is exactly the "
               "sub-range of the curve. Cubic: the reported local extrema are exactly the roots of the derivative in (0,1) "
               "(given a correct square root of the discriminant), the exact range contains the curve, the fast range "
               "(convex hull) contains the curve; fast_bounding_range_x / y of the cubic are regenerated from cubic_bezier.rs on every "
               "run (tools/rs2coq.py), proved to BE the model's fast range, to contain the curve the regenerated x / y "
               "evaluate, and to end at control ordinates. Model compared with lyon_geom (f64) exactly on curves constructed with "
               "dyadic extremum parameters; boxes of general f64 curves, of f32 cubics whose derivative has a tiny leading "
               "coefficient (degree-elevated quadratics and linear-derivative cubics moved by an affine map), of arcs and of "
               "whole paths (lyon_algorithms::aabb), the x-only / y-only / both-axes monotone splits with their pieces and "
               "is_*_monotonic predicates, and lyon_algorithms::fit (fit_box per style, fit_path) are validated by dense "
               "sampling.",
    level_note="Trusted: Coq kernel; cubic theorems assume the sqrt oracle returns a rational root of the discriminant "
               "(perfect-square discriminants; irrational roots are outside the rational model); arc extrema, path-level "
               "aabb and fit are validated numerically, not proved; rounding on general inputs not covered.",
    technique="Coq proof (lra/nra over Q, Simpson identity for cubics) + exact differential correspondence via vm_compute",
    coq_targets=["theories/Props/C11.vo", "theories/Run/Geom.vo"],
    props_file="theories/Props/C11.v",
    props_module="Props.C11",
    harness=[dict(sub="c11", profile="debug")],
    rule="quadratics with per-coordinate (from, ctrl, div) chosen so that extremum parameters are dyadic; cubics whose "
         "derivative has chosen roots m/8 (incl. roots outside [0,1], double roots, linear derivative); plus random f64 "
         "curves in general position checked by dense sampling (box contains / tight / fast contains / monotone pieces); "
         "elliptic arcs (centre at / away from the origin, radii 1..8, sweeps of either sign incl. full turns, rotations) "
         "and line segments checked by dense sampling (exact box contains the arc and is touched on four sides, fast box "
         "contains it, extremum parameters in [0,1] and stationary); non-trivial = control points not all equal",
    trusted_base=["Model/Bezier.v extremum/bounding-range functions follow quadratic_bezier.rs / cubic_bezier.rs"],
    assumptions=["sqrt oracle correct and non-negative at the discriminant (cubic theorems; a negative 'root' breaks the "
                 "numerically stable root formula - Proofs/C11_Cubic.v: cubic_extrema_needs_nonneg_sqrt)", "rational arithmetic"],
)

PROPS["C18"] = dict(
    level="proof",
    level_text="Theorems (Props/C18.v): for every polygonal path and every point off the outline the coded accumulation "
               "(test_segment with its early-outs and half-open rule) equals the signed crossing number wn; the hit test is "
               "the fill rule applied to it; wn negates under reversal, is additive, translation invariant and is -1/0 "
               "inside/outside the unit triangle (lyon's sign convention); the fan area equals the shoelace sum, negates "
               "under reversal, its sign is the reported winding, and add_rectangle's point orders have the requested "
               "sign. Tied to the code twice: test_segment (hit_test.rs) and FillRule::is_in are regenerated from the source "
               "text on every run (tools/rs2coq.py, Gen/Functions.v), proved equal to the model and the spec theorem is "
               "restated on the generated step; and by exhaustive lattice polygons x all half-integer query points off the outline.",
    level_note="Trusted: Coq kernel; that the crossing number equals the topological number of turns is anchored by lemmas "
               "and checked per run against the angle-sum winding number (not proved in general); curved paths go through "
               "flattening and are validated against a fine flattening away from the outline.",
    technique="Coq proof (Q arithmetic, list induction) + exhaustive lattice correspondence via vm_compute",
    coq_targets=["theories/Props/C18.vo", "theories/Run/C18.vo"],
    props_file="theories/Props/C18.v",
    props_module="Props.C18",
    harness=[dict(sub="c18", profile="debug")],
    rule="every closed polygon with 3 or 4 vertices on the 3x3 (quick) / 4x4 (thorough) lattice x every half-integer query "
         "point of the bounding grid that is not on the outline; random multi-sub-path paths (open sub-paths implicitly "
         "closed); shape helpers x requested winding; curved paths vs fine flattening; non-trivial = some query point has "
         "non-zero winding",
    exhaustive_note="polygons with 3 and 4 vertices on the stated lattice, all query points of the half-integer grid",
    trusted_base=["Model/Winding.v follows hit_test.rs / area.rs / winding.rs on polygonal input"],
    assumptions=["query points not on the outline", "rational arithmetic (on the lattice the f32 comparisons are exact)"],
)

PROPS["C02"] = dict(
    level="proof",
    level_text="Component level (the monotone triangulation stage): theorems (Props/C02.v) for ALL begin/vertex*/end sequences "
               "(any positions, sides, ids): the basic and the advanced monotone tessellator emit exactly n-2 triangles for n "
               "vertices, every triangle is made of ids of the piece, pairwise distinct when the ids are (basic), flush_side on "
               "a chain of len events emits len-2 triangles with in-range pairwise distinct indices and never exhausts its "
               "loop. The Gallina port (incl. the f32-rounded `dy * 0.1` test) is compared triangle-by-triangle (ids and "
               "order) with the real code through the lyon_verif hook on every y-monotone lattice polygon up to the stated "
               "size. AREAS (also for ALL sequences, no monotonicity assumed): every triangle the basic tessellator emits has "
               "the same orientation (no flipped triangle); before the fan triangles are re-oriented the triangles add up to "
               "the polygon's shoelace area EXACTLY (conservation), the emitted ones are those up to the order of two "
               "vertices, hence their total unsigned area is at least the polygon's and equals it when no fan triangle had to "
               "be flipped; flush_side's triangles add up exactly to the area of the pending chain, for every chain; and for the "
               "ADVANCED tessellator (the one fills use), again for ALL sequences: its triangles before re-orientation (fans "
               "of flushed chains + basic triangles) add up to the polygon's area exactly, the emitted ones are those up to "
               "the order of two vertices, and the emitted areas add up exactly when no triangle had to be flipped. "
               "Interior-disjointness of the stage is validated per run (exact integer area sums). "
               "System level: the output of whole fills (C01's generators) is checked for points covered by more than one "
               "triangle on every scan line with the Coq-evaluated cover count, and on sample points directly; together "
               "with C01's exact coverage this gives 'covered exactly once'.",
    level_note="Trusted: Coq kernel; Base/F32.v rounding (validated against Rust each run); area conservation / orientation are "
               "theorems for the basic and the advanced tessellator and for flush_side; that the triangles of a y-monotone "
               "piece are pairwise disjoint is checked by exact integer area sums on every "
               "enumerated polygon, not by a theorem.",
    technique="Coq proof (invariants over the tessellator state machines) + exhaustive enumeration correspondence via hook",
    coq_targets=["theories/Props/C02.vo", "theories/Run/C02.vo", "theories/Run/C01.vo"],
    props_file="theories/Props/C02.v",
    props_module="Props.C02",
    shard_kinds={"c02sysplane_cases": "plane"},
    harness=[dict(sub="c02", profile="debug"), dict(sub="c02", profile="release"),
             dict(sub="c01", profile="debug", extra=["--overlap"], result_kind="region")],
    rule="every y-monotone lattice polygon with up to 4 (quick) / 6 (thorough) middle vertices (all left/right interleavings x "
         "x offsets 1..3) through both tessellators; random taller/narrower scalings (sides_are_close path), equal-y rows, "
         "longer chains; arbitrary non-monotone side sequences; non-trivial = at least 4 vertices",
    exhaustive_note="all side/x-offset sequences up to the stated number of middle vertices",
    trusted_base=["Model/Monotone.v is a line-by-line port of monotone.rs; the literal 0.1 is regenerated from the source (Gen/Constants.v)"],
    assumptions=["vertex positions are exact rationals; only `dy * 0.1` is rounded (the other comparisons are exact on lattice input)"],
)

PROPS["C15"] = dict(
    level="proof",
    level_text="Theorems (Props/C15.v) for ALL finite sequences over the SVG command alphabet, ALL operands, ALL arc-oracle "
               "values and ANY coordinate arithmetic: the calls the wrapped builder sees (including the end issued by build, "
               "at every prefix) are properly nested begin/edge*/end, and they are exactly the calls prescribed by an "
               "independently written reading of the SVG path rules (relative resolution, implicit move-to, close returning "
               "to the sub-path start, smooth reflection only after a curve of the same kind) - the latter under the single "
               "arithmetic fact x + (x - x) = x. The adapter model is bit-exact (correctly rounded f32 add/sub) and compared "
               "with WithSvg on all command sequences up to length 3 (quick) / 4 (thorough) over a 20-command alphabet plus "
               "random long ones; arc geometry is an oracle recorded from the real run.",
    level_note="Trusted: Coq kernel; Base/F32.v; arc geometry (SvgArc::to_arc, quadratic approximation) is an oracle here and is "
               "property C13's subject; coordinates finite (the reflection fact fails for NaN/inf).",
    technique="Coq proof (simulation between adapter state machine and SVG semantics) + bounded-exhaustive correspondence",
    coq_targets=["theories/Props/C15.vo", "theories/Run/C15.vo"],
    props_file="theories/Props/C15.v",
    props_module="Props.C15",
    harness=[dict(sub="c15", profile="debug"), dict(sub="c15", profile="release")],
    rule="all sequences of length <= 3 (quick) / <= 4 (thorough) over 20 commands with representative operands (absolute, "
         "relative, smooth, H/V, close, arc_to, relative_arc_to, arc), each followed by build; random sequences up to 40 "
         "commands with random integer operands; minimised past failures (corpus); non-trivial = at least 2 commands",
    exhaustive_note="all command sequences up to the stated length over the 20-command alphabet",
    trusted_base=["Model/SvgBuilder.v follows WithSvg in builder.rs; Verb numbering regenerated from path.rs (Gen/Constants.v)"],
    assumptions=["finite coordinates", "arc geometry supplied by the real code (oracle)"],
)

PROPS["C04"] = dict(
    level="fault_enumeration",
    level_text="Fault enumeration with a Coq-verified checker: for every public entry point of the fill and stroke "
               "tessellators and the basic shapes, on a set of paths / shapes, the builder refuses the k-th vertex for EVERY "
               "k up to the un-faulted vertex count, and u16 index buffers are pre-filled so that the j-th new vertex "
               "overflows; each recorded call trace is decided by the Gallina checker trace_ok, PROVED sound (Props/C04.v): "
               "an accepted failed trace restores any BuffersBuilder's buffers exactly, an accepted successful trace keeps "
               "the old contents as a prefix and its triangles only use ids returned since begin; ids do not wrap in the "
               "index type. A translator regenerates from the Rust source the control skeleton of every function that "
               "opens/closes a geometry and Coq re-proves that none can leave between begin and end without abort.",
    level_note="Theorems cover the BuffersBuilder state machine and the trace checker for all buffers/traces; that the "
               "tessellators produce accepted traces for all inputs is enumerated (every fault position on the listed "
               "inputs), not proved. The skeleton translator is a regex/brace matcher over fill.rs, stroke.rs, "
               "basic_shapes.rs (trusted).",
    technique="fault enumeration over every vertex position + Coq-verified trace checker + generated skeleton obligation",
    coq_targets=["theories/Props/C04.vo", "theories/Run/C04.vo"],
    props_file="theories/Props/C04.v",
    props_module="Props.C04",
    harness=[dict(sub="c04", profile="debug"), dict(sub="c04", profile="release")],
    rule="jobs = {6 fill entry points, 6 stroke entry points (joins/caps rotating)} x {square, bow-tie + open triangle, "
         "curved, curved with 2 attributes, empty path, single point, random paths} + fill/stroke of rectangle, circles "
         "(incl. radius 0 and 50), ellipse, empty rectangle; per job: un-faulted run on pre-filled buffers, refusal of the "
         "k-th vertex for every k (every k-th when > 60 vertices in the quick tier), u16 buffers pre-filled to 65535-j, "
         "simple_builder, vertex offsets, a closure as vertex constructor, the NoOutput builder, variable-width strokes "
         "(attribute 0) through the entry points that carry attributes; "
         "non-trivial = trace with more than 2 calls",
    exhaustive_note="every fault position k for each listed job (thorough tier; quick tier subsamples jobs with > 60 vertices)",
    trusted_base=["Model/GeomBuilder.v follows BuffersBuilder in geometry_builder.rs; tools/gen.py skeleton translator"],
    assumptions=["vertex_offset chosen by the user does not overflow u32 (not checked by lyon)"],
)

PROPS["C05"] = dict(
    level="translation_validation",
    level_text="Two parts. (1) PROVED (Props/C05.v): the exact oracle that decides every recorded stroke means what it says "
               "(accepted => every vertex position is position_on_path + normal * half_width in f32 arithmetic and within the "
               "allowed distance of a point of the path, every triangle has three distinct ids returned before); "
               "add_edge_triangles, for ALL ids and fold flags, emits at most two triangles, each with three distinct ids "
               "taken from the side vertices of the two endpoints; the miter limit test, with the factor REGENERATED from "
               "stroke.rs on every run, is |normal| <= miter_limit; the reach factors the oracle uses are theorems about lines "
               "tangent to the disc of radius half_width (corner distance^2 (1 + n1.n2) = 2 h^2; right angle: sqrt 2; a miter "
               "tip passing the limit test is within miter_limit half-widths; a miter-clip corner within sqrt(limit^2 + 1)). "
               "(2) VALIDATED per run: a recording StrokeGeometryBuilder reads every accessor of every vertex through every "
               "entry point x join x caps x width x miter limit x tolerance x fixed / variable width, on degenerate and random "
               "paths; no panic, Ok result, finite values, distinct valid triangle ids, position identity, reach, advancement "
               ">= 0, the source names an endpoint / edge of the input and position_on_path is where it says; add_edge_triangles "
               "(hook) equals the model on random id / fold combinations.",
    level_note="That the stroker emits accepted meshes for all inputs is explored, not proved. The reach oracle reads 'join / "
               "cap reach' as: 1 for round / bevel / butt, sqrt 2 for square caps and for inner corners of turns up to 90 "
               "degrees, miter_limit for miter, sqrt(limit^2 + 1) for miter-clip, widened by the tilt asin(rate) of the sides "
               "under variable width; plus the tolerance. Known findings K12, K13 (variable width).",
    technique="Coq-verified exact oracle + theorems on the decision logic + exploration through a recording builder",
    coq_targets=["theories/Props/C05.vo", "theories/Run/C05.vo"],
    props_file="theories/Props/C05.v",
    props_module="Props.C05",
    harness=[dict(sub="c05", profile="debug"), dict(sub="c05", profile="release")],
    rule="paths: structured (repeated points, 1e-4 / 1e5 segments, hairpin, exact back-track, closed single segment, empty, "
         "single point open / closed, closing onto the start, zig-zag on short segments, collinear with a 180 degree turn), "
         "random lattice polygons, random curved paths, random real-valued polylines; 0-2 attributes (attribute 0 = width "
         "factor 0.25..3); entry points tessellate_path, tessellate, tessellate_with_ids, tessellate_polygon, builder, "
         "builder_with_attributes; joins x start cap x end cap; width 0.01..10; miter limit 1..10; tolerance 0.01..0.5; "
         "strokes of up to 60 vertices go to the Coq oracle (capped); non-trivial = some sub-path with two segments or more",
    exhaustive_note="none (random inputs); add_edge_triangles is proved for all inputs",
    trusted_base=["Checker/StrokeSpec.v oracle and models follow stroke.rs (add_edge_triangles, miter_limit_is_exceeded, "
                  "StrokeVertex::position); tools/gen.py miter factor regex; harness resolution of ids (harness/src/c05.rs)"],
    assumptions=["finite coordinates", "width, tolerance > 0, miter limit >= 1", "variable width: attribute 0 > 0"],
)

PROPS["C06"] = dict(
    level="translation_validation",
    level_text="Two parts. (1) PROVED (Props/C06.v): the exact decision procedures of Checker/StrokeCover.v mean what they "
               "say - an empty answer of check_line_sub settles ALL the points of a horizontal line (every point of the line "
               "inside a must polygon is covered by a triangle; representatives strictly between consecutive breakpoints, "
               "both sides constant in between), and an accepted triangle lies with ALL its points (convex combinations) "
               "within the allowed distance of one segment of the path. (2) VALIDATED per run on polylines in the no-fold "
               "regime (segments >= 4 widths, turns <= 135 degrees), open and closed, all joins / caps / widths / tolerances "
               "/ entry points: the harness derives from the INPUT polyline the must polygons (segment rectangles shrunk by "
               "the tolerance; polygons inscribed in the discs of round joins and caps, so that with round joins and caps the "
               "covered set is squeezed between the points within w/2 - tol and w/2 + tol of the path) and the allowed reach "
               "(w/2 times 1 / sqrt 2 for square caps / the miter reach 1/cos(turn/2) when within the limit / sqrt(limit^2+1) "
               "for a clipped miter, plus the tolerance); Coq decides the inner claim exactly on one line inside up to 12 "
               "slabs between consecutive vertex ordinates and the outer claim for every triangle; a grid of sample points "
               "is evaluated directly as well.",
    level_note="Coverage is decided for all points of the lines scanned and, for the small strokes submitted to the "
               "whole-plane checker (at most 6 triangles and 3 must polygons; 16 per quick run, 96 per thorough run: "
               "Checker/CoverPlane.v, C06_plane_sub_sound), at EVERY point of the plane; that "
               "the stroker passes on every input is explored, not proved. Must polygons are snapped to a 2^-10 grid inside "
               "the ideal band (the margin accounts for it).",
    technique="Coq-verified exact line / triangle checkers + exploration",
    coq_targets=["theories/Props/C06.vo", "theories/Run/C06.vo"],
    props_file="theories/Props/C06.v",
    props_module="Props.C06",
    harness=[dict(sub="c06", profile="debug")],
    result_kind="cover",
    shard_kinds={"c06plane_cases": "plane"},
    rule="polylines: open with 2-6 points, segment length 4-13 widths, turn within +-135 degrees, or closed jittered regular "
         "3-6-gons of radius 6-13 widths; coordinates on a 1/8 grid; width 0.5 / 1 / 2; join x start cap x end cap; miter limit "
         "1 / 2 / 4; tolerance 0.02 / 0.1; entry points tessellate_path, tessellate, tessellate_with_ids, builder; cases with "
         "at most 48 triangles go to Coq (capped), every case is sampled on a 32x32 (48x48 thorough) grid; non-trivial = at "
         "least one join",
    exhaustive_note="none (random inputs); per case the lines scanned are decided exactly for all their points",
    trusted_base=["harness derivation of must polygons and reach from the input polyline (harness/src/c06.rs)",
                  "Checker/Region.v crossing-number containment (shared with C01, anchored by C18)"],
    assumptions=["no-fold regime as stated in the property"],
)

PROPS["C07"] = dict(
    level="translation_validation",
    level_text="Two parts. (1) PROVED (Props/C07.v) about the statement-level model Model/Sources.v: remap_t_in_range is the "
               "affine map start + v (end - start) in both branches; cutting a piece of an input edge at a local parameter "
               "(process_intersection, merge_coincident_edges, and since the fix process_edges_above) makes both parts meet at "
               "the point at that fraction, for ANY sequence of cuts; the pre-fix discipline (lower part keeps the stale start) "
               "is refuted on the property's own example; a curve flattened in reverse is the original at 1 - t; the source "
               "iterator returns no consecutive duplicates, represents every sibling, is non-empty for a non-empty sibling list "
               "and as_endpoint_id is its first endpoint; interpolated_attributes in exact arithmetic is the average over the "
               "sources, and attributes that are an affine function of position are reproduced at every vertex whose sources "
               "are sound endpoints / line edges (ANY number of sources and attributes). (2) VALIDATED per run: every vertex "
               "handed to a recording FillGeometryBuilder is resolved against the INPUT path and sent to the model: sources "
               "non-empty; endpoint sources at exactly the vertex position; line-edge sources within the slack in exact "
               "arithmetic; the attributes returned equal the model's f32 evaluation bit for bit; remap_t_in_range (hook) "
               "equals the f32 model bit for bit; curve sources are checked against the exact Bezier in the harness.",
    level_note="That the SWEEP always produces sound sources is validated on the generated inputs, not proved: the theorems are "
               "about the range algebra, the iterator and the attribute arithmetic. Known finding K11 (chord-linear parameter "
               "on curves). Slack = tolerance + 1.2e-3 (the sweep snaps vertices to edges within half the tolerance).",
    technique="Coq theorems over a statement-level model + per-vertex differential evaluation (bit-exact f32 model)",
    coq_targets=["theories/Props/C07.vo", "theories/Run/C07.vo"],
    props_file="theories/Props/C07.v",
    props_module="Props.C07",
    harness=[dict(sub="c07", profile="debug"), dict(sub="c07", profile="release")],
    rule="paths: crafted (vertex on an edge + crossing below, partially shared edges, shared vertex of 4 edges, bow-tie, three "
         "edges through a point; an active edge already cut by a crossing with a vertex on it above the crossing where a shorter "
         "COINCIDENT edge starts - 48 variants, mirrored / transposed), random lattice polygons (1-4 sub-paths, grids 5 and 8), random curved paths (lines, "
         "quadratics, cubics); 0-3 attributes, affine in position or arbitrary; both fill rules and orientations; tolerance "
         "0.01 / 0.05 / 0.2; entry points tessellate_with_ids, tessellate_path, builder_with_attributes; every vertex is "
         "checked directly, vertices with several sources or an edge source (and a quarter of the others) go to Coq; "
         "non-trivial = path with more than one sub-path",
    exhaustive_note="none (random inputs)",
    trusted_base=["Model/Sources.v follows fill.rs (remap_t_in_range, VertexSourceIterator, as_endpoint_id, "
                  "interpolated_attributes); harness resolution of ids to input geometry (harness/src/c07.rs)"],
    assumptions=["finite coordinates and attributes"],
)

PROPS["C08"] = dict(
    level="proof",
    level_text="Theorem (Props/C08.v) for an object-with-fields model: for EVERY table of persistent fields, per-field "
               "initialiser and run function (whatever it leaves behind, also when it fails or panics part-way) whose output "
               "depends only on the listed non-configuration fields, if no field is left untouched by the per-call preamble "
               "then after ANY history of calls from ANY starting object a call returns exactly what a fresh object returns; "
               "the converse (one untouched field that is read leaks) is proved too. The field tables of FillTessellator, "
               "StrokeTessellator, BasicMonotoneTessellator and AdvancedMonotoneTessellator are REGENERATED from fill.rs / "
               "stroke.rs / monotone.rs on every run and Coq re-proves that none has an untouched field (a new field "
               "without a per-call reset, or a removed reset, breaks C08_*_table_complete). Reused and fresh tessellators "
               "are compared bit-for-bit (vertices, indices relative to the buffer offset, builder call trace, Ok/Err/panic) "
               "after every call of random histories.",
    level_note="The frame premise (the sweep reads only the listed fields) and the translator's syntactic classification "
               "(an assignment / clear / resize / mem::replace / begin() of the field occurs in the per-call preamble) are "
               "assumptions about the Rust code: validated by history exploration, not proved. Capacity of recycled "
               "vectors is not modelled (it cannot influence the output).",
    technique="Coq theorem over a field-map model + translator-generated reset table + differential history exploration",
    coq_targets=["theories/Props/C08.vo"],
    props_file="theories/Props/C08.v",
    props_module="Props.C08",
    harness=[dict(sub="c08", profile="debug"), dict(sub="c08", profile="release")],
    rule="histories of 1..8 (quick) / 1..30 (thorough) calls on one FillTessellator + one StrokeTessellator; each call draws: "
         "fill or stroke; entry point (tessellate_path, tessellate, tessellate_with_ids, tessellate_polygon, builder, "
         "builder_with_attributes) or shape (circle, rectangle, ellipse); path (lattice polygons, self-intersecting bow-tie, "
         "curved with 0..3 attributes, empty); fill rule; orientation; tolerance (valid, or for fills 0 / negative / NaN); "
         "join, cap, width, variable width; builder failure injected at the k-th vertex (k < 12) in 1/4 of the calls; output "
         "buffers pre-filled with 0..9 vertices. non-trivial = a call on a tessellator that has been used before",
    exhaustive_note="none (random histories); the theorem covers all histories under the frame premise",
    trusted_base=["tools/gen.py gen_reset_table (regex over struct fields and the bodies of reset / tessellate_impl / "
                  "tessellate / tessellate_with_ids / scan_active_edges / begin / builder*)",
                  "frame premise reads_only for the real sweep"],
    assumptions=["stroke tolerance > 0 (the stroke tessellator does not validate it; tolerance 0 recurses without bound in a "
                 "fresh tessellator too)"],
)

PROPS["C17"] = dict(
    level="proof",
    level_text="Theorems (Props/C17.v) for ALL strings, attribute counts, stop characters, Unicode class predicates, number "
               "types/arithmetics/conversions (empty text not a number), arc-oracle streams and ANY attribute buffer left by "
               "a previous use: the parser model never exhausts its loop and never indexes an attribute buffer out of range "
               "(outcome = Ok or one of the four ParseError kinds), the output builder is driven with properly nested, closed "
               "calls in both cases, data whose first token is a drawing command other than move-to is rejected before "
               "anything is built, the result does not depend on the parser object's previous use, and the (line, column) "
               "carried by the source is the position of its current character. The model is a statement-by-statement port of "
               "parser.rs, bit-exact for f32, compared on every string of up to 3 (quick) / 4 (thorough) tokens over a "
               "23-token alphabet plus grammar-generated and mutated data. ROUND TRIP (C17_print_parse_roundtrip): for EVERY "
               "well-nested call sequence with the parser's attribute count, every number printer and every text->number "
               "conversion, parsing the printed text (Model/Printer.v: the Debug printer of PathSlice) yields exactly those "
               "calls and no error, provided each number's own text has the shape the number lexer consumes and converts "
               "back to it; both hypotheses are validated for Rust's {:?} of f32 on 20000 random bit patterns per run, the "
               "printer model is compared with the real printer on random stored paths, and printed texts go through the "
               "parser model like any other string.",
    level_note="Trusted: Coq kernel; Base/F32.v; Rust's f32 text conversion (assumed: empty text is an error; correct rounding - "
               "sampled each run); arc geometry is an oracle (hook verif_arcs); the round-trip theorem excludes NaN / infinities (they print as words) "
               "through its hypothesis.",
    technique="Coq proof (fuel/measure, protocol and buffer-independence invariants over the parser loop) + token-exhaustive correspondence",
    coq_targets=["theories/Props/C17.vo", "theories/Run/C17.vo"],
    props_file="theories/Props/C17.v",
    props_module="Props.C17",
    harness=[dict(sub="c17", profile="debug"), dict(sub="c17", profile="release")],
    rule="every concatenation of up to 3 (quick) / 4 (thorough) tokens from {M m L l H v Z z Q T C s A 1 -2 0.5 1e1 space , "
         "newline x | superscript-2} with attribute count and stop character rotating; minimised past failures; grammar-"
         "generated well-formed data (all commands, separators, number shapes) half of it mutated (insert/delete/replace incl. "
         "non-ASCII numerics/whitespace), sometimes parsed with a different attribute count; round trip on 800 (quick) random "
         "stored paths and 20000 random f32 texts; 320 (quick) printed paths through the parser model and the printer model; "
         "non-trivial = builder was called or an error was returned",
    exhaustive_note="all token sequences up to the stated length over the 23-token alphabet",
    trusted_base=["Model/Parser.v follows parser.rs statement by statement; hook PathParser.verif_arcs supplies arc geometry"],
    assumptions=["parser options and output builder agree on num_attributes (documented precondition)",
                 "finite numbers with |exponent| small enough to stay in the normal f32 range in the model comparison"],
)

PROPS["C20"] = dict(
    level="proof",
    level_text="Theorems (Props/C20.v) about a statement-level model of the hatcher at angle 0, for ALL polygonal paths, offset "
               "sequences and uv origins (structural ones for ANY abscissa function and any monotone addition): events are "
               "oriented, non-degenerate and sorted; on every hatched row the active edges that cross the row (half-open "
               "rule) are exactly the path's edges crossing it (the lazy sweep-line never loses or invents one); the emitted "
               "segments are the consecutive pairs of the sorted crossing abscissae, with the stated u/v/row values; the k-th "
               "row is at first.y + o_0 + ... + o_k; with the exact abscissa a point of the row lies in a segment iff an odd "
               "number of crossings are to its left (even-odd interior); paths without edges give no output. The model is "
               "bit-exact (f32 operation sequence) and compared segment-by-segment with Hatcher on lattice paths. Other "
               "angles, curved paths and dot patterns are validated per run against an independent even-odd test.",
    level_note="Trusted: Coq kernel; Base/F32.v; rotation by the hatching angle (euclid Rotation) is not modelled - angle 0 "
               "only in the theorems, other angles validated; dots validated; flattening of curves is C09's subject.",
    technique="Coq proof (sweep invariants, stable sort, parity of sorted crossings) + exact differential correspondence",
    coq_targets=["theories/Props/C20.vo", "theories/Run/C20.vo"],
    props_file="theories/Props/C20.v",
    props_module="Props.C20",
    harness=[dict(sub="c20", profile="debug")],
    rule="random lattice paths (0..3 sub-paths of 1..6 points in [-4,8]^2, open and closed, 1 in 10 empty) hatched at angle "
         "0 with random offset sequences from {0.25, 0.375, 0.5, 0.7, 1/3, 1, 2.5} and random uv origins, compared exactly; "
         "every third iteration a curved path at a random angle with regular hatches and dots checked against the hit test, the "
         "library's RegularHatchingPattern / RegularDotPattern against hand-written patterns with the same intervals, a reused "
         "Hatcher; "
         "empty / single-point inputs; non-trivial = at least one segment emitted",
    trusted_base=["Model/Hatch.v follows hatching.rs (EventsBuilder, hatch, update_sweep_line, hatch_line) at angle 0"],
    assumptions=["offsets returned by the pattern are positive until it stops (a non-positive offset ends the hatching)",
                 "f32 addition is monotone (a <= a + o for o > 0)"],
)

PROPS["C19"] = dict(
    level="proof",
    level_text="Theorems (Props/C19.v) about statement-level models of the sampler's cursor logic and of the walker's edge "
               "loop. Sampler: for every well-formed cumulative table, every starting cursor, every distance in [0, length] "
               "and whichever branch the cost heuristic takes, move_cursor terminates, never indexes out of range and ends in "
               "bounds; the linear and binary branches give the same cursor; any SEQUENCE of queries on one sampler (cursor "
               "carried along) always selects a real segment, never a Begin row (the unreachable!() cannot be reached on the "
               "repaired tree); with strictly increasing distances the in-bounds cursor is unique (history independence). "
               "Walker: the k-th event is reported at start + p_0 + ... + p_(k-1) and IS at that distance along the "
               "polyline, with at most one event per requested distance. Models compared with the code through hooks "
               "(table, cursor) on query sequences and exact 3-4-5 polylines. Positions on curves, attribute lerp, length "
               "= flattened length, and split additivity are validated per run against an f64 arc-length reference.",
    level_note="Trusted: Coq kernel; position on CURVED segments relies on flattening + linear t interpolation (validated, "
               "known finding K7 for nearly collinear control points); f32 rounding in t(dist) not modelled in the theorems.",
    technique="Coq proof (cursor/table invariants, walker loop invariant) + differential correspondence via hooks",
    coq_targets=["theories/Props/C19.vo", "theories/Run/C19.vo"],
    props_file="theories/Props/C19.v",
    props_module="Props.C19",
    harness=[dict(sub="c19", profile="debug")],
    rule="paths: polylines with Pythagorean steps (integer edge lengths), 1..4 sub-paths, single-point and closed sub-paths, "
         "0 or 2 attributes; every third path curved; per path a sequence of 1..12 sample queries (0, length, table "
         "entries, half-integers, random incl. out of range) on one sampler, fresh-sampler comparison, three split ranges, "
         "one walker run with a random pattern and start; non-trivial = table with more than 2 rows",
    trusted_base=["Model/Measure.v follows PathSampler::{in_bounds, move_cursor, t, sample_impl} and PathWalker::edge; hooks "
                  "verif_table / verif_cursor expose the table and the cursor"],
    assumptions=["walker pattern distances are positive (a non-positive distance makes PathWalker::edge loop forever - "
                 "documented precondition)", "distances are clamped to [0, length] before the cursor moves (as sample_impl does)"],
)

PROPS["C09"] = dict(
    level="translation_validation",
    level_text="Three parts. (1) PROVED (Props/C09.v) for ANY numeric oracle (step count, parameter function, number of "
               "sub-quadratics) and any arithmetic: the control structure of the quadratic callback, the quadratic point / "
               "parameter iterators, the cubic callback and the cubic point iterator yields a chain that starts exactly at "
               "the curve's start with parameter 0, is connected piece to piece, has contiguous parameter ranges and ends "
               "exactly at the curve's end with parameter exactly 1; iterators emit exactly the callback's end points. The "
               "control-structure model is tied to the code bit-exactly: the parameter ranges handed to the callbacks are "
               "recomputed in Coq from the recorded oracles (f32 and f64). (2) DECIDED per run by a VERIFIED checker "
               "(Checker/CurveDev.v; theorems C09_quad/cubic_deviation_sound: an empty report means EVERY point of the curve, "
               "t over all rationals of [0,1], is within the tolerance of the polyline; C09_*_deviation_witness: a reported "
               "witness is a genuine violation; C09_*_vertices_sound): the quadratic and cubic flattenings the sampled check "
               "accepted (up to 480 per quick run, 40 segments each) are re-decided exactly - convex-hull property + adaptive "
               "halving over exact rationals; ranges left undecided when the fuel runs out are counted, never alarms. "
               "(3) VALIDATED per run: every interface (callback, "
               "with parameters, iterators, path iterator adapter, builder adapter, arcs) on every generated curve is "
               "checked for connectivity, exact end points, strictly increasing parameters and for the two-sided distance "
               "bound by dense sampling; deviations beyond the tolerance are reported unless they fall in the documented "
               "known-finding classes K2, K6, K10.",
    level_note="That lyon's step count always meets the tolerance is NOT a theorem: Levien's step count is an approximation "
               "without a proved bound, and the code violates the bound on degenerate curves (known findings). What is proved "
               "is the checker that decides each produced flattening; arcs (trigonometric) and the flattenings beyond the "
               "per-run budget are judged by dense sampling (512 samples) only.",
    technique="Coq proof of the flattening control structure for all oracles + bit-exact correspondence; verified curve-deviation checker (translation validation of each flattening) + sampled deviation validation",
    coq_targets=["theories/Props/C09.vo", "theories/Run/C09.vo"],
    props_file="theories/Props/C09.v",
    props_module="Props.C09",
    shard_kinds={"c09dev_cases": "curvedev"},
    harness=[dict(sub="c09", profile="debug"), dict(sub="c09", profile="release")],
    rule="per scalar type (f32, f64): quadratics and cubics with lattice or random control points, tolerances "
         "{10, 1, 0.25, 0.1, 0.01, 0.001}, deliberate degeneracies (start == end, coincident / collinear / overshooting "
         "control points, hairpins, loops, all points equal); SVG arcs (endpoint form: radii of either sign, too small "
         "for the chord, all flags, rotated) through SvgArc::for_each_flattened(_with_t) against an arc computed "
         "independently of lyon; elliptic arcs (radii 0.5..20, sweeps up to +-7 rad, "
         "rotations); path-level adapters on random programs; non-trivial = control points not all equal",
    trusted_base=["Model/Flatten.v follows the loops of for_each_flattened_with_t / Flattened / FlattenedT; Base/F32.v (f32 and f64 rounding)"],
    assumptions=["oracle values (step counts, parameters) are whatever the real code computed: their adequacy for the "
                 "tolerance is validated, not proved"],
)

PROPS["C16"] = dict(
    level="proof",
    level_text="Theorems (Props/C16.v): (a) for ANY builder program, attribute count and ANY function f on points, building "
               "through the transforming builder, mapping the events of the stored path and storing the transformed "
               "program give the same events (positions and attributes) - no linearity needed; (b) for ANY program and ANY "
               "flattening oracle satisfying C09's structural guarantee, builder::Flattened emits only begin/line/end "
               "calls, keeps every original endpoint exactly (position and attributes) and in order, gives every inserted "
               "point attributes lerp(curve start attributes, curve end attributes, t) - including right after begin (the "
               "defect repaired in the pinned tree) - and emits the same positions as the iterator adapter. The model of "
               "builder::Flattened is compared call-by-call (f32-exact attributes) with the real adapter around a "
               "recording builder; transform identities, for_each_flattened and both nesting orders are checked directly.",
    level_note="Trusted: Coq kernel; Base/F32.v; flattening points are an oracle (their distance to the curve is C09's "
               "subject); nesting orders are not claimed equal (flattening is not affine covariant), each is checked to "
               "be lines-only and endpoint-preserving.",
    technique="Coq proof (list induction over builder programs) + call-by-call differential correspondence",
    coq_targets=["theories/Props/C16.vo", "theories/Run/C16.vo"],
    props_file="theories/Props/C16.v",
    props_module="Props.C16",
    harness=[dict(sub="c16", profile="debug")],
    rule="random programs (1..3 sub-paths, lines / quadratics / cubics, 0..3 attributes with values 100 apart so that stale "
         "data is visible, every third program starts sub-paths with a curve) x tolerances {1, 0.25, 0.05} x random integer "
         "affine maps, through Flattened::new / Transformed::new, the Build trait's .flattened / .transformed, "
         "Path::builder()'s own adapters and with_svg().flattened / .transformed + set_transform; non-trivial = program "
         "contains a curve",
    trusted_base=["Model/Flatten.v (fb_run / fi_run) follows builder::Flattened, private::flatten_*_bezier, iterator::Flattened"],
    assumptions=["finite coordinates and attributes"],
)

PROPS["C13"] = dict(
    level="proof",
    level_text="Theorems (Props/C13.v) over the rationals for the algebraic part of Arc::from_svg_arc, with cos/sin of the "
               "x-rotation on the unit circle and the two square roots as oracles: for every SVG arc with non-zero radii and "
               "distinct end points the returned start / end directions are unit vectors and the centre-form ellipse "
               "passes through the given start and end points; the radii are kept when rf <= 1 and both multiplied by "
               "sqrt(rf) > 1 otherwise; the sweep adjustment yields a sweep in [0, 2pi) for the sweep flag and in (-2pi, 0] "
               "without it; to_svg_arc's flags are (|sweep| >= pi, sweep >= 0); the Bezier pieces chain in angle and in "
               "parameter from 0 to exactly 1 and end at start + sweep. The model is compared with lyon_geom (f64) within "
               "1e-9 using the oracle values the code computed. Large-arc selection and the full round trip need atan2 "
               "facts: validated per run on all flag combinations, not proved; so is the distance of the quadratic / "
               "cubic approximations to the true ellipse (<= 1.2% / 0.4% of the larger radius).",
    level_note="Trusted: Coq kernel; trigonometric functions and sqrt are oracles; |sweep| >= pi <-> large-arc and the "
               "Bezier approximation error are validated numerically.",
    technique="Coq proof (field/nra identities over Q with sqrt/cos/sin oracles) + tolerance-based differential correspondence",
    coq_targets=["theories/Props/C13.vo", "theories/Run/C13.vo"],
    props_file="theories/Props/C13.v",
    props_module="Props.C13",
    harness=[dict(sub="c13", profile="debug")],
    rule="integer end points in [-10,10]^2, radii relative to the chord {comfortable, too small (scaled), = chord, = half "
         "chord (semicircle), arbitrary}, negative radius sign, x-rotation {0, the 3-4-5 angle, multiples of 0.3 rad}, all "
         "four flag combinations; every case: centre form, round trip, quadratic and cubic sequences, and the consumers - "
         "the same arc through Path::svg_builder().arc_to / relative_arc_to and through the parser's A command must run "
         "from the current point to the requested end point along the ellipse",
    trusted_base=["Model/Arc.v follows Arc::from_svg_arc / to_svg_arc / arc_to_quadratic_beziers_with_t in arc.rs"],
    assumptions=["non-zero radii and distinct end points (otherwise lyon treats the arc as a straight line)"],
)

PROPS["C01"] = dict(
    level="translation_validation",
    result_kind="region",
    level_text="Validation with a PROVED validator. The specification (Checker/Region.v, ~40 lines: signed crossing number, "
               "fill rule, covers, far) is exact over the rationals. The decision procedure check_line is proved sound "
               "(Props/C01.v, C01_line_sound): if it accepts a horizontal line, then for EVERY point of that line farther "
               "than the tolerance from every outline edge, the point is covered by an output triangle iff its winding "
               "number satisfies the fill rule; every witness it reports is proved to be a genuine violation; the tolerance "
               "band of an edge is proved convex and the squared distance exact. Each run applies it to the real "
               "tessellator's output on every vertex ordinate and every mid-slab line of every generated path (exact f32 "
               "coordinates), for all six entry points x both fill rules x both orientations x two tolerances; all "
               "generated paths are additionally checked on sample points with an independent f64 test; panics count as "
               "failures. The quantifier over points of a scanned line is discharged by proof; over lines between the "
               "scanned ones and over input paths by enumeration / sampling.",
    level_note="Not proved: that lyon's sweep produces accepted output for all paths (the sweep is not modelled). The "
               "lift from the scanned lines to the whole plane IS proved (C01_plane_sound, DESIGN.md 10.9) but costs seconds "
               "per small case: a budget of 96 (quick) / 480 (thorough) fills with at most 6 triangles per run is decided at "
               "every point of the plane, the others on all points of the scanned lines and on the sampled points. Termination "
               "and panic freedom of the real sweep are observed, not proved.",
    technique="Coq-verified scanline region comparator applied to the real output (translation validation) + exhaustive small lattice polygons",
    coq_targets=["theories/Props/C01.vo", "theories/Run/C01.vo"],
    props_file="theories/Props/C01.v",
    props_module="Props.C01",
    shard_kinds={"c01plane_cases": "plane"},
    harness=[dict(sub="c01", profile="debug")],
    rule="every closed polygon with 3 vertices and every polygon (closed / open alternating) with 4 vertices on the 3x3 "
         "(quick) / 4x4 (thorough) lattice - all coincident / collinear / repeated-vertex / bow-tie degeneracies of that "
         "size - with the configuration (fill rule, orientation, tolerance, entry point) rotating with the case index; "
         "random multi-sub-path lattice paths, stars, nested and edge-sharing squares, non-lattice polygons, tangles, rounded "
         "T-junctions (K17), shapes with notches from the top (pending merge vertices) over self-crossing sub-paths lower "
         "down (4000 / 30000), meandering monotone polygons; every other fill goes through one long-lived tessellator, half "
         "of them append to buffers that already hold a geometry and are read back through the index buffer; every case is "
         "checked directly on ~850 sample points; a rotating subset goes through the Coq checker (all scan lines); "
         "non-trivial = at least one triangle produced",
    exhaustive_note="polygons with 3 and 4 vertices on the stated lattice (direct check on all; verified checker on a rotating subset in the quick tier)",
    trusted_base=["Checker/Region.v specification; Model/Winding.v wn (anchored by C18's theorems); recording geometry builder"],
    assumptions=["points within the tolerance of an outline edge are not judged", "a call that returns Err is not judged (none observed)"],
)

PROPS["C03"] = dict(
    level="translation_validation",
    result_kind="region",
    level_text="Validation with the PROVED region comparator of C01 (Props/C01.v: C01_line_sound, C01_witness_sound) and an "
               "independent f64 check. Curved paths (quadratics, cubics, two sub-paths sharing a curved edge in opposite "
               "directions) and the built-in shapes (circle, ellipse, rectangle; path-level add_circle / add_ellipse / "
               "add_rounded_rectangle / add_rectangle) are filled through every entry point, both fill rules, tolerances "
               "1 .. 0.02. The reference outline is NOT lyon's flattening: every curve is sampled uniformly (200 points; "
               "12 for the Coq-evaluated subset, band widened by the proved chord-deviation bound of the sampling - C10's "
               "second-derivative bound; for the Coq-evaluated subset that bound is not trusted: the VERIFIED "
               "curve-deviation checker of C09 decides that EVERY point of every curve is within the claimed deviation of "
               "its sampled polyline, and that lyon's sample() at the sampling parameters is the rational model's point), "
               "circles / ellipses by 2880-gons. A point farther than tolerance (+1/64 +sampling "
               "error) from the exact boundary must be covered iff it is inside; overlaps between triangles are rejected "
               "(crack / overlap along a shared curved edge).",
    level_note="Passing from the sampled polygon to the true curve relies on the chord-deviation bound and on homotopy "
               "invariance of the winding number (not machine-checked): hence the 1/64 widening. Violations inherited from "
               "flattening (K2, K6, K10) are known findings.",
    technique="Coq-verified region comparator + independent sampling against an exact (non-lyon) reference outline",
    coq_targets=["theories/Props/C01.vo", "theories/Run/C01.vo", "theories/Props/C09.vo", "theories/Run/C09.vo"],
    props_file="theories/Props/C01.v",
    props_module="Props.C01",
    shard_kinds={"c03dev_cases": "curvedev"},
    harness=[dict(sub="c03", profile="debug")],
    rule="random curved paths (1..2 closed sub-paths of up to 4 line / quadratic / cubic segments on a 14x14 lattice), every "
         "fourth case two sub-paths sharing a cubic edge in opposite directions; shapes: circles (radius 0.5..100 and 425), "
         "ellipses (radii 1..40, rotations), rectangles; tolerances {1, 0.25, 0.139, 0.1, 0.02}; fill rule and entry point "
         "rotating; ~850 sample points per case; every sixth non-degenerate curved case through the Coq checker; one closed "
         "sub-path per iteration made of an SVG arc (Path::svg_builder().arc_to: comfortable / too small / equal / arbitrary "
         "radii, rotations, all flag combinations) and its chord, against the arc computed independently of lyon from the SVG "
         "implementation notes in f64",
    trusted_base=["same as C01; reference outlines are computed by the harness (uniform sampling in f32/f64)"],
    assumptions=["points within tolerance (+ sampling error) of the exact boundary are not judged"],
)


# ---- input families added by the audits of 2026-10-01 (DESIGN.md 10.10), appended to the rules above
_AUDITS = {
    "C05": "the shape helpers of the stroke builder (add_rectangle / circle / ellipse / rounded_rectangle / polygon / line_segment / "
           "point, both windings, sizes 0..20, widths below and above the shape: 400 / 4000 shapes through every route; per-vertex "
           "clauses, triangle differential between routes, region comparison) and the empty caps of sub-paths without extent",
    "C13": "an audit of every public function of arc.rs in f32 and f64 against an independent reference (1000 + 500 / 8000 + 4000 arcs "
           "per scalar: radii 1e-5..1e4, ratios up to 50, sweeps 1e-6..4 pi and 0, any angles, SVG arcs of 13 kinds x 4 flag combinations)",
    "C14": "path buffers holding several paths with different attribute counts through five builder routes (slices, iterators both ways, "
           "clear, FromIterator), IdPolygon, PathCommands point events over four storage types, FromPolyline, event accessors, "
           "PathSlice::reversed, extend_from_paths (409 / 3109 buffer cases; all well-nested programs of up to 5 calls exhaustively)",
    "C18": "an audit on curved paths (616 / 5516 paths x 40 query points: random, far, and exactly level with end points, control points, "
           "curve extrema and flattening vertices, one ulp above / below) against the winding as total signed angle over an own sampling, "
           "the fill tessellation at the same points, areas and compute_winding",
    "C19": "the walker over curved paths with attributes, RegularPattern / RepeatedPattern, through walk_along_path and the PathWalker "
           "builder methods (300 / 3000 paths) against a dense reference built from the program and against the sampler at the same "
           "distance; normalized / out-of-range / zero-length sampling",
    "C20": "an audit at arbitrary angles (412 / 3112 inputs in 12 families: nested, overlapping, self-intersecting, open, curved, rows "
           "through vertices and along edges, varying and non-positive offsets, dot patterns) against own even-odd row intervals and "
           "exactly against lyon's own flattening",
    "C10": "an audit of the public methods of LineSegment, Line, LineEquation, Triangle and the two Bezier types that the identities above "
           "do not name (2000 / 15000 cases each: mid_point, translate, set_length, solve_*, split_at_x, closest_point and distances, "
           "bounding_triangle, fat_line, num_quadratics, to_quadratic_error, inflections, casts, Arc::circle); clipping, dragging, "
           "the linearity predicates and flattening_step are outside the statement and only counted (observations)",
    "C12": "cubic x cubic with one or both cubics straight, identical / reversed / chained / closing pairs, point cubics at curve "
           "extrema, coordinate magnitudes 5..5e10, and cubic_polynomial_roots on polynomials with chosen roots (2000 / 15000 per family)",
}
for _k, _v in _AUDITS.items():
    PROPS[_k]["rule"] = PROPS[_k]["rule"] + "; " + _v
