//! C02 (component level): the monotone triangulation stage, driven through the
//! `lyon_verif` hook.  Every y-monotone lattice polygon up to a size (all interleavings of
//! left/right chain vertices, x offsets, collinear runs, tall/narrow scalings that trigger
//! the `sides_are_close` path) plus arbitrary side sequences; triangle lists are printed
//! for the Coq model (exact ids and order) and checked directly.
use crate::util::*;
use lyon_tessellation::math::{point, Point};
use lyon_tessellation::verif::verif_monotone;

pub const HEADER: &str =
    "From Coq Require Import QArith.\nFrom LV Require Import Base.Prelude Model.Bezier Model.Monotone Run.C02.\nOpen Scope Q_scope.";

#[derive(Clone, Debug)]
struct Case {
    first: (i64, i64),
    verts: Vec<(i64, i64, bool)>, // x, y, is_left
    last: (i64, i64),
    monotone: bool, // a valid y-monotone polygon (left chain left of right chain)
}

fn gpt(p: (i64, i64)) -> String {
    format!("({} # 1, {} # 1)", gzs(p.0), gzs(p.1))
}
fn gzs(v: i64) -> String {
    if v < 0 {
        format!("({})", v)
    } else {
        format!("{}", v)
    }
}

fn area2(a: (i64, i64), b: (i64, i64), c: (i64, i64)) -> i64 {
    (b.0 - a.0) * (c.1 - a.1) - (b.1 - a.1) * (c.0 - a.0)
}

fn run_case(id: &mut usize, c: &Case, advanced: bool, w: &mut ShardWriter, st: &mut Stats, idx: &mut std::fs::File, origin: &str) {
    use std::io::Write;
    let n = c.verts.len() + 2;
    let pos = |i: usize| -> (i64, i64) {
        if i == 0 {
            c.first
        } else if i == n - 1 {
            c.last
        } else {
            (c.verts[i - 1].0, c.verts[i - 1].1)
        }
    };
    let fp = |p: (i64, i64)| -> Point { point(p.0 as f32, p.1 as f32) };
    let verts: Vec<(Point, u32, bool)> = c.verts.iter().enumerate().map(|(i, v)| (fp((v.0, v.1)), (i + 1) as u32, v.2)).collect();
    let text = format!("{} {:?}", if advanced { "advanced" } else { "basic" }, c);
    let res = catch(|| verif_monotone(advanced, (fp(c.first), 0), &verts, (fp(c.last), (n - 1) as u32)));
    st.inc("evaluations");
    st.inc(&format!("{}_{}", origin, if advanced { "advanced" } else { "basic" }));
    st.note_case(&text, n >= 4);
    let tris = match res {
        Some(t) => t,
        None => {
            st.fail(jobj(&[("what", jstr("monotone tessellator panicked (debug assertion or index)")), ("input", jstr(&text))]));
            return;
        }
    };
    // ---- direct evaluation of the property
    if tris.len() != n - 2 {
        st.fail(jobj(&[("what", jstr(&format!("{} triangles for a monotone piece with {} vertices (expected n-2)", tris.len(), n))), ("input", jstr(&text))]));
    }
    for t in &tris {
        if t.0 == t.1 || t.1 == t.2 || t.0 == t.2 || t.0 as usize >= n || t.1 as usize >= n || t.2 as usize >= n {
            st.fail(jobj(&[("what", jstr("triangle with a repeated or unknown vertex id")), ("input", jstr(&format!("{} tri {:?}", text, t)))]));
        }
    }
    if c.monotone && tris.len() == n - 2 {
        // polygon: top, right chain downwards, bottom, left chain upwards
        let mut poly = vec![c.first];
        poly.extend(c.verts.iter().filter(|v| !v.2).map(|v| (v.0, v.1)));
        poly.push(c.last);
        poly.extend(c.verts.iter().filter(|v| v.2).rev().map(|v| (v.0, v.1)));
        let mut pa = 0i64;
        for i in 0..poly.len() {
            let (a, b) = (poly[i], poly[(i + 1) % poly.len()]);
            pa += a.0 * b.1 - b.0 * a.1;
        }
        let mut sum = 0i64;
        let mut sum_abs = 0i64;
        for t in &tris {
            let a = area2(pos(t.0 as usize), pos(t.1 as usize), pos(t.2 as usize));
            sum += a;
            sum_abs += a.abs();
        }
        if sum_abs != pa.abs() || sum.abs() != sum_abs {
            st.fail(jobj(&[
                ("what", jstr("triangle areas do not add up to the area of the monotone polygon (overlap, gap or flipped triangle)")),
                ("input", jstr(&format!("{} tris {:?}: sum {} abs {} polygon {}", text, tris, sum, sum_abs, pa))),
            ]));
        }
    }
    if *id % 211 == 0 {
        st.sample_ctr = 4;
        st.sample(format!("{} -> {:?}", text, tris));
    }
    writeln!(idx, "{}\t{} -> {:?}", *id, text, tris).ok();
    w.push(format!(
        "(mkM {} {} ({}, 0%Z) {} ({}, {}%Z) {})",
        *id,
        gbool(advanced),
        gpt(c.first),
        glist(c.verts.iter().enumerate().map(|(i, v)| format!("({}, {}%Z, {})", gpt((v.0, v.1)), i + 1, gbool(v.2)))),
        gpt(c.last),
        n - 1,
        glist(tris.iter().map(|t| format!("({}, {}, {})%Z", t.0, t.1, t.2)))
    ));
    *id += 1;
}

/// middle vertices from (is_left, xoff) choices with unit y steps (scaled), optional equal-y pairs
fn make_case(choices: &[(bool, i64)], yscale: i64, equal_y_at: Option<usize>) -> Case {
    let mut verts = Vec::new();
    let mut y = 0i64;
    for (i, (left, xo)) in choices.iter().enumerate() {
        let same_row = equal_y_at == Some(i) && i > 0 && choices[i - 1].0 && !*left;
        if !same_row {
            y += 1;
        }
        verts.push((if *left { -*xo } else { *xo }, y * yscale, *left));
    }
    Case { first: (0, 0), verts, last: (0, (y + 1) * yscale), monotone: true }
}

pub fn main(args: &Args) -> std::io::Result<()> {
    let mut st = Stats::default();
    let mut w = ShardWriter::new(&args.out, "c02_cases", args.shards, HEADER, "bad_cases");
    w.disabled = args.direct_only();
    let mut idx = std::fs::File::create(args.out.join("c02_index.txt"))?;
    let mut id = 0usize;
    let max_mid = if args.thorough() { 6 } else { 4 };
    // exhaustive: all (side, x offset in 1..3) sequences up to max_mid middle vertices
    let opts: Vec<(bool, i64)> = vec![(true, 1), (true, 2), (true, 3), (false, 1), (false, 2), (false, 3)];
    let mut total = 0u64;
    for k in 0..=max_mid {
        let count = opts.len().pow(k as u32);
        for code in 0..count {
            let mut c = code;
            let mut choices = Vec::new();
            for _ in 0..k {
                choices.push(opts[c % opts.len()]);
                c /= opts.len();
            }
            let case = make_case(&choices, 1, None);
            for adv in [false, true] {
                run_case(&mut id, &case, adv, &mut w, &mut st, &mut idx, "exhaustive");
            }
            total += 1;
        }
    }
    st.add("exhaustive_max_middle_vertices", max_mid as u64);
    st.add("exhaustive_polygons", total);
    // tall / narrow scalings (sides_are_close path, f32 rounding of dy * 0.1), equal-y rows, longer chains
    let mut rng = Rng::new(args.seed ^ 0x02);
    let n_random = if args.thorough() { 30000 } else { 3000 };
    for _ in 0..n_random {
        let k = 1 + rng.below(if args.thorough() { 10 } else { 8 }) as usize;
        let choices: Vec<(bool, i64)> = (0..k).map(|_| (rng.chance(1, 2), 1 + rng.below(3) as i64)).collect();
        let yscale = *rng.pick(&[1, 5, 10, 10, 20, 30, 40]);
        let eq = if rng.chance(1, 3) { Some(rng.below(k as u64) as usize) } else { None };
        let case = make_case(&choices, yscale, eq);
        for adv in [false, true] {
            run_case(&mut id, &case, adv, &mut w, &mut st, &mut idx, "scaled");
        }
    }
    // meandering chains: both chains may wander over the whole width (a left vertex may lie to the right of
    // earlier right vertices) as long as the polygon stays simple: left chain strictly left of the right
    // chain at every vertex ordinate
    let x_at = |chain: &[(i64, i64)], y: i64| -> Option<(i64, i64)> {
        // x as a fraction (num, den > 0) on the y-monotone chain
        for w in chain.windows(2) {
            let (a, b) = (w[0], w[1]);
            if a.1 <= y && y <= b.1 && a.1 != b.1 {
                return Some((a.0 * (b.1 - a.1) + (y - a.1) * (b.0 - a.0), b.1 - a.1));
            }
        }
        None
    };
    let mut accepted = 0u64;
    for _ in 0..n_random * 4 {
        let k = 2 + rng.below(if args.thorough() { 9 } else { 8 }) as usize;
        let yscale = *rng.pick(&[1i64, 2, 4]);
        let mut verts: Vec<(i64, i64, bool)> = Vec::new();
        for i in 0..k {
            verts.push((rng.range(-6, 12), (i as i64 + 1) * yscale, rng.chance(1, 2)));
        }
        let (first, last) = ((0i64, 0i64), (rng.range(-2, 4), (k as i64 + 1) * yscale));
        let mut left = vec![first];
        left.extend(verts.iter().filter(|v| v.2).map(|v| (v.0, v.1)));
        left.push(last);
        let mut right = vec![first];
        right.extend(verts.iter().filter(|v| !v.2).map(|v| (v.0, v.1)));
        right.push(last);
        let simple = (1..=k as i64).all(|j| {
            let y = j * yscale;
            match (x_at(&left, y), x_at(&right, y)) {
                (Some((ln, ld)), Some((rn, rd))) => ln * rd < rn * ld,
                _ => false,
            }
        });
        if !simple {
            continue;
        }
        accepted += 1;
        let case = Case { first, verts, last, monotone: true };
        for adv in [false, true] {
            run_case(&mut id, &case, adv, &mut w, &mut st, &mut idx, "meandering");
        }
        if accepted >= n_random as u64 {
            break;
        }
    }
    st.add("meandering_polygons", accepted);
    // long convex chains (the shape of a circle's side): k vertices bulging outwards on one side, the other
    // side straight, far away, or another arc; every k up to 40 (the fan hierarchy of flush_side depends on k)
    let kmax = if args.thorough() { 64 } else { 40 };
    for k in 3..=kmax {
        for variant in 0..6 {
            let ys = *rng.pick(&[1i64, 2, 3]);
            let amp = 1 + rng.below(3) as i64;
            let mut verts: Vec<(i64, i64, bool)> = Vec::new();
            let bulge = |i: i64, n: i64| amp * i * (n - i); // parabola: strictly convex chain
            let n = k as i64 + 1;
            let (left_arc, right_kind) = (variant % 2 == 0, variant / 2);
            for i in 1..=k as i64 {
                let x = bulge(i, n);
                verts.push((if left_arc { -x } else { x }, i * ys * 2, left_arc));
                match right_kind {
                    1 if i % 3 == 0 => verts.push((if left_arc { 3 } else { -3 }, i * ys * 2 + 1, !left_arc)),
                    2 => verts.push((if left_arc { bulge(i, n) / 2 + 1 } else { -(bulge(i, n) / 2) - 1 }, i * ys * 2 + 1, !left_arc)),
                    _ => {}
                }
            }
            let case = Case { first: (0, 0), verts, last: (0, n * ys * 2), monotone: true };
            for adv in [false, true] {
                run_case(&mut id, &case, adv, &mut w, &mut st, &mut idx, "convex_arc");
            }
        }
    }
    // arbitrary (not necessarily monotone-polygon) sequences: y non-decreasing, any x, any side
    for _ in 0..n_random / 2 {
        let k = rng.below(8) as usize;
        let mut y = 0;
        let verts: Vec<(i64, i64, bool)> = (0..k)
            .map(|_| {
                y += rng.below(3) as i64;
                (rng.range(-4, 4), y, rng.chance(1, 2))
            })
            .collect();
        let case = Case { first: (rng.range(-2, 2), 0), verts, last: (rng.range(-2, 2), y + rng.below(2) as i64), monotone: false };
        for adv in [false, true] {
            run_case(&mut id, &case, adv, &mut w, &mut st, &mut idx, "arbitrary");
        }
    }
    w.finish()?;
    // F32 rounding validation cases (a * b in f32) for Base/F32.v
    {
        let mut fw = ShardWriter::new(&args.out, "c02f32_cases", 2, HEADER, "bad_f32");
        fw.disabled = args.direct_only();
        for i in 0..4000 {
            let a = if i % 3 == 0 { rng.range(0, 400) as f32 } else { f32::from_bits(0x3000_0000 + (rng.next_u64() % 0x1800_0000) as u32) };
            let b = if i % 2 == 0 { 0.1f32 } else { f32::from_bits(0x3000_0000 + (rng.next_u64() % 0x1800_0000) as u32) };
            let r = a * b;
            fw.push(format!("({}%Z, {}, {}, {})", i, gq32(a), gq32(b), gq32(r)));
        }
        st.add("f32_round_validation_cases", 4000);
        fw.finish()?;
    }
    st.write(&args.out.join("c02_stats.json"))
}
