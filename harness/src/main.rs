//! lvh: runs the real lyon code on generated inputs and prints what it did as
//! Gallina literals (for the Coq models / verified checkers) plus direct
//! evaluations of each property on the implementation's output.
mod util;
mod c14;
mod geom;
mod c12;
mod c01;
mod c13;
mod c16;
mod c09;
mod c19;
mod c05;
mod c06;
mod c07;
mod c08;
mod c20;
mod tess;
mod c04;
mod c17;
mod c15;
mod c02;
mod c18;

use std::path::PathBuf;
use util::Args;

fn main() {
    // panics of the code under test are caught and reported as observations
    if std::env::var("LVH_PANIC").is_err() {
        std::panic::set_hook(Box::new(|_| {}));
    }
    let argv: Vec<String> = std::env::args().collect();
    if argv.len() < 2 {
        eprintln!("usage: lvh <property> [--tier quick|thorough] [--seed N] [--out DIR] [--shards K] [--replay FILE]");
        std::process::exit(2);
    }
    let mut args = Args {
        tier: "quick".into(),
        seed: 1,
        out: PathBuf::from("."),
        shards: 16,
        replay: None,
        extra: vec![],
    };
    let mut i = 2;
    while i < argv.len() {
        match argv[i].as_str() {
            "--tier" => { args.tier = argv[i + 1].clone(); i += 2; }
            "--seed" => { args.seed = argv[i + 1].parse().expect("seed"); i += 2; }
            "--out" => { args.out = PathBuf::from(&argv[i + 1]); i += 2; }
            "--shards" => { args.shards = argv[i + 1].parse().expect("shards"); i += 2; }
            "--replay" => { args.replay = Some(argv[i + 1].clone()); i += 2; }
            other => { args.extra.push(other.to_string()); i += 1; }
        }
    }
    std::fs::create_dir_all(&args.out).expect("out dir");
    let r = match argv[1].to_lowercase().as_str() {
        "c14" => c14::main(&args),
        "c10" => geom::main_c10(&args),
        "c11" => geom::main_c11(&args),
        "c12" => c12::main(&args),
        "c01" => c01::main(&args),
        "c03" => c01::main_c03(&args),
        "c13" => c13::main(&args),
        "c16" => c16::main(&args),
        "c09" => c09::main(&args),
        "c19" => c19::main(&args),
        "c05" => c05::main(&args),
        "c06" => c06::main(&args),
        "c07" => c07::main(&args),
        "c08" => c08::main(&args),
        "c20" => c20::main(&args),
        "c04" => c04::main(&args),
        "c17" => c17::main(&args),
        "c15" => c15::main(&args),
        "c02" => c02::main(&args),
        "c18" => c18::main(&args),
        p => { eprintln!("unknown property {}", p); std::process::exit(2); }
    };
    if let Err(e) = r {
        eprintln!("harness I/O error: {}", e);
        std::process::exit(3);
    }
}
