//! C15: SVG-style builder.  Command sequences (bounded-exhaustive over a 20-command alphabet,
//! then random long ones) are issued to `WithSvg` wrapping a recording builder; the recorded
//! calls are printed for the Coq adapter model and the Coq SVG semantics, and checked
//! directly (nesting + an independent Rust reading of the SVG rules).
use crate::util::*;
use lyon_path::builder::{PathBuilder, SvgPathBuilder, WithSvg, Build};
use lyon_path::geom::{Arc, ArcFlags, SvgArc};
use lyon_path::math::{point, vector, Angle, Point, Vector};
use lyon_path::{Attributes, EndpointId};

pub const HEADER: &str =
    "From Coq Require Import QArith.\nFrom LV Require Import Base.Prelude Model.SvgBuilder Run.C15.\nOpen Scope Q_scope.";

#[derive(Clone, Debug, PartialEq)]
pub enum Call {
    Begin(Point),
    Line(Point),
    Quad(Point, Point),
    Cubic(Point, Point, Point),
    End(bool),
}

#[derive(Default)]
pub struct Rec {
    pub calls: Vec<Call>,
}

impl PathBuilder for Rec {
    fn num_attributes(&self) -> usize {
        0
    }
    fn begin(&mut self, at: Point, _a: Attributes) -> EndpointId {
        self.calls.push(Call::Begin(at));
        EndpointId(self.calls.len() as u32)
    }
    fn end(&mut self, close: bool) {
        self.calls.push(Call::End(close));
    }
    fn line_to(&mut self, to: Point, _a: Attributes) -> EndpointId {
        self.calls.push(Call::Line(to));
        EndpointId(self.calls.len() as u32)
    }
    fn quadratic_bezier_to(&mut self, ctrl: Point, to: Point, _a: Attributes) -> EndpointId {
        self.calls.push(Call::Quad(ctrl, to));
        EndpointId(self.calls.len() as u32)
    }
    fn cubic_bezier_to(&mut self, c1: Point, c2: Point, to: Point, _a: Attributes) -> EndpointId {
        self.calls.push(Call::Cubic(c1, c2, to));
        EndpointId(self.calls.len() as u32)
    }
}

impl Build for Rec {
    type PathType = Vec<Call>;
    fn build(self) -> Vec<Call> {
        self.calls
    }
}

#[derive(Clone, Debug)]
pub enum Cmd {
    Move(Point),
    RelMove(Vector),
    Line(Point),
    RelLine(Vector),
    H(f32),
    RelH(f32),
    V(f32),
    RelV(f32),
    Quad(Point, Point),
    RelQuad(Vector, Vector),
    SmoothQuad(Point),
    RelSmoothQuad(Vector),
    Cubic(Point, Point, Point),
    RelCubic(Vector, Vector, Vector),
    SmoothCubic(Point, Point),
    RelSmoothCubic(Vector, Vector),
    Close,
    ArcTo(Vector, f32, bool, bool, Point),
    RelArcTo(Vector, f32, bool, bool, Vector),
    Arc(Point, Vector, f32, f32),
}

#[derive(Clone, Debug)]
pub struct Oracle {
    straight: bool,
    skip: bool,
    start: Point,
    near: bool,
    quads: Vec<(Point, Point)>,
}

fn arc_oracle(from: Point, center: Point, radii: Vector, sweep: Angle, rot: Angle) -> Oracle {
    use lyon_path::geom::euclid::approxeq::ApproxEq;
    let skip = from.approx_eq(&center);
    // the parameter of the current point on the rotated ellipse (same expression as WithSvg::arc; that the arc then
    // really ends at the requested point is checked independently below and in C13)
    let v = lyon_path::math::Rotation::new(-rot).transform_vector(from - center);
    let start_angle = lyon_path::math::vector(v.x / radii.x, v.y / radii.y).angle_from_x_axis();
    let arc = Arc { center, radii, start_angle, sweep_angle: sweep, x_rotation: rot };
    let start = arc.from();
    let near = (start - from).square_length() < 0.01;
    let mut quads = Vec::new();
    if !skip {
        arc.cast::<f64>().for_each_quadratic_bezier(&mut |c| {
            let c = c.cast::<f32>();
            quads.push((c.ctrl, c.to));
        });
    }
    Oracle { straight: false, skip, start, near, quads }
}

fn gq(v: f32) -> String {
    if v.is_finite() {
        gq32(v)
    } else {
        "(123456789 # 1)".into()
    }
}
fn gp(p: Point) -> String {
    format!("({}, {})", gq(p.x), gq(p.y))
}
fn gv(p: Vector) -> String {
    format!("({}, {})", gq(p.x), gq(p.y))
}
fn goracle(o: &Oracle) -> String {
    format!(
        "(mkAO Q {} {} {} {} {})",
        gbool(o.straight),
        gbool(o.skip),
        gp(o.start),
        gbool(o.near),
        glist(o.quads.iter().map(|(c, t)| format!("({}, {})", gp(*c), gp(*t))))
    )
}
fn gcall(c: &Call) -> String {
    match c {
        Call::Begin(p) => format!("IBegin Q {}", gp(*p)),
        Call::Line(p) => format!("ILine Q {}", gp(*p)),
        Call::Quad(c, p) => format!("IQuad Q {} {}", gp(*c), gp(*p)),
        Call::Cubic(a, b, p) => format!("ICubic Q {} {} {}", gp(*a), gp(*b), gp(*p)),
        Call::End(c) => format!("IEnd Q {}", gbool(*c)),
    }
}

/// issue the commands on any SVG builder
fn drive_svg<B: PathBuilder>(svg: &mut WithSvg<B>, cmds: &[Cmd]) {
    for c in cmds {
        match c {
            Cmd::Move(p) => { svg.move_to(*p); }
            Cmd::RelMove(v) => svg.relative_move_to(*v),
            Cmd::Line(p) => { svg.line_to(*p); }
            Cmd::RelLine(v) => svg.relative_line_to(*v),
            Cmd::H(x) => svg.horizontal_line_to(*x),
            Cmd::RelH(x) => svg.relative_horizontal_line_to(*x),
            Cmd::V(y) => svg.vertical_line_to(*y),
            Cmd::RelV(y) => svg.relative_vertical_line_to(*y),
            Cmd::Quad(c, p) => { svg.quadratic_bezier_to(*c, *p); }
            Cmd::RelQuad(c, p) => svg.relative_quadratic_bezier_to(*c, *p),
            Cmd::SmoothQuad(p) => svg.smooth_quadratic_bezier_to(*p),
            Cmd::RelSmoothQuad(v) => svg.smooth_relative_quadratic_bezier_to(*v),
            Cmd::Cubic(a, b, p) => { svg.cubic_bezier_to(*a, *b, *p); }
            Cmd::RelCubic(a, b, p) => svg.relative_cubic_bezier_to(*a, *b, *p),
            Cmd::SmoothCubic(b, p) => svg.smooth_cubic_bezier_to(*b, *p),
            Cmd::RelSmoothCubic(b, p) => svg.smooth_relative_cubic_bezier_to(*b, *p),
            Cmd::Close => svg.close(),
            Cmd::ArcTo(r, rot, l, s, to) => svg.arc_to(*r, Angle::radians(*rot), ArcFlags { large_arc: *l, sweep: *s }, *to),
            Cmd::RelArcTo(r, rot, l, s, v) => svg.relative_arc_to(*r, Angle::radians(*rot), ArcFlags { large_arc: *l, sweep: *s }, *v),
            Cmd::Arc(c, r, sw, rot) => svg.arc(*c, *r, Angle::radians(*sw), Angle::radians(*rot)),
        }
    }
}

/// the events of a stored path as builder calls
fn path_calls(p: &lyon_path::Path) -> Vec<Call> {
    p.iter()
        .map(|e| match e {
            lyon_path::PathEvent::Begin { at } => Call::Begin(at),
            lyon_path::PathEvent::Line { to, .. } => Call::Line(to),
            lyon_path::PathEvent::Quadratic { ctrl, to, .. } => Call::Quad(ctrl, to),
            lyon_path::PathEvent::Cubic { ctrl1, ctrl2, to, .. } => Call::Cubic(ctrl1, ctrl2, to),
            lyon_path::PathEvent::End { close, .. } => Call::End(close),
        })
        .collect()
}

/// issue the command on the real builder; returns the Gallina literal of the command (with the
/// oracle observed at this point) and the oracle (for the Rust semantics)
fn issue(svg: &mut WithSvg<Rec>, c: &Cmd) -> (String, Option<Oracle>) {
    let cur = svg.current_position();
    match c {
        Cmd::Move(p) => {
            SvgPathBuilder::move_to(svg, *p);
            (format!("SMove Q {}", gp(*p)), None)
        }
        Cmd::RelMove(v) => {
            svg.relative_move_to(*v);
            (format!("SRelMove Q {}", gv(*v)), None)
        }
        Cmd::Line(p) => {
            SvgPathBuilder::line_to(svg, *p);
            (format!("SLine Q {}", gp(*p)), None)
        }
        Cmd::RelLine(v) => {
            svg.relative_line_to(*v);
            (format!("SRelLine Q {}", gv(*v)), None)
        }
        Cmd::H(x) => {
            svg.horizontal_line_to(*x);
            (format!("SHoriz Q {}", gq(*x)), None)
        }
        Cmd::RelH(x) => {
            svg.relative_horizontal_line_to(*x);
            (format!("SRelHoriz Q {}", gq(*x)), None)
        }
        Cmd::V(y) => {
            svg.vertical_line_to(*y);
            (format!("SVert Q {}", gq(*y)), None)
        }
        Cmd::RelV(y) => {
            svg.relative_vertical_line_to(*y);
            (format!("SRelVert Q {}", gq(*y)), None)
        }
        Cmd::Quad(c, p) => {
            SvgPathBuilder::quadratic_bezier_to(svg, *c, *p);
            (format!("SQuad Q {} {}", gp(*c), gp(*p)), None)
        }
        Cmd::RelQuad(c, p) => {
            svg.relative_quadratic_bezier_to(*c, *p);
            (format!("SRelQuad Q {} {}", gv(*c), gv(*p)), None)
        }
        Cmd::SmoothQuad(p) => {
            svg.smooth_quadratic_bezier_to(*p);
            (format!("SSmoothQuad Q {}", gp(*p)), None)
        }
        Cmd::RelSmoothQuad(v) => {
            svg.smooth_relative_quadratic_bezier_to(*v);
            (format!("SRelSmoothQuad Q {}", gv(*v)), None)
        }
        Cmd::Cubic(a, b, p) => {
            SvgPathBuilder::cubic_bezier_to(svg, *a, *b, *p);
            (format!("SCubic Q {} {} {}", gp(*a), gp(*b), gp(*p)), None)
        }
        Cmd::RelCubic(a, b, p) => {
            svg.relative_cubic_bezier_to(*a, *b, *p);
            (format!("SRelCubic Q {} {} {}", gv(*a), gv(*b), gv(*p)), None)
        }
        Cmd::SmoothCubic(b, p) => {
            svg.smooth_cubic_bezier_to(*b, *p);
            (format!("SSmoothCubic Q {} {}", gp(*b), gp(*p)), None)
        }
        Cmd::RelSmoothCubic(b, p) => {
            svg.smooth_relative_cubic_bezier_to(*b, *p);
            (format!("SRelSmoothCubic Q {} {}", gv(*b), gv(*p)), None)
        }
        Cmd::Close => {
            SvgPathBuilder::close(svg);
            ("SClose Q".to_string(), None)
        }
        Cmd::ArcTo(radii, rot, large, sweep, to) => {
            let flags = ArcFlags { large_arc: *large, sweep: *sweep };
            let sa = SvgArc { from: cur, to: *to, radii: *radii, x_rotation: Angle::radians(*rot), flags };
            let o = if sa.is_straight_line() {
                Oracle { straight: true, skip: false, start: cur, near: false, quads: vec![] }
            } else {
                let a = sa.to_arc();
                arc_oracle(cur, a.center, a.radii, a.sweep_angle, a.x_rotation)
            };
            svg.arc_to(*radii, Angle::radians(*rot), flags, *to);
            (format!("SArcTo Q {} {}", gp(*to), goracle(&o)), Some(o))
        }
        Cmd::RelArcTo(radii, rot, large, sweep, v) => {
            let flags = ArcFlags { large_arc: *large, sweep: *sweep };
            let to = cur + *v;
            let sa = SvgArc { from: cur, to, radii: *radii, x_rotation: Angle::radians(*rot), flags };
            let o = if sa.is_straight_line() {
                Oracle { straight: true, skip: false, start: cur, near: false, quads: vec![] }
            } else {
                let a = sa.to_arc();
                arc_oracle(cur, a.center, a.radii, a.sweep_angle, a.x_rotation)
            };
            svg.relative_arc_to(*radii, Angle::radians(*rot), flags, *v);
            (format!("SRelArcTo Q {} {}", gv(*v), goracle(&o)), Some(o))
        }
        Cmd::Arc(center, radii, sweep, rot) => {
            let o = arc_oracle(cur, *center, *radii, Angle::radians(*sweep), Angle::radians(*rot));
            svg.arc(*center, *radii, Angle::radians(*sweep), Angle::radians(*rot));
            (format!("SArc Q {}", goracle(&o)), Some(o))
        }
    }
}

/// Independent reading of the SVG path rules (plus lyon's documented first-command rule).
struct Sem {
    cur: Point,
    start: Point,
    open: bool,
    empty: bool,
    q: Option<Point>,
    c: Option<Point>,
    out: Vec<Call>,
}

impl Sem {
    fn mv(&mut self, p: Point) {
        if self.open {
            self.out.push(Call::End(false));
        }
        self.out.push(Call::Begin(p));
        self.cur = p;
        self.start = p;
        self.open = true;
        self.empty = false;
        self.q = None;
        self.c = None;
    }
    fn draw(&mut self, to: Point, edge: Call, q: Option<Point>, c: Option<Point>) {
        if !self.open {
            if self.empty {
                self.mv(to);
                return;
            }
            self.out.push(Call::Begin(self.start));
            self.open = true;
        }
        self.out.push(edge);
        self.cur = to;
        self.q = q;
        self.c = c;
    }
    fn arc(&mut self, o: &Oracle) {
        self.q = None;
        self.c = None;
        if o.skip {
            return;
        }
        if !self.open {
            self.mv(o.start);
        } else if o.near {
            self.out.push(Call::Line(o.start));
        }
        for (c, t) in &o.quads {
            self.out.push(Call::Quad(*c, *t));
            self.cur = *t;
        }
    }
    fn step(&mut self, c: &Cmd, o: &Option<Oracle>) {
        let cur = self.cur;
        let qc = match self.q {
            Some(c) => cur + (cur - c),
            None => cur,
        };
        let cc = match self.c {
            Some(c) => cur + (cur - c),
            None => cur,
        };
        match c {
            Cmd::Move(p) => self.mv(*p),
            Cmd::RelMove(v) => self.mv(cur + *v),
            Cmd::Line(p) => self.draw(*p, Call::Line(*p), None, None),
            Cmd::RelLine(v) => self.draw(cur + *v, Call::Line(cur + *v), None, None),
            Cmd::H(x) => self.draw(point(*x, cur.y), Call::Line(point(*x, cur.y)), None, None),
            Cmd::RelH(x) => self.draw(point(cur.x + *x, cur.y), Call::Line(point(cur.x + *x, cur.y)), None, None),
            Cmd::V(y) => self.draw(point(cur.x, *y), Call::Line(point(cur.x, *y)), None, None),
            Cmd::RelV(y) => self.draw(point(cur.x, cur.y + *y), Call::Line(point(cur.x, cur.y + *y)), None, None),
            Cmd::Quad(c, p) => self.draw(*p, Call::Quad(*c, *p), Some(*c), None),
            Cmd::RelQuad(c, p) => self.draw(cur + *p, Call::Quad(cur + *c, cur + *p), Some(cur + *c), None),
            Cmd::SmoothQuad(p) => self.draw(*p, Call::Quad(qc, *p), Some(qc), None),
            Cmd::RelSmoothQuad(v) => self.draw(cur + *v, Call::Quad(qc, cur + *v), Some(qc), None),
            Cmd::Cubic(a, b, p) => self.draw(*p, Call::Cubic(*a, *b, *p), None, Some(*b)),
            Cmd::RelCubic(a, b, p) => self.draw(cur + *p, Call::Cubic(cur + *a, cur + *b, cur + *p), None, Some(cur + *b)),
            Cmd::SmoothCubic(b, p) => self.draw(*p, Call::Cubic(cc, *b, *p), None, Some(*b)),
            Cmd::RelSmoothCubic(b, p) => self.draw(cur + *p, Call::Cubic(cc, cur + *b, cur + *p), None, Some(cur + *b)),
            Cmd::Close => {
                if self.open {
                    self.out.push(Call::End(true));
                    self.cur = self.start;
                    self.open = false;
                    self.q = None;
                    self.c = None;
                }
            }
            Cmd::ArcTo(_, _, _, _, to) => {
                let o = o.as_ref().unwrap();
                if o.straight {
                    self.draw(*to, Call::Line(*to), None, None)
                } else {
                    self.arc(o)
                }
            }
            Cmd::RelArcTo(_, _, _, _, v) => {
                let o = o.as_ref().unwrap();
                if o.straight {
                    self.draw(cur + *v, Call::Line(cur + *v), None, None)
                } else {
                    self.arc(o)
                }
            }
            Cmd::Arc(..) => self.arc(o.as_ref().unwrap()),
        }
    }
}

fn nested(calls: &[Call]) -> bool {
    let mut open = false;
    for c in calls {
        match c {
            Call::Begin(_) => {
                if open {
                    return false;
                }
                open = true
            }
            Call::End(_) => {
                if !open {
                    return false;
                }
                open = false
            }
            _ => {
                if !open {
                    return false;
                }
            }
        }
    }
    !open
}

fn alphabet() -> Vec<Cmd> {
    let p = |x: i32, y: i32| point(x as f32, y as f32);
    let v = |x: i32, y: i32| vector(x as f32, y as f32);
    vec![
        Cmd::Move(p(1, 1)),
        Cmd::RelMove(v(2, 0)),
        Cmd::Line(p(4, 1)),
        Cmd::RelLine(v(0, 3)),
        Cmd::H(7.0),
        Cmd::RelH(-2.0),
        Cmd::V(5.0),
        Cmd::RelV(1.0),
        Cmd::Quad(p(6, 0), p(8, 2)),
        Cmd::RelQuad(v(1, 2), v(3, 1)),
        Cmd::SmoothQuad(p(9, 6)),
        Cmd::RelSmoothQuad(v(2, 2)),
        Cmd::Cubic(p(0, 4), p(2, 6), p(5, 5)),
        Cmd::RelCubic(v(1, 0), v(2, 1), v(3, 3)),
        Cmd::SmoothCubic(p(7, 7), p(9, 9)),
        Cmd::RelSmoothCubic(v(1, 1), v(2, 0)),
        Cmd::Close,
        Cmd::ArcTo(v(5, 3), 0.0, false, true, p(12, 3)),
        Cmd::RelArcTo(v(4, 4), 0.5, true, false, v(3, -2)),
        Cmd::Arc(p(3, 3), v(2, 3), 2.0, 0.0),
    ]
}

fn random_cmd(r: &mut Rng) -> Cmd {
    let p = |r: &mut Rng| point(r.range(-20, 20) as f32, r.range(-20, 20) as f32);
    let v = |r: &mut Rng| vector(r.range(-6, 6) as f32, r.range(-6, 6) as f32);
    match r.below(22) {
        0 => Cmd::Move(p(r)),
        1 => Cmd::RelMove(v(r)),
        2 => Cmd::Line(p(r)),
        3 => Cmd::RelLine(v(r)),
        4 => Cmd::H(r.range(-20, 20) as f32),
        5 => Cmd::RelH(r.range(-6, 6) as f32),
        6 => Cmd::V(r.range(-20, 20) as f32),
        7 => Cmd::RelV(r.range(-6, 6) as f32),
        8 => Cmd::Quad(p(r), p(r)),
        9 => Cmd::RelQuad(v(r), v(r)),
        10 => Cmd::SmoothQuad(p(r)),
        11 => Cmd::RelSmoothQuad(v(r)),
        12 => Cmd::Cubic(p(r), p(r), p(r)),
        13 => Cmd::RelCubic(v(r), v(r), v(r)),
        14 => Cmd::SmoothCubic(p(r), p(r)),
        15 => Cmd::RelSmoothCubic(v(r), v(r)),
        16 | 17 => Cmd::Close,
        18 => Cmd::ArcTo(
            vector(r.range(0, 8) as f32, r.range(0, 8) as f32),
            r.range(0, 6) as f32 * 0.5,
            r.chance(1, 2),
            r.chance(1, 2),
            p(r),
        ),
        19 => Cmd::RelArcTo(
            vector(r.range(1, 8) as f32, r.range(1, 8) as f32),
            r.range(0, 6) as f32 * 0.5,
            r.chance(1, 2),
            r.chance(1, 2),
            v(r),
        ),
        _ => Cmd::Arc(p(r), vector(r.range(1, 6) as f32, r.range(1, 6) as f32), r.range(-8, 8) as f32 * 0.5, r.range(0, 4) as f32 * 0.5),
    }
}

fn run_seq(id: usize, cmds: &[Cmd], w: &mut ShardWriter, st: &mut Stats, idx: &mut std::fs::File, origin: &str) {
    use std::io::Write;
    let text = format!("{:?}", cmds);
    st.inc("evaluations");
    st.inc(&format!("origin_{}", origin));
    st.inc(&format!("len_{}", cmds.len().min(9)));
    let has_arc = cmds.iter().any(|c| matches!(c, Cmd::ArcTo(..) | Cmd::RelArcTo(..) | Cmd::Arc(..)));
    if has_arc {
        st.inc("with_arc");
    }
    st.note_case(&text, cmds.len() >= 2);
    let r = catch(|| {
        let mut svg = WithSvg::new(Rec::default());
        let mut lits = Vec::new();
        let mut oracles = Vec::new();
        for c in cmds {
            let (l, o) = issue(&mut svg, c);
            lits.push(l);
            oracles.push(o);
        }
        (lits, oracles, svg.build())
    });
    let (lits, oracles, calls) = match r {
        Some(x) => x,
        None => {
            st.fail(jobj(&[("what", jstr("WithSvg panicked")), ("input", jstr(&text))]));
            return;
        }
    };
    // finishing through the Build trait (generic code) must give the same calls as the inherent build()
    let via_trait = catch(|| {
        let mut svg = WithSvg::new(Rec::default());
        for c in cmds {
            issue(&mut svg, c);
        }
        Build::build(svg)
    });
    if via_trait.as_ref() != Some(&calls) {
        st.fail(jobj(&[("what", jstr("finishing a WithSvg builder through the Build trait differs from WithSvg::build")), ("input", jstr(&format!("{} -> {:?} vs {:?}", text, via_trait, calls)))]));
    }
    // the same sequence on the real Path builder (lyon's debug validator is active in debug builds)
    let real = catch(|| {
        let mut svg = lyon_path::Path::svg_builder();
        drive_svg(&mut svg, cmds);
        let a = path_calls(&svg.build());
        // the same builder reached through Path::builder().with_svg(), and with a reserve() in between
        let mut svg = lyon_path::Path::builder().with_svg();
        svg.reserve(3, 2);
        drive_svg(&mut svg, cmds);
        let b = path_calls(&svg.build());
        (a, b)
    });
    if let Some((a, b)) = &real {
        if *a != calls {
            st.fail(jobj(&[("what", jstr("Path::svg_builder stores a different path than the calls seen by a recording builder")), ("input", jstr(&format!("{} -> {:?} vs {:?}", text, a, calls)))]));
        }
        if *b != calls {
            st.fail(jobj(&[("what", jstr("Path::builder().with_svg() stores a different path than the calls seen by a recording builder")), ("input", jstr(&format!("{} -> {:?} vs {:?}", text, b, calls)))]));
        }
    }
    if real.is_none() {
        st.fail(jobj(&[("what", jstr("Path::svg_builder panicked (path validator or NaN check)")), ("input", jstr(&text))]));
    }
    if !nested(&calls) {
        st.fail(jobj(&[("what", jstr("wrapped builder saw calls that are not properly nested")), ("input", jstr(&format!("{} -> {:?}", text, calls)))]));
    }
    let mut sem = Sem { cur: point(0.0, 0.0), start: point(0.0, 0.0), open: false, empty: true, q: None, c: None, out: vec![] };
    for (c, o) in cmds.iter().zip(oracles.iter()) {
        let before = sem.cur;
        sem.step(c, o);
        // SVG rule for A / a: the arc ends at the requested point (whatever the radii, rotation and flags)
        let target = match c {
            Cmd::ArcTo(_, _, _, _, to) => Some(*to),
            Cmd::RelArcTo(_, _, _, _, v) => Some(before + *v),
            _ => None,
        };
        if let (Some(t), Cmd::ArcTo(r, ..) | Cmd::RelArcTo(r, ..)) = (target, c) {
            let scale = 1.0 + r.x.abs() + r.y.abs() + (t - before).length();
            if (sem.cur - t).length() > 4e-3 * scale {
                st.fail(jobj(&[("what", jstr("after an arc command the current point is not the arc's end point")), ("input", jstr(&format!("{} -> arc from {:?} ends at {:?} instead of {:?}", text, before, sem.cur, t)))]));
                break;
            }
        }
    }
    if sem.open {
        sem.out.push(Call::End(false));
    }
    if sem.out != calls {
        st.fail(jobj(&[("what", jstr("resulting path differs from the SVG path rules")), ("input", jstr(&format!("{} -> {:?} expected {:?}", text, calls, sem.out)))]));
    }
    st.sample(format!("{} -> {:?}", text, calls));
    writeln!(idx, "{}\t{}", id, text).ok();
    w.push(format!("(mkS {} {} {})", id, glist(lits), glist(calls.iter().map(gcall))));
}

pub fn main(args: &Args) -> std::io::Result<()> {
    let mut st = Stats::default();
    let mut w = ShardWriter::new(&args.out, "c15_cases", args.shards, HEADER, "bad_cases");
    w.disabled = args.direct_only();
    let mut idx = std::fs::File::create(args.out.join("c15_index.txt"))?;
    let alpha = alphabet();
    let max_len = if args.thorough() { 4 } else { 3 };
    let mut id = 0usize;
    for len in 0..=max_len {
        let count = alpha.len().pow(len as u32);
        for code in 0..count {
            let mut c = code;
            let mut cmds = Vec::new();
            for _ in 0..len {
                cmds.push(alpha[c % alpha.len()].clone());
                c /= alpha.len();
            }
            run_seq(id, &cmds, &mut w, &mut st, &mut idx, "exhaustive");
            id += 1;
        }
    }
    // corpus: minimised past failures run on every tier
    {
        let p = |x: i32, y: i32| point(x as f32, y as f32);
        let corpus: Vec<Vec<Cmd>> = vec![
            vec![Cmd::Move(p(0, 0)), Cmd::Quad(p(2, 2), p(4, 0)), Cmd::ArcTo(vector(5.0, 3.0), 0.0, false, true, p(12, 3)), Cmd::SmoothQuad(p(14, 0))],
            vec![Cmd::Move(p(0, 0)), Cmd::Cubic(p(1, 2), p(3, 2), p(4, 0)), Cmd::Arc(p(6, 0), vector(2.0, 2.0), 2.0, 0.0), Cmd::SmoothCubic(p(9, 9), p(12, 0))],
            vec![Cmd::Move(p(0, 0)), Cmd::Quad(p(2, 2), p(4, 0)), Cmd::RelArcTo(vector(4.0, 4.0), 0.5, true, false, vector(3.0, -2.0)), Cmd::RelSmoothQuad(vector(2.0, 2.0))],
        ];
        for cmds in &corpus {
            run_seq(id, cmds, &mut w, &mut st, &mut idx, "corpus");
            id += 1;
        }
    }
    st.add("exhaustive_max_len", max_len as u64);
    st.add("alphabet", alpha.len() as u64);
    let mut rng = Rng::new(args.seed ^ 0x15);
    for _ in 0..(if args.thorough() { 30000 } else { 2500 }) {
        let long = rng.chance(1, 8);
        let n = 1 + rng.below(if long { 40 } else { 10 }) as usize;
        let cmds: Vec<Cmd> = (0..n).map(|_| random_cmd(&mut rng)).collect();
        run_seq(id, &cmds, &mut w, &mut st, &mut idx, "random");
        id += 1;
    }
    w.finish()?;
    st.write(&args.out.join("c15_stats.json"))
}
