//! C09: flattening.  Every flattening interface (callback, callback with parameters, iterators,
//! path-iterator adapter, builder adapter) x f32 / f64 x tolerances: chain facts are checked
//! exactly, the deviation is measured by dense sampling in both directions; the parameter ranges
//! of the callbacks are printed with the recorded oracles for the Coq control-structure model.
use crate::util::*;
use lyon_geom::{point, Arc, CubicBezierSegment, LineSegment, Point, QuadraticBezierSegment, Scalar};
use lyon_path::iterator::PathIterator;
use lyon_path::traits::PathBuilder;
use lyon_path::Path;
use std::panic::AssertUnwindSafe;

pub const HEADER: &str =
    "From Coq Require Import QArith.\nFrom LV Require Import Base.Prelude Model.Flatten Run.C09.\nOpen Scope Q_scope.";

trait Fl: Scalar + std::fmt::Debug {
    fn bits() -> i64;
    fn gq(self) -> String;
    fn f(self) -> f64;
    fn of(v: f64) -> Self;
}
impl Fl for f32 {
    fn bits() -> i64 {
        24
    }
    fn gq(self) -> String {
        if self.is_finite() { gq32(self) } else { "(123456789 # 1)".into() }
    }
    fn f(self) -> f64 {
        self as f64
    }
    fn of(v: f64) -> f32 {
        v as f32
    }
}
impl Fl for f64 {
    fn bits() -> i64 {
        53
    }
    fn gq(self) -> String {
        if self.is_finite() { gq64(self) } else { "(123456789 # 1)".into() }
    }
    fn f(self) -> f64 {
        self
    }
    fn of(v: f64) -> f64 {
        v
    }
}

fn dist_pt_seg(p: (f64, f64), a: (f64, f64), b: (f64, f64)) -> f64 {
    let (vx, vy) = (b.0 - a.0, b.1 - a.1);
    let l2 = vx * vx + vy * vy;
    let t = if l2 > 0.0 { (((p.0 - a.0) * vx + (p.1 - a.1) * vy) / l2).max(0.0).min(1.0) } else { 0.0 };
    (((a.0 + vx * t) - p.0).powi(2) + ((a.1 + vy * t) - p.1).powi(2)).sqrt()
}

fn dist_pt_poly(p: (f64, f64), poly: &[(f64, f64)]) -> f64 {
    let mut d = f64::MAX;
    if poly.len() == 1 {
        return ((poly[0].0 - p.0).powi(2) + (poly[0].1 - p.1).powi(2)).sqrt();
    }
    for w in poly.windows(2) {
        d = d.min(dist_pt_seg(p, w[0], w[1]));
    }
    d
}

/// max over dense samples of the curve of the distance to the polyline, and max over polyline
/// vertices of the distance to the (densely sampled) curve
fn deviation(curve: &dyn Fn(f64) -> (f64, f64), poly: &[(f64, f64)]) -> (f64, f64) {
    let n = 512;
    let samples: Vec<(f64, f64)> = (0..=n).map(|i| curve(i as f64 / n as f64)).collect();
    let mut d1 = 0.0f64;
    for s in &samples {
        d1 = d1.max(dist_pt_poly(*s, poly));
    }
    let mut d2 = 0.0f64;
    for v in poly {
        d2 = d2.max(dist_pt_poly(*v, &samples));
    }
    (d1, d2)
}

pub const HEADER_DEV: &str =
    "From Coq Require Import QArith.\nFrom LV Require Import Base.Prelude Model.Bezier Checker.Region Checker.CurveDev Run.C09.\nOpen Scope Q_scope.";

struct Cx<'a> {
    w: &'a mut ShardWriter,
    wd: &'a mut ShardWriter,
    dev_budget: usize,
    st: &'a mut Stats,
    idx: &'a mut std::fs::File,
    id: usize,
}

fn fail(cx: &mut Cx, what: &str, input: String, class: Option<&str>) {
    let mut fields = vec![("what", jstr(what)), ("input", jstr(&input))];
    if let Some(c) = class {
        fields.push(("class", jstr(c)));
    }
    cx.st.fail(jobj(&fields));
}

/// chain facts shared by all interfaces: pieces = (from, to, t0, t1)
fn check_chain<S: Fl>(cx: &mut Cx, label: &str, from: Point<S>, to: Point<S>, pieces: &[(Point<S>, Point<S>, S, S)]) {
    if pieces.is_empty() {
        fail(cx, "flattening produced no segment", label.to_string(), None);
        return;
    }
    if pieces[0].0 != from {
        fail(cx, "first segment does not start at the curve's start", label.to_string(), None);
    }
    if pieces.last().unwrap().1 != to {
        fail(cx, "last segment does not end exactly at the curve's end", format!("{} last {:?}", label, pieces.last().unwrap().1), None);
    }
    if pieces[0].2 != S::ZERO || pieces.last().unwrap().3 != S::ONE {
        fail(cx, "parameter ranges do not run from 0 to exactly 1", label.to_string(), None);
    }
    for w in pieces.windows(2) {
        if w[0].1 != w[1].0 {
            fail(cx, "segments are not connected", label.to_string(), None);
            break;
        }
        if w[0].3 != w[1].2 {
            fail(cx, "parameter ranges are not contiguous", label.to_string(), None);
            break;
        }
    }
    for p in pieces {
        if !(p.2 < p.3) && pieces.len() > 1 {
            fail(cx, "curve parameters are not strictly increasing", format!("{} range {:?}..{:?}", label, p.2, p.3), None);
            break;
        }
    }
}

/// K2: a degenerate (sub-)quadratic on which lyon's step count is known to be too small:
/// start == end with the control point elsewhere, control point projecting outside the extent of
/// the baseline (overshoot), or a sharp hairpin (the two legs at the control point make an angle
/// below 25 degrees).
fn k2_quad<S: Fl>(q: &QuadraticBezierSegment<S>, _tol: S) -> bool {
    if q.from == q.to {
        return q.ctrl != q.from;
    }
    let (bx, by) = ((q.to.x - q.from.x).f(), (q.to.y - q.from.y).f());
    let (cx, cy) = ((q.ctrl.x - q.from.x).f(), (q.ctrl.y - q.from.y).f());
    let t = (cx * bx + cy * by) / (bx * bx + by * by);
    if t < 0.0 || t > 1.0 {
        return true;
    }
    let (ux, uy) = (-cx, -cy);
    let (vx, vy) = ((q.to.x - q.ctrl.x).f(), (q.to.y - q.ctrl.y).f());
    let (lu, lv) = ((ux * ux + uy * uy).sqrt(), (vx * vx + vy * vy).sqrt());
    lu > 0.0 && lv > 0.0 && (ux * vx + uy * vy) / (lu * lv) > 0.906
}

fn tolerance_check<S: Fl>(cx: &mut Cx, label: &str, tol: f64, dev: (f64, f64), k2: bool, k6: f64) {
    tolerance_check_c::<S>(cx, label, tol, dev, if k2 { Some("K2") } else { None }, k6)
}

fn tolerance_check_c<S: Fl>(cx: &mut Cx, label: &str, tol: f64, dev: (f64, f64), known: Option<&str>, k6: f64) {
    let d = dev.0.max(dev.1);
    cx.st.inc(if d <= tol { "dev_within_tol" } else if d <= 1.5 * tol { "dev_within_1_5_tol" } else { "dev_beyond_1_5_tol" });
    if d > tol * 1.0001 + 1e-9 {
        let class = if known.is_some() {
            known
        } else if d <= k6 * tol + 1e-9 {
            Some("K6")
        } else {
            None
        };
        fail(cx, "flattened polyline deviates from the curve by more than the tolerance", format!("{} deviation curve->poly {:.6} poly->curve {:.6} tolerance {}", label, dev.0, dev.1, tol), class);
    }
}

/// squared tolerance handed to the verified curve-deviation checker: the bound the sampled check
/// uses (tol * 1.0001 + 1e-9) with a further 1e-4 relative margin, as an exact rational
fn dev_tol2(tol: f64) -> String {
    let t = tol * 1.0002 + 2e-9;
    gq64(t * t)
}

/// the budget of the known finding K6 as a factor of the tolerance: 1.5, or 2 when the tolerance exceeds a tenth of
/// the extent of the control polygon (Levien's step count degrades when the tolerance is large against the curve)
fn k6_factor(tol: f64, pts: &[(f64, f64)]) -> f64 {
    let (mut lx, mut hx, mut ly, mut hy) = (f64::MAX, f64::MIN, f64::MAX, f64::MIN);
    for p in pts {
        lx = lx.min(p.0);
        hx = hx.max(p.0);
        ly = ly.min(p.1);
        hy = hy.max(p.1);
    }
    if tol > 0.1 * (hx - lx).max(hy - ly) { 2.0 } else { 1.5 }
}

fn dev_loose2(tol: f64, factor: f64) -> String {
    let t = tol * factor + 2e-9;
    gq64(t * t)
}

fn gpt<S: Fl>(p: Point<S>) -> String {
    format!("({}, {})", p.x.gq(), p.y.gq())
}

/// a flattening goes to the verified checker when the sampled check accepted it, everything is
/// finite and it is small enough to evaluate in seconds
fn dev_eligible<S: Fl>(cx: &Cx, tol: f64, dev: (f64, f64), pieces: &[(Point<S>, Point<S>, S, S)]) -> bool {
    cx.dev_budget > 0
        && !pieces.is_empty()
        && pieces.len() <= 40
        && dev.0.max(dev.1) <= tol * 1.0001 + 1e-9
        && pieces.iter().all(|p| p.0.x.f().is_finite() && p.0.y.f().is_finite() && p.1.x.f().is_finite() && p.1.y.f().is_finite() && p.2.f().is_finite() && p.3.f().is_finite())
        && pieces.windows(2).all(|w| w[0].3 <= w[1].3)
        && pieces.last().unwrap().3 == S::ONE
}

fn quad_case<S: Fl>(cx: &mut Cx, q: QuadraticBezierSegment<S>, tol: S) {
    use std::io::Write;
    let label = format!("{:?} tol {:?} ({} bits)", q, tol, S::bits());
    cx.st.inc("evaluations");
    cx.st.inc(&format!("quadratic_f{}", if S::bits() == 24 { 32 } else { 64 }));
    cx.st.note_case(&label, q.from != q.to || q.ctrl != q.from);
    let r = catch(AssertUnwindSafe(|| {
        let mut pieces = Vec::new();
        q.for_each_flattened_with_t(tol, &mut |l: &LineSegment<S>, t: std::ops::Range<S>| pieces.push((l.from, l.to, t.start, t.end)));
        let mut plain = Vec::new();
        q.for_each_flattened(tol, &mut |l: &LineSegment<S>| plain.push((l.from, l.to)));
        let pts: Vec<Point<S>> = q.flattened(tol).collect();
        let ts: Vec<S> = q.flattened_t(tol).collect();
        (pieces, plain, pts, ts)
    }));
    let (pieces, plain, pts, ts) = match r {
        Some(x) => x,
        None => {
            fail(cx, "quadratic flattening panicked", label, None);
            return;
        }
    };
    check_chain(cx, &label, q.from, q.to, &pieces);
    if plain.len() != pieces.len() || plain.iter().zip(pieces.iter()).any(|(a, b)| a.0 != b.0 || a.1 != b.1) {
        fail(cx, "for_each_flattened differs from for_each_flattened_with_t", label.clone(), None);
    }
    if pts.len() != pieces.len() || pts.iter().zip(pieces.iter()).any(|(a, b)| *a != b.1) {
        fail(cx, "flattened() iterator differs from the callback", label.clone(), None);
    }
    if ts.len() != pieces.len() || ts.iter().zip(pieces.iter()).any(|(a, b)| *a != b.3) {
        fail(cx, "flattened_t() iterator differs from the callback parameters", label.clone(), None);
    }
    for p in &pieces {
        if p.3 != S::ONE && q.sample(p.3) != p.1 {
            fail(cx, "segment end is not the curve sampled at its parameter", label.clone(), None);
            break;
        }
    }
    let poly: Vec<(f64, f64)> = std::iter::once((q.from.x.f(), q.from.y.f())).chain(pieces.iter().map(|p| (p.1.x.f(), p.1.y.f()))).collect();
    let q64 = QuadraticBezierSegment { from: point(q.from.x.f(), q.from.y.f()), ctrl: point(q.ctrl.x.f(), q.ctrl.y.f()), to: point(q.to.x.f(), q.to.y.f()) };
    let dev = deviation(&|t| { let p = q64.sample(t); (p.x, p.y) }, &poly);
    let k6 = k6_factor(tol.f(), &[(q.from.x.f(), q.from.y.f()), (q.ctrl.x.f(), q.ctrl.y.f()), (q.to.x.f(), q.to.y.f())]);
    tolerance_check::<S>(cx, &label, tol.f(), dev, k2_quad(&q, tol), k6);
    cx.st.sample(format!("{} -> {} segments", label, pieces.len()));
    writeln!(cx.idx, "{}\t{}", cx.id, label).ok();
    if dev_eligible(cx, tol.f(), dev, &pieces) {
        cx.dev_budget -= 1;
        cx.st.inc("verified_deviation_cases");
        cx.st.inc("verified_deviation_quadratic");
        cx.wd.push(format!(
            "(QD {} {} {} {} (mkQuad {} {} {}) {} {})",
            cx.id,
            dev_tol2(tol.f()),
            dev_loose2(tol.f(), k6),
            dev_tol2(tol.f()),
            gpt(q.from),
            gpt(q.ctrl),
            gpt(q.to),
            glist(pieces.iter().map(|p| p.3.gq())),
            glist(std::iter::once(gpt(q.from)).chain(pieces.iter().map(|p| gpt(p.1))))
        ));
    }
    cx.w.push(format!(
        "(QC {} {} {})",
        cx.id,
        glist(ts.iter().map(|t| t.gq())),
        glist(pieces.iter().map(|p| format!("({}, {})", p.2.gq(), p.3.gq())))
    ));
    cx.id += 1;
}

fn cubic_case<S: Fl>(cx: &mut Cx, c: CubicBezierSegment<S>, tol: S) {
    use std::io::Write;
    let label = format!("{:?} tol {:?} ({} bits)", c, tol, S::bits());
    cx.st.inc("evaluations");
    cx.st.inc(&format!("cubic_f{}", if S::bits() == 24 { 32 } else { 64 }));
    cx.st.note_case(&label, true);
    let r = catch(AssertUnwindSafe(|| {
        let mut pieces = Vec::new();
        c.for_each_flattened_with_t(tol, &mut |l: &LineSegment<S>, t: std::ops::Range<S>| pieces.push((l.from, l.to, t.start, t.end)));
        let mut plain = Vec::new();
        c.for_each_flattened(tol, &mut |l: &LineSegment<S>| plain.push((l.from, l.to)));
        let pts: Vec<Point<S>> = c.flattened(tol).collect();
        // oracle: the sub-quadratics and their own parameter lists (tolerance split as in the code)
        let mut quads = Vec::new();
        c.for_each_quadratic_bezier_with_t(tol * S::value(0.4), &mut |q: &QuadraticBezierSegment<S>, r: std::ops::Range<S>| {
            let ts: Vec<S> = q.flattened_t(tol * S::value(0.8)).collect();
            quads.push((r.start, r.end, ts, *q));
        });
        (pieces, plain, pts, quads)
    }));
    let (pieces, plain, pts, quads) = match r {
        Some(x) => x,
        None => {
            fail(cx, "cubic flattening panicked", label, None);
            return;
        }
    };
    check_chain(cx, &label, c.from, c.to, &pieces);
    if plain.len() != pieces.len() || plain.iter().zip(pieces.iter()).any(|(a, b)| a.0 != b.0 || a.1 != b.1) {
        fail(cx, "for_each_flattened differs from for_each_flattened_with_t", label.clone(), None);
    }
    // the iterator: same number of points, ends exactly at `to`, each point close to the callback's
    if pts.last() != Some(&c.to) {
        fail(cx, "flattened() iterator does not end exactly at the curve's end", format!("{} last {:?}", label, pts.last()), None);
    }
    // the iterator samples the cubic itself at the mapped parameters (the callback samples the
    // approximating quadratics): a different, equally valid polyline - it gets its own checks below
    if pts.len() != pieces.len() {
        fail(cx, "flattened() iterator yields a different number of points than the callback", format!("{} {} vs {}", label, pts.len(), pieces.len()), None);
    }
    let poly: Vec<(f64, f64)> = std::iter::once((c.from.x.f(), c.from.y.f())).chain(pieces.iter().map(|p| (p.1.x.f(), p.1.y.f()))).collect();
    let c64 = CubicBezierSegment {
        from: point(c.from.x.f(), c.from.y.f()),
        ctrl1: point(c.ctrl1.x.f(), c.ctrl1.y.f()),
        ctrl2: point(c.ctrl2.x.f(), c.ctrl2.y.f()),
        to: point(c.to.x.f(), c.to.y.f()),
    };
    let dev = deviation(&|t| { let p = c64.sample(t); (p.x, p.y) }, &poly);
    let k2 = quads.iter().any(|(_, _, _, q)| k2_quad(q, tol * S::value(0.8)));
    let k6 = k6_factor(tol.f(), &[(c.from.x.f(), c.from.y.f()), (c.ctrl1.x.f(), c.ctrl1.y.f()), (c.ctrl2.x.f(), c.ctrl2.y.f()), (c.to.x.f(), c.to.y.f())]);
    tolerance_check::<S>(cx, &label, tol.f(), dev, k2, k6);
    let poly_it: Vec<(f64, f64)> = std::iter::once((c.from.x.f(), c.from.y.f())).chain(pts.iter().map(|p| (p.x.f(), p.y.f()))).collect();
    let dev_it = deviation(&|t| { let p = c64.sample(t); (p.x, p.y) }, &poly_it);
    tolerance_check::<S>(cx, &format!("{} [flattened() iterator]", label), tol.f(), dev_it, k2, k6);
    writeln!(cx.idx, "{}\t{}", cx.id, label).ok();
    if dev_eligible(cx, tol.f(), dev, &pieces) {
        cx.dev_budget -= 1;
        cx.st.inc("verified_deviation_cases");
        cx.st.inc("verified_deviation_cubic");
        cx.wd.push(format!(
            "(CD {} {} {} {} (mkCubic {} {} {} {}) {} {})",
            cx.id,
            dev_tol2(tol.f()),
            dev_loose2(tol.f(), k6),
            dev_tol2(tol.f()),
            gpt(c.from),
            gpt(c.ctrl1),
            gpt(c.ctrl2),
            gpt(c.to),
            glist(pieces.iter().map(|p| p.3.gq())),
            glist(std::iter::once(gpt(c.from)).chain(pieces.iter().map(|p| gpt(p.1))))
        ));
    }
    cx.w.push(format!(
        "(CC {} {}%Z {} {})",
        cx.id,
        S::bits(),
        glist(quads.iter().map(|(r0, r1, ts, _)| format!("(mkQS {} {} {})", r0.gq(), r1.gq(), glist(ts.iter().map(|t| t.gq()))))),
        glist(pieces.iter().map(|p| format!("({}, {})", p.2.gq(), p.3.gq())))
    ));
    cx.id += 1;
}

fn arc_case(cx: &mut Cx, a: Arc<f64>, tol: f64) {
    let label = format!("{:?} tol {}", a, tol);
    cx.st.inc("evaluations");
    cx.st.inc("arc_f64");
    cx.st.note_case(&label, true);
    let r = catch(AssertUnwindSafe(|| {
        let mut pieces = Vec::new();
        a.for_each_flattened(tol, &mut |l: &LineSegment<f64>| pieces.push((l.from, l.to)));
        let pts: Vec<Point<f64>> = a.flattened(tol).collect();
        (pieces, pts)
    }));
    let (pieces, pts) = match r {
        Some(x) => x,
        None => {
            fail(cx, "arc flattening panicked", label, None);
            return;
        }
    };
    if pieces.is_empty() {
        fail(cx, "arc flattening produced no segment", label, None);
        return;
    }
    let (from, to) = (a.from(), a.to());
    if (pieces[0].0 - from).length() > 1e-9 * (1.0 + a.radii.length()) || (pieces.last().unwrap().1 - to).length() > 1e-9 * (1.0 + a.radii.length()) {
        fail(cx, "arc flattening does not run from the arc's start to its end", label.clone(), None);
    }
    for w in pieces.windows(2) {
        if w[0].1 != w[1].0 {
            fail(cx, "arc segments are not connected", label.clone(), None);
            break;
        }
    }
    if pts.len() != pieces.len() || pts.iter().zip(pieces.iter()).any(|(p, s)| (*p - s.1).length() > 1e-6 * (1.0 + a.radii.length())) {
        fail(cx, "arc flattened() iterator differs from the callback", format!("{} {} vs {}", label, pts.len(), pieces.len()), None);
    }
    // the callback with parameters: same segments, ranges chained from 0 to exactly 1, strictly increasing, and the
    // arc sampled at the end of a range is the end of the segment
    match catch(AssertUnwindSafe(|| {
        let mut v = Vec::new();
        a.for_each_flattened_with_t(tol, &mut |l: &LineSegment<f64>, t: std::ops::Range<f64>| v.push((l.from, l.to, t.start, t.end)));
        v
    })) {
        None => fail(cx, "arc for_each_flattened_with_t panicked", label.clone(), None),
        Some(v) => {
            let sc = 1.0 + a.radii.length();
            if v.len() != pieces.len() || v.iter().zip(pieces.iter()).any(|(x, s)| (x.0 - s.0).length() > 1e-6 * sc || (x.1 - s.1).length() > 1e-6 * sc) {
                fail(cx, "arc for_each_flattened differs from for_each_flattened_with_t", label.clone(), None);
            }
            let mut ok = !v.is_empty() && v[0].2 == 0.0 && v.last().unwrap().3 == 1.0;
            for x in &v {
                if !(x.2 < x.3) {
                    ok = false;
                }
            }
            for w2 in v.windows(2) {
                if w2[0].3 != w2[1].2 {
                    ok = false;
                }
            }
            if !ok {
                fail(cx, "arc parameter ranges are not chained from 0 to exactly 1 in increasing order", format!("{} -> {:?}", label, v.iter().map(|x| (x.2, x.3)).collect::<Vec<_>>()), None);
            } else if v.iter().any(|x| (a.sample(x.3) - x.1).length() > 1e-6 * sc) {
                fail(cx, "an arc segment does not end at the arc sampled at the end of its parameter range", label.clone(), None);
            }
        }
    }
    let poly: Vec<(f64, f64)> = std::iter::once((pieces[0].0.x, pieces[0].0.y)).chain(pieces.iter().map(|p| (p.1.x, p.1.y))).collect();
    let dev = deviation(&|t| { let p = a.sample(t); (p.x, p.y) }, &poly);
    // K10: the arc step assumes a locally constant radius and a tolerance small against the radii
    let (rmin, rmax) = (a.radii.x.abs().min(a.radii.y.abs()), a.radii.x.abs().max(a.radii.y.abs()));
    let k10 = rmin < 5.0 * tol || rmax > 2.5 * rmin;
    tolerance_check_c::<f64>(cx, &label, tol, dev, if k10 { Some("K10") } else { None }, 1.5);
}

/// SvgArc::{for_each_flattened, for_each_flattened_with_t} (f32 and f64): the endpoint-form arc - radii of either
/// sign, too small for the chord, all flag combinations - against the arc computed independently of lyon from the SVG
/// implementation notes (c01::svg_arc_reference)
fn svg_arc_case<S: Fl>(cx: &mut Cx, rng: &mut Rng) {
    use lyon_geom::{ArcFlags, SvgArc};
    let from = (rng.range(-10, 10) as f64 + 0.5, rng.range(-10, 10) as f64 + 0.25);
    let mut to = (rng.range(-10, 10) as f64, rng.range(-10, 10) as f64);
    if (to.0 - from.0).hypot(to.1 - from.1) < 2.0 {
        to.0 += 5.0;
    }
    let chord = (to.0 - from.0).hypot(to.1 - from.1);
    let (mut rx, mut ry) = match rng.below(4) {
        0 => (chord * (0.6 + rng.unit_f64()), chord * (0.6 + rng.unit_f64())),
        1 => (chord * 0.3, chord * 0.2),
        2 => (chord * 0.75, chord * 0.75),
        _ => (2.0 + rng.below(20) as f64, 2.0 + rng.below(20) as f64),
    };
    if rng.chance(1, 4) {
        rx = -rx;
    }
    if rng.chance(1, 6) {
        ry = -ry;
    }
    let rot = if rng.chance(1, 3) { 0.0 } else { rng.range(-6, 6) as f64 * 0.25 };
    let (large, sweep) = (rng.chance(1, 2), rng.chance(1, 2));
    let tol = *rng.pick(&[0.5, 0.1, 0.01]);
    // a zero radius: the SVG rules make the arc the straight segment from -> to (one segment, parameters 0..1)
    if rng.chance(1, 12) {
        if rng.chance(1, 2) {
            rx = 0.0;
        } else {
            ry = 0.0;
        }
        let sa = SvgArc {
            from: point(S::of(from.0), S::of(from.1)),
            to: point(S::of(to.0), S::of(to.1)),
            radii: lyon_geom::vector(S::of(rx), S::of(ry)),
            x_rotation: lyon_geom::Angle::radians(S::of(rot)),
            flags: ArcFlags { large_arc: large, sweep },
        };
        let label = format!("{:?} tol {} ({} bits)", sa, tol, S::bits());
        cx.st.inc("evaluations");
        cx.st.inc("svg_arc_zero_radius");
        cx.st.note_case(&label, true);
        let r = catch(AssertUnwindSafe(|| {
            let mut a: Vec<(Point<S>, Point<S>)> = Vec::new();
            sa.for_each_flattened(S::of(tol), &mut |l: &LineSegment<S>| a.push((l.from, l.to)));
            let mut b: Vec<(Point<S>, Point<S>, S, S)> = Vec::new();
            sa.for_each_flattened_with_t(S::of(tol), &mut |l: &LineSegment<S>, t: std::ops::Range<S>| b.push((l.from, l.to, t.start, t.end)));
            (a, b)
        }));
        match r {
            None => fail(cx, "SvgArc flattening with a zero radius panicked", label, None),
            Some((a, b)) => {
                if a != vec![(sa.from, sa.to)] || b != vec![(sa.from, sa.to, S::ZERO, S::ONE)] {
                    fail(cx, "an SvgArc with a zero radius is not flattened to the single segment from -> to over 0..1", label, None);
                }
            }
        }
        return;
    }
    let sa = SvgArc {
        from: point(S::of(from.0), S::of(from.1)),
        to: point(S::of(to.0), S::of(to.1)),
        radii: lyon_geom::vector(S::of(rx), S::of(ry)),
        x_rotation: lyon_geom::Angle::radians(S::of(rot)),
        flags: ArcFlags { large_arc: large, sweep },
    };
    let label = format!("{:?} tol {} ({} bits)", sa, tol, S::bits());
    cx.st.inc("evaluations");
    cx.st.inc(&format!("svg_arc_f{}", if S::bits() == 24 { 32 } else { 64 }));
    cx.st.note_case(&label, true);
    let r = catch(AssertUnwindSafe(|| {
        let mut a: Vec<(Point<S>, Point<S>)> = Vec::new();
        sa.for_each_flattened(S::of(tol), &mut |l: &LineSegment<S>| a.push((l.from, l.to)));
        let mut b: Vec<(Point<S>, Point<S>, S, S)> = Vec::new();
        sa.for_each_flattened_with_t(S::of(tol), &mut |l: &LineSegment<S>, t: std::ops::Range<S>| b.push((l.from, l.to, t.start, t.end)));
        (a, b)
    }));
    let (a, b) = match r {
        Some(x) => x,
        None => {
            fail(cx, "SvgArc flattening panicked", label, None);
            return;
        }
    };
    if a.is_empty() {
        fail(cx, "SvgArc flattening produced no segment", label, None);
        return;
    }
    let sc = 1.0 + chord + rx.abs() + ry.abs();
    let e = if S::bits() == 24 { 1e-4 * sc } else { 1e-7 * sc };
    let d = |p: Point<S>, q: (f64, f64)| (p.x.f() - q.0).hypot(p.y.f() - q.1);
    if d(a[0].0, from) > e || d(a.last().unwrap().1, to) > e {
        fail(cx, "SvgArc flattening does not run from the arc's start to its end", label.clone(), None);
    }
    if a.windows(2).any(|w| w[0].1 != w[1].0) {
        fail(cx, "SvgArc segments are not connected", label.clone(), None);
    }
    if a.len() != b.len() || a.iter().zip(b.iter()).any(|(x, y)| d(x.0, (y.0.x.f(), y.0.y.f())) > e || d(x.1, (y.1.x.f(), y.1.y.f())) > e) {
        fail(cx, "SvgArc for_each_flattened differs from for_each_flattened_with_t", label.clone(), None);
    }
    let mut ok = !b.is_empty() && b[0].2 == S::ZERO && b.last().unwrap().3 == S::ONE;
    for x in &b {
        if !(x.2 < x.3) {
            ok = false;
        }
    }
    for w in b.windows(2) {
        if w[0].3 != w[1].2 {
            ok = false;
        }
    }
    if !ok && b.len() > 1 {
        fail(cx, "SvgArc parameter ranges are not chained from 0 to exactly 1 in increasing order", label.clone(), None);
    }
    // deviation against the independent reference
    let (refpts, rmax) = crate::c01::svg_arc_reference(from, to, rx, ry, rot, large, sweep, 720);
    let poly: Vec<(f64, f64)> = std::iter::once((a[0].0.x.f(), a[0].0.y.f())).chain(a.iter().map(|p| (p.1.x.f(), p.1.y.f()))).collect();
    let mut d1 = 0.0f64;
    for p in &refpts {
        d1 = d1.max(dist_pt_poly(*p, &poly));
    }
    let mut d2 = 0.0f64;
    for v in &poly {
        d2 = d2.max(dist_pt_poly(*v, &refpts));
    }
    let rmin = {
        // the radii after the SVG out-of-range correction keep their ratio
        let k = rmax / rx.abs().max(ry.abs());
        rx.abs().min(ry.abs()) * k
    };
    let k10 = rmin < 5.0 * tol || rmax > 2.5 * rmin;
    let slack = rmax * (1.0 - (std::f64::consts::PI / 720.0).cos()) + e;
    tolerance_check_c::<S>(cx, &label, tol + slack, (d1, d2), if k10 { Some("K10") } else { None }, 1.5);
}

fn gen_pt<S: Fl>(r: &mut Rng, lattice: bool) -> Point<S> {
    if lattice {
        point(S::of(r.range(-8, 8) as f64), S::of(r.range(-8, 8) as f64))
    } else {
        point(S::of((r.unit_f64() - 0.5) * 40.0), S::of((r.unit_f64() - 0.5) * 40.0))
    }
}

fn run_scalar<S: Fl>(cx: &mut Cx, rng: &mut Rng, n: usize) {
    let tols = [10.0, 1.0, 0.25, 0.1, 0.01, 0.001];
    for i in 0..n {
        let lattice = i % 2 == 0;
        let tol = S::of(*rng.pick(&tols));
        // quadratics: random, collinear, start == end, coincident control
        let mut q = QuadraticBezierSegment { from: gen_pt::<S>(rng, lattice), ctrl: gen_pt::<S>(rng, lattice), to: gen_pt::<S>(rng, lattice) };
        match i % 9 {
            1 => q.to = q.from,
            2 => q.ctrl = q.from,
            3 => q.ctrl = q.from.lerp(q.to, S::of(0.5)),
            4 => q.ctrl = q.from + (q.to - q.from) * S::of(3.0), // overshoot, collinear
            5 => {
                q.ctrl = q.from;
                q.to = q.from
            }
            _ => {}
        }
        quad_case(cx, q, tol);
        let mut c = CubicBezierSegment { from: gen_pt::<S>(rng, lattice), ctrl1: gen_pt::<S>(rng, lattice), ctrl2: gen_pt::<S>(rng, lattice), to: gen_pt::<S>(rng, lattice) };
        match i % 11 {
            1 => c.to = c.from,                          // loop
            2 => { c.ctrl1 = c.from; c.ctrl2 = c.to }    // straight
            3 => { let a = c.ctrl1; c.ctrl1 = c.ctrl2; c.ctrl2 = a } // often a cusp / loop
            4 => { c.ctrl1 = c.from; c.ctrl2 = c.from; c.to = c.from }
            5 => { c.ctrl1 = c.to; c.ctrl2 = c.from }    // hairpin
            _ => {}
        }
        cubic_case(cx, c, tol);
    }
}

fn adapters(cx: &mut Cx, rng: &mut Rng, n: usize) {
    // path-level adapters emit exactly the callback's points
    for _ in 0..n {
        let g = |r: &mut Rng| lyon_path::math::point(r.range(-8, 8) as f32, r.range(-8, 8) as f32);
        let tol = *rng.pick(&[1.0f32, 0.1, 0.01]);
        let mut ops: Vec<(u8, [lyon_path::math::Point; 3])> = Vec::new();
        let start = g(rng);
        for _ in 0..(1 + rng.below(4)) {
            ops.push((rng.below(3) as u8, [g(rng), g(rng), g(rng)]));
        }
        let mut b = Path::builder();
        b.begin(start);
        let mut expect: Vec<lyon_path::math::Point> = vec![];
        let mut cur = start;
        for (k, p) in &ops {
            match k {
                0 => {
                    b.line_to(p[2]);
                    expect.push(p[2]);
                }
                1 => {
                    b.quadratic_bezier_to(p[0], p[2]);
                    QuadraticBezierSegment { from: cur, ctrl: p[0], to: p[2] }.for_each_flattened(tol, &mut |l| expect.push(l.to));
                }
                _ => {
                    b.cubic_bezier_to(p[0], p[1], p[2]);
                    CubicBezierSegment { from: cur, ctrl1: p[0], ctrl2: p[1], to: p[2] }.for_each_flattened(tol, &mut |l| expect.push(l.to));
                }
            }
            cur = p[2];
        }
        b.end(false);
        let path = b.build();
        let label = format!("{:?} tol {}", path, tol);
        cx.st.inc("evaluations");
        cx.st.inc("path_adapters");
        cx.st.note_case(&label, true);
        let r = catch(AssertUnwindSafe(|| {
            let via_iter: Vec<lyon_path::math::Point> = path
                .iter()
                .flattened(tol)
                .filter_map(|e| match e {
                    lyon_path::PathEvent::Line { to, .. } => Some(to),
                    lyon_path::PathEvent::Quadratic { .. } | lyon_path::PathEvent::Cubic { .. } => Some(lyon_path::math::point(f32::NAN, f32::NAN)),
                    _ => None,
                })
                .collect();
            let mut fb = Path::builder().flattened(tol);
            fb.begin(start);
            for (k, p) in &ops {
                match k {
                    0 => {
                        fb.line_to(p[2]);
                    }
                    1 => {
                        fb.quadratic_bezier_to(p[0], p[2]);
                    }
                    _ => {
                        fb.cubic_bezier_to(p[0], p[1], p[2]);
                    }
                }
            }
            fb.end(false);
            let via_builder: Vec<lyon_path::math::Point> = fb
                .build()
                .iter()
                .filter_map(|e| match e {
                    lyon_path::PathEvent::Line { to, .. } => Some(to),
                    lyon_path::PathEvent::Quadratic { .. } | lyon_path::PathEvent::Cubic { .. } => Some(lyon_path::math::point(f32::NAN, f32::NAN)),
                    _ => None,
                })
                .collect();
            (via_iter, via_builder)
        }));
        match r {
            None => fail(cx, "path flattening adapter panicked", label, None),
            Some((via_iter, via_builder)) => {
                if via_builder != expect {
                    fail(cx, "builder::Flattened does not emit the callback's points", label.clone(), None);
                }
                // the iterator adapter uses the point iterators (cubic: accumulated ranges): same count, same end points, close points
                let close = via_iter.len() == expect.len() && via_iter.iter().zip(expect.iter()).all(|(a, b)| (*a - *b).length() <= tol);
                if !close {
                    fail(cx, "iterator::Flattened does not emit the callback's points", format!("{} {} vs {}", label, via_iter.len(), expect.len()), None);
                }
                // every original endpoint is kept exactly, in order
                let mut k = 0;
                for (_, p) in &ops {
                    while k < via_iter.len() && via_iter[k] != p[2] {
                        k += 1;
                    }
                    if k == via_iter.len() {
                        fail(cx, "iterator::Flattened lost an original endpoint", label.clone(), None);
                        break;
                    }
                    k += 1;
                }
            }
        }
    }
}

pub fn main(args: &Args) -> std::io::Result<()> {
    let mut st = Stats::default();
    let mut w = ShardWriter::new(&args.out, "c09_cases", args.shards, HEADER, "bad_cases");
    w.disabled = args.direct_only();
    let mut wd = ShardWriter::new(&args.out, "c09dev_cases", args.shards, HEADER_DEV, "dev_bad_cases");
    wd.disabled = args.direct_only();
    let mut idx = std::fs::File::create(args.out.join("c09_index.txt"))?;
    let mut rng = Rng::new(args.seed ^ 0x09);
    let n = if args.thorough() { 4000 } else { 450 };
    let dev_budget = if args.thorough() { 3000 } else { 480 };
    let mut cx = Cx { w: &mut w, wd: &mut wd, dev_budget, st: &mut st, idx: &mut idx, id: 0 };
    run_scalar::<f32>(&mut cx, &mut rng, n);
    run_scalar::<f64>(&mut cx, &mut rng, n);
    for _ in 0..n {
        let a = Arc {
            center: point(rng.range(-5, 5) as f64, rng.range(-5, 5) as f64),
            radii: lyon_geom::vector(0.5 + rng.below(40) as f64 * 0.5, 0.5 + rng.below(40) as f64 * 0.5),
            start_angle: lyon_geom::Angle::radians(rng.range(-8, 8) as f64 * 0.4),
            sweep_angle: lyon_geom::Angle::radians(rng.range(-16, 16) as f64 * 0.45 + 0.05),
            x_rotation: lyon_geom::Angle::radians(rng.range(0, 6) as f64 * 0.5),
        };
        let tol = *rng.pick(&[1.0, 0.1, 0.01]);
        arc_case(&mut cx, a, tol);
    }
    for _ in 0..n {
        svg_arc_case::<f64>(&mut cx, &mut rng);
        svg_arc_case::<f32>(&mut cx, &mut rng);
    }
    adapters(&mut cx, &mut rng, n);
    drop(cx);
    w.finish()?;
    wd.finish()?;
    st.write(&args.out.join("c09_stats.json"))
}
