//! C20: hatching and dots.  Lattice paths at angle 0 with arbitrary offset sequences are
//! compared segment by segment with the Coq model (bit-exact f32 operation sequence); every
//! emitted segment / dot (any angle, curved paths too) is checked directly against the even-odd
//! interior computed independently.
use crate::util::*;
use lyon_algorithms::hatching::{Dot, DotBuilder, DotOptions, HatchBuilder, HatchSegment, Hatcher, HatchingOptions};
use lyon_algorithms::hit_test::path_winding_number_at_position;
use lyon_path::math::{point, Angle, Point};
use lyon_path::Path;
use std::panic::AssertUnwindSafe;

pub const HEADER: &str =
    "From Coq Require Import QArith.\nFrom LV Require Import Base.Prelude Model.Bezier Model.Hatch Run.C20.\nOpen Scope Q_scope.";

struct Pattern {
    offsets: Vec<f32>,
    k: usize,
    segs: Vec<(u32, f32, f32, f32, Point, Point)>,
}

impl HatchBuilder for Pattern {
    fn add_segment(&mut self, s: &HatchSegment) {
        self.segs.push((s.row, s.v, s.a.u, s.b.u, s.a.position, s.b.position));
    }
    fn next_offset(&mut self, _row: u32) -> f32 {
        let o = self.offsets.get(self.k).copied().unwrap_or(0.0);
        self.k += 1;
        o
    }
}

struct Dots {
    row_iv: f32,
    col_iv: f32,
    dots: Vec<(Point, u32, u32)>,
}
impl DotBuilder for Dots {
    fn alignment(&mut self, _row: u32) -> Option<f32> {
        Some(self.col_iv)
    }
    fn next_row_offset(&mut self, _c: u32, _r: u32) -> f32 {
        self.row_iv
    }
    fn next_column_offset(&mut self, _c: u32, _r: u32) -> f32 {
        self.col_iv
    }
    fn add_dot(&mut self, d: &Dot) {
        self.dots.push((d.position, d.column, d.row));
    }
}

fn build(subs: &[Vec<(f32, f32)>], close: &[bool]) -> Path {
    let mut b = Path::builder();
    for (s, c) in subs.iter().zip(close.iter()) {
        b.begin(point(s[0].0, s[0].1));
        for p in &s[1..] {
            b.line_to(point(p.0, p.1));
        }
        b.end(*c);
    }
    b.build()
}

fn gq(v: f32) -> String {
    if v.is_finite() {
        gq32(v)
    } else {
        "(123456789 # 1)".into()
    }
}

fn inside_evenodd(path: &Path, p: Point, tol: f32) -> bool {
    path_winding_number_at_position(&p, path.iter(), tol) % 2 != 0
}

pub fn main(args: &Args) -> std::io::Result<()> {
    use std::io::Write;
    let mut st = Stats::default();
    let mut w = ShardWriter::new(&args.out, "c20_cases", args.shards, HEADER, "bad_cases");
    w.disabled = args.direct_only();
    let mut idx = std::fs::File::create(args.out.join("c20_index.txt"))?;
    let mut rng = Rng::new(args.seed ^ 0x20);
    let n = if args.thorough() { 12000 } else { 1500 };
    let mut id = 0usize;
    for it in 0..n {
        // ---- lattice path, angle 0
        let nsub = match it % 10 {
            0 => 0,
            _ => 1 + rng.below(3) as usize,
        };
        let mut subs = Vec::new();
        let mut close = Vec::new();
        for _ in 0..nsub {
            let k = 1 + rng.below(6) as usize;
            subs.push((0..k).map(|_| (rng.range(-4, 8) as f32, rng.range(-4, 8) as f32)).collect::<Vec<_>>());
            close.push(rng.chance(1, 2));
        }
        let path = build(&subs, &close);
        let noffs = 1 + rng.below(40) as usize;
        let offsets: Vec<f32> = (0..noffs)
            .map(|_| match rng.below(8) {
                0 => 0.25,
                1 => 1.0,
                2 => 0.375,
                3 => 1.0 / 3.0,
                4 => 0.7,
                5 => 2.5,
                _ => 0.5,
            })
            .collect();
        let uv = point(rng.range(-3, 3) as f32 * 0.5, rng.range(-3, 3) as f32 * 0.25);
        let text = format!("{:?} close={:?} uv={:?} offsets={:?}", subs, close, uv, offsets);
        st.inc("evaluations");
        st.inc("angle0_lattice");
        let r = catch(AssertUnwindSafe(|| {
            let mut pat = Pattern { offsets: offsets.clone(), k: 0, segs: vec![] };
            let mut opts = HatchingOptions::DEFAULT;
            opts.uv_origin = uv;
            opts.compute_tangents = false;
            Hatcher::new().hatch_path(path.iter(), &opts, &mut pat);
            pat.segs
        }));
        let segs = match r {
            Some(s) => s,
            None => {
                st.fail(jobj(&[("what", jstr("hatch_path panicked")), ("input", jstr(&text))]));
                continue;
            }
        };
        st.note_case(&text, !segs.is_empty());
        if nsub == 0 && !segs.is_empty() {
            st.fail(jobj(&[("what", jstr("empty path produced hatches")), ("input", jstr(&text))]));
        }
        // direct: rows are spaced by the offsets the pattern returned; segments lie on the even-odd interior
        {
            // y of row k = first_y + sum offsets[0..=k]
            let mut first_y = f32::MAX;
            for s in &subs {
                let m = s.len();
                for i in 0..m {
                    let (a, b) = (s[i], s[(i + 1) % m]);
                    if a != b {
                        first_y = first_y.min(a.1.min(b.1));
                    }
                }
            }
            for (row, _v, _au, _bu, a, b) in &segs {
                let mut y = first_y;
                for o in &offsets[..=(*row as usize).min(offsets.len() - 1)] {
                    y += *o;
                }
                if a.y != y || b.y != y {
                    st.fail(jobj(&[("what", jstr("row is not at the cumulative offset requested by the pattern")), ("input", jstr(&format!("{} row {} y {} expected {}", text, row, a.y, y)))]));
                    break;
                }
                if b.x > a.x {
                    let mid = point((a.x + b.x) * 0.5, a.y);
                    // away from vertices/edges only: skip if mid is within 1e-3 of the row of a vertex... use winding
                    if !inside_evenodd(&path, mid, 0.01) {
                        // tolerate the degenerate case where the mid point is on the outline
                        let on_edge = subs.iter().any(|s| {
                            (0..s.len()).any(|i| {
                                let (p, q) = (s[i], s[(i + 1) % s.len()]);
                                let cr = (q.0 - p.0) * (mid.y - p.1) - (q.1 - p.1) * (mid.x - p.0);
                                cr.abs() < 1e-4
                                    && mid.x >= p.0.min(q.0) - 1e-4
                                    && mid.x <= p.0.max(q.0) + 1e-4
                                    && mid.y >= p.1.min(q.1) - 1e-4
                                    && mid.y <= p.1.max(q.1) + 1e-4
                            })
                        });
                        if !on_edge {
                            st.fail(jobj(&[("what", jstr("hatch segment lies outside the even-odd interior")), ("input", jstr(&format!("{} segment {:?}-{:?}", text, a, b)))]));
                            break;
                        }
                    }
                }
            }
            // completeness on each row: a probe point inside the shape on a hatched row is covered by a segment
            let mut rows: std::collections::BTreeMap<u32, Vec<(f32, f32)>> = Default::default();
            let mut row_y: std::collections::BTreeMap<u32, f32> = Default::default();
            for (row, _, _, _, a, b) in &segs {
                rows.entry(*row).or_default().push((a.x, b.x));
                row_y.insert(*row, a.y);
            }
            for (row, ivs) in &rows {
                let y = row_y[row];
                for k in -9..=17 {
                    let x = k as f32 * 0.5 + 0.13;
                    let p = point(x, y);
                    let covered = ivs.iter().any(|(a, b)| *a < x && x < *b);
                    let inside = inside_evenodd(&path, p, 0.01);
                    if inside != covered {
                        // skip probes within 1e-3 of a crossing
                        let near = ivs.iter().any(|(a, b)| (a - x).abs() < 1e-3 || (b - x).abs() < 1e-3);
                        if !near {
                            st.fail(jobj(&[("what", jstr("row segments are not exactly the even-odd interior of the row")), ("input", jstr(&format!("{} row {} y={} x={} inside={} covered={}", text, row, y, x, inside, covered)))]));
                            break;
                        }
                    }
                }
            }
        }
        st.sample(format!("{} -> {} segments", text, segs.len()));
        writeln!(idx, "{}\t{}", id, text).ok();
        let gpath = glist(subs.iter().map(|s| format!("(({}, {}), {})", gq(s[0].0), gq(s[0].1), glist(s[1..].iter().map(|p| format!("({}, {})", gq(p.0), gq(p.1)))))));
        w.push(format!(
            "(mkHC {} {} ({}, {}) {} {})",
            id,
            gpath,
            gq(uv.x),
            gq(uv.y),
            glist(offsets.iter().map(|o| gq(*o))),
            glist(segs.iter().map(|(row, v, au, bu, a, b)| format!("({}%Z, {}, {}, {}, {}, {}, {})", row, gq(*v), gq(*au), gq(*bu), gq(a.x), gq(b.x), gq(a.y))))
        ));
        id += 1;

        // ---- other angles, curved paths, dots: direct evaluation only
        if it % 3 == 0 {
            let angle = rng.range(0, 12) as f32 * 0.26;
            let mut b = Path::builder();
            let g = |r: &mut Rng| point(r.range(-6, 10) as f32, r.range(-6, 10) as f32);
            for _ in 0..(1 + rng.below(2)) {
                b.begin(g(&mut rng));
                for _ in 0..(1 + rng.below(4)) {
                    match rng.below(3) {
                        0 => {
                            b.line_to(g(&mut rng));
                        }
                        1 => {
                            b.quadratic_bezier_to(g(&mut rng), g(&mut rng));
                        }
                        _ => {
                            b.cubic_bezier_to(g(&mut rng), g(&mut rng), g(&mut rng));
                        }
                    }
                }
                b.end(true);
            }
            let path = b.build();
            let tol = 0.01;
            st.inc("evaluations");
            st.inc("rotated_curved");
            let iv = 0.35 + rng.below(4) as f32 * 0.4;
            let r = catch(AssertUnwindSafe(|| {
                let mut pat = Pattern { offsets: vec![iv; 400], k: 0, segs: vec![] };
                let opts = HatchingOptions::DEFAULT.with_angle(Angle::radians(angle)).with_tolerance(tol);
                Hatcher::new().hatch_path(path.iter(), &opts, &mut pat);
                // without tangents, and on a hatcher that has been used before: the same segments
                let mut pat2 = Pattern { offsets: vec![iv; 400], k: 0, segs: vec![] };
                let mut h = Hatcher::new();
                {
                    // a different, non-empty path first: nothing of it may survive in the hatcher
                    let mut pb = lyon_path::Path::builder();
                    pb.begin(point(-30.0, -30.0));
                    pb.line_to(point(30.0, -30.0));
                    pb.line_to(point(30.0, 30.0));
                    pb.line_to(point(-30.0, 30.0));
                    pb.end(true);
                    let warm = pb.build();
                    h.hatch_path(warm.iter(), &HatchingOptions::DEFAULT, &mut Pattern { offsets: vec![1.0; 80], k: 0, segs: vec![] });
                    h.dot_path(warm.iter(), &DotOptions::DEFAULT, &mut Dots { row_iv: 5.0, col_iv: 5.0, dots: vec![] });
                }
                h.hatch_path(path.iter(), &opts.with_tangents(false), &mut pat2);
                if pat2.segs != pat.segs {
                    panic!("with_tangents(false) / a reused hatcher changes the segments");
                }
                let mut dots = Dots { row_iv: iv, col_iv: 0.5, dots: vec![] };
                let dopts = DotOptions::DEFAULT.with_angle(Angle::radians(angle)).with_tolerance(tol);
                Hatcher::new().dot_path(path.iter(), &dopts, &mut dots);
                let mut dots2 = Dots { row_iv: iv, col_iv: 0.5, dots: vec![] };
                h.dot_path(path.iter(), &dopts, &mut dots2);
                if dots2.dots != dots.dots {
                    panic!("a reused hatcher places different dots");
                }
                // the library's own constant-interval patterns give what the equivalent hand-written patterns give;
                // the option constructors are the defaults with one field set
                {
                    use lyon_algorithms::hatching::{RegularDotPattern, RegularHatchingPattern};
                    let mut segs3: Vec<(u32, f32, f32, f32, Point, Point)> = Vec::new();
                    Hatcher::new().hatch_path(path.iter(), &opts, &mut RegularHatchingPattern { interval: iv, callback: &mut |s: &HatchSegment| segs3.push((s.row, s.v, s.a.u, s.b.u, s.a.position, s.b.position)) });
                    if segs3 != pat.segs {
                        panic!("RegularHatchingPattern differs from a pattern with the same constant interval");
                    }
                    let mut dots3: Vec<(Point, u32, u32)> = Vec::new();
                    Hatcher::new().dot_path(path.iter(), &dopts, &mut RegularDotPattern { row_interval: iv, column_interval: 0.5, callback: &mut |d: &Dot| dots3.push((d.position, d.column, d.row)) });
                    if dots3 != dots.dots {
                        panic!("RegularDotPattern differs from a pattern with the same constant intervals");
                    }
                    let (ho, hd) = (HatchingOptions::tolerance(tol), HatchingOptions::DEFAULT.with_tolerance(tol));
                    let (ha, hb) = (HatchingOptions::angle(Angle::radians(angle)), HatchingOptions::DEFAULT.with_angle(Angle::radians(angle)));
                    let (d1, d2) = (DotOptions::tolerance(tol), DotOptions::DEFAULT.with_tolerance(tol));
                    let (d3, d4) = (DotOptions::angle(Angle::radians(angle)), DotOptions::DEFAULT.with_angle(Angle::radians(angle)));
                    let same_h = |a: &HatchingOptions, b: &HatchingOptions| a.tolerance == b.tolerance && a.angle == b.angle && a.compute_tangents == b.compute_tangents && a.uv_origin == b.uv_origin;
                    let same_d = |a: &DotOptions, b: &DotOptions| a.tolerance == b.tolerance && a.angle == b.angle && a.uv_origin == b.uv_origin;
                    if !same_h(&ho, &hd) || !same_h(&ha, &hb) || !same_d(&d1, &d2) || !same_d(&d3, &d4) || !same_h(&HatchingOptions::default(), &HatchingOptions::DEFAULT) || !same_d(&DotOptions::default(), &DotOptions::DEFAULT) {
                        panic!("an options constructor is not the default with one field set");
                    }
                }
                (pat.segs, dots.dots)
            }));
            match r {
                None => st.fail(jobj(&[("what", jstr("hatch_path / dot_path panicked")), ("input", jstr(&format!("{:?} angle {}", path, angle)))])),
                Some((segs, dots)) => {
                    let far = |p: Point| -> bool {
                        // both probes at +-5 tol along the outline normal are unreliable: use winding stability
                        let w0 = path_winding_number_at_position(&p, path.iter(), tol / 10.0);
                        [(0.05, 0.0), (-0.05, 0.0), (0.0, 0.05), (0.0, -0.05)].iter().all(|(dx, dy)| {
                            path_winding_number_at_position(&point(p.x + dx, p.y + dy), path.iter(), tol / 10.0) == w0
                        })
                    };
                    for (_, _, _, _, a, b) in &segs {
                        let mid = a.lerp(*b, 0.5);
                        if (b.to_vector() - a.to_vector()).length() > 0.3 && far(mid) && !inside_evenodd(&path, mid, tol / 10.0) && !inside_evenodd(&path, mid, tol) {
                            st.fail(jobj(&[("what", jstr("hatch segment (rotated / curved) lies outside the even-odd interior")), ("input", jstr(&format!("{:?} angle {} segment {:?}-{:?}", path, angle, a, b)))]));
                            break;
                        }
                        // perpendicular to the hatching direction: all segments are parallel to (cos a, sin a)
                        let d = (*b - *a).normalize();
                        // convention-free: the hatch direction makes the requested angle with the x axis
                        // (lyon rotates by -angle in its y-down coordinate system)
                        let off = (d.x.abs() - angle.cos().abs()).abs().max((d.y.abs() - angle.sin().abs()).abs());
                        if (b.to_vector() - a.to_vector()).length() > 0.3 && off > 2e-3 {
                            st.fail(jobj(&[("what", jstr("hatch segment is not along the requested angle")), ("input", jstr(&format!("{:?} angle {} segment {:?}-{:?}", path, angle, a, b)))]));
                            break;
                        }
                    }
                    for (p, _, _) in &dots {
                        if far(*p) && !inside_evenodd(&path, *p, tol / 10.0) && !inside_evenodd(&path, *p, tol) {
                            st.fail(jobj(&[("what", jstr("dot lies outside the shape")), ("input", jstr(&format!("{:?} angle {} dot {:?}", path, angle, p)))]));
                            break;
                        }
                    }
                    st.add("dots_checked", dots.len() as u64);
                }
            }
        }
    }
    // empty / degenerate inputs: no output, no panic
    for subs in [vec![], vec![vec![(1.0f32, 1.0f32)]], vec![vec![(1.0, 1.0), (1.0, 1.0)]]] {
        let close = vec![true; subs.len()];
        let path = if subs.is_empty() { Path::new() } else { build(&subs, &close) };
        let r = catch(AssertUnwindSafe(|| {
            let mut pat = Pattern { offsets: vec![1.0; 10], k: 0, segs: vec![] };
            Hatcher::new().hatch_path(path.iter(), &HatchingOptions::DEFAULT, &mut pat);
            let mut dots = Dots { row_iv: 1.0, col_iv: 1.0, dots: vec![] };
            Hatcher::new().dot_path(path.iter(), &DotOptions::DEFAULT, &mut dots);
            pat.segs.len() + dots.dots.len()
        }));
        st.inc("evaluations");
        st.inc("empty_inputs");
        if r != Some(0) {
            st.fail(jobj(&[("what", jstr("empty path: panic or output")), ("input", jstr(&format!("{:?} -> {:?}", subs, r)))]));
        }
    }
    w.finish()?;
    st.write(&args.out.join("c20_stats.json"))
}
