//! C20: hatching and dots.  Lattice paths at angle 0 with arbitrary offset sequences are
//! compared segment by segment with the Coq model (bit-exact f32 operation sequence); every
//! emitted segment / dot (any angle, curved paths too) is checked directly against the even-odd
//! interior computed independently.
//!
//! Audit (`audit`, counters `audit_*`): arbitrary angles / tolerances / uv origins / offset sequences, regular and
//! custom hatch and dot patterns, against a reference that uses none of lyon (f64 Bezier sampling, rotation,
//! row crossings under even-odd, distance to the outline); curved paths additionally against the polygon that
//! lyon_geom's flattening gives at the same tolerance (sharp).  See the comment above `type P2`.
use crate::util::*;
use lyon_algorithms::hatching::{Dot, DotBuilder, DotOptions, HatchBuilder, HatchSegment, Hatcher, HatchingOptions};
use lyon_algorithms::hit_test::path_winding_number_at_position;
use lyon_path::math::{point, Angle, Point, Vector};
use lyon_path::Path;
use std::panic::AssertUnwindSafe;

pub const HEADER: &str =
    "From Coq Require Import QArith.\nFrom LV Require Import Base.Prelude Model.Bezier Model.Hatch Run.C20.\nOpen Scope Q_scope.";

struct Pattern {
    offsets: Vec<f32>,
    k: usize,
    segs: Vec<(u32, f32, f32, f32, Point, Point)>,
}

impl HatchBuilder for Pattern {
    fn add_segment(&mut self, s: &HatchSegment) {
        self.segs.push((s.row, s.v, s.a.u, s.b.u, s.a.position, s.b.position));
    }
    fn next_offset(&mut self, _row: u32) -> f32 {
        let o = self.offsets.get(self.k).copied().unwrap_or(0.0);
        self.k += 1;
        o
    }
}

struct Dots {
    row_iv: f32,
    col_iv: f32,
    dots: Vec<(Point, u32, u32)>,
}
impl DotBuilder for Dots {
    fn alignment(&mut self, _row: u32) -> Option<f32> {
        Some(self.col_iv)
    }
    fn next_row_offset(&mut self, _c: u32, _r: u32) -> f32 {
        self.row_iv
    }
    fn next_column_offset(&mut self, _c: u32, _r: u32) -> f32 {
        self.col_iv
    }
    fn add_dot(&mut self, d: &Dot) {
        self.dots.push((d.position, d.column, d.row));
    }
}

fn build(subs: &[Vec<(f32, f32)>], close: &[bool]) -> Path {
    let mut b = Path::builder();
    for (s, c) in subs.iter().zip(close.iter()) {
        b.begin(point(s[0].0, s[0].1));
        for p in &s[1..] {
            b.line_to(point(p.0, p.1));
        }
        b.end(*c);
    }
    b.build()
}

fn gq(v: f32) -> String {
    if v.is_finite() {
        gq32(v)
    } else {
        "(123456789 # 1)".into()
    }
}

fn inside_evenodd(path: &Path, p: Point, tol: f32) -> bool {
    path_winding_number_at_position(&p, path.iter(), tol) % 2 != 0
}

/// distance from `p` to the outline (every sub-path closed), on a 1e-3 flattening
fn outline_distance(path: &Path, p: Point) -> f64 {
    use lyon_path::iterator::PathIterator;
    use lyon_path::PathEvent;
    let q = [p.x as f64, p.y as f64];
    let f = |a: Point| -> P2 { [a.x as f64, a.y as f64] };
    let mut best = f64::INFINITY;
    for e in path.iter().flattened(1e-3) {
        match e {
            PathEvent::Line { from, to } => best = best.min(a_dist_pt_seg(q, f(from), f(to))),
            PathEvent::End { last, first, .. } => best = best.min(a_dist_pt_seg(q, f(last), f(first))),
            _ => {}
        }
    }
    best
}

pub fn main(args: &Args) -> std::io::Result<()> {
    use std::io::Write;
    let mut st = Stats::default();
    let mut w = ShardWriter::new(&args.out, "c20_cases", args.shards, HEADER, "bad_cases");
    w.disabled = args.direct_only();
    let mut idx = std::fs::File::create(args.out.join("c20_index.txt"))?;
    let mut rng = Rng::new(args.seed ^ 0x20);
    let n = if args.thorough() { 12000 } else { 1500 };
    let mut id = 0usize;
    for it in 0..n {
        // ---- lattice path, angle 0
        let nsub = match it % 10 {
            0 => 0,
            _ => 1 + rng.below(3) as usize,
        };
        let mut subs = Vec::new();
        let mut close = Vec::new();
        for _ in 0..nsub {
            let k = 1 + rng.below(6) as usize;
            subs.push((0..k).map(|_| (rng.range(-4, 8) as f32, rng.range(-4, 8) as f32)).collect::<Vec<_>>());
            close.push(rng.chance(1, 2));
        }
        let path = build(&subs, &close);
        let noffs = 1 + rng.below(40) as usize;
        let offsets: Vec<f32> = (0..noffs)
            .map(|_| match rng.below(8) {
                0 => 0.25,
                1 => 1.0,
                2 => 0.375,
                3 => 1.0 / 3.0,
                4 => 0.7,
                5 => 2.5,
                _ => 0.5,
            })
            .collect();
        let uv = point(rng.range(-3, 3) as f32 * 0.5, rng.range(-3, 3) as f32 * 0.25);
        let text = format!("{:?} close={:?} uv={:?} offsets={:?}", subs, close, uv, offsets);
        st.inc("evaluations");
        st.inc("angle0_lattice");
        let r = catch(AssertUnwindSafe(|| {
            let mut pat = Pattern { offsets: offsets.clone(), k: 0, segs: vec![] };
            let mut opts = HatchingOptions::DEFAULT;
            opts.uv_origin = uv;
            opts.compute_tangents = false;
            Hatcher::new().hatch_path(path.iter(), &opts, &mut pat);
            pat.segs
        }));
        let segs = match r {
            Some(s) => s,
            None => {
                st.fail(jobj(&[("what", jstr("hatch_path panicked")), ("input", jstr(&text))]));
                continue;
            }
        };
        st.note_case(&text, !segs.is_empty());
        if nsub == 0 && !segs.is_empty() {
            st.fail(jobj(&[("what", jstr("empty path produced hatches")), ("input", jstr(&text))]));
        }
        // direct: rows are spaced by the offsets the pattern returned; segments lie on the even-odd interior
        {
            // y of row k = first_y + sum offsets[0..=k]
            let mut first_y = f32::MAX;
            for s in &subs {
                let m = s.len();
                for i in 0..m {
                    let (a, b) = (s[i], s[(i + 1) % m]);
                    if a != b {
                        first_y = first_y.min(a.1.min(b.1));
                    }
                }
            }
            for (row, _v, _au, _bu, a, b) in &segs {
                let mut y = first_y;
                for o in &offsets[..=(*row as usize).min(offsets.len() - 1)] {
                    y += *o;
                }
                if a.y != y || b.y != y {
                    st.fail(jobj(&[("what", jstr("row is not at the cumulative offset requested by the pattern")), ("input", jstr(&format!("{} row {} y {} expected {}", text, row, a.y, y)))]));
                    break;
                }
                if b.x > a.x {
                    let mid = point((a.x + b.x) * 0.5, a.y);
                    // away from vertices/edges only: skip if mid is within 1e-3 of the row of a vertex... use winding
                    if !inside_evenodd(&path, mid, 0.01) {
                        // tolerate the degenerate case where the mid point is on the outline
                        let on_edge = subs.iter().any(|s| {
                            (0..s.len()).any(|i| {
                                let (p, q) = (s[i], s[(i + 1) % s.len()]);
                                let cr = (q.0 - p.0) * (mid.y - p.1) - (q.1 - p.1) * (mid.x - p.0);
                                cr.abs() < 1e-4
                                    && mid.x >= p.0.min(q.0) - 1e-4
                                    && mid.x <= p.0.max(q.0) + 1e-4
                                    && mid.y >= p.1.min(q.1) - 1e-4
                                    && mid.y <= p.1.max(q.1) + 1e-4
                            })
                        });
                        if !on_edge {
                            st.fail(jobj(&[("what", jstr("hatch segment lies outside the even-odd interior")), ("input", jstr(&format!("{} segment {:?}-{:?}", text, a, b)))]));
                            break;
                        }
                    }
                }
            }
            // completeness on each row: a probe point inside the shape on a hatched row is covered by a segment
            let mut rows: std::collections::BTreeMap<u32, Vec<(f32, f32)>> = Default::default();
            let mut row_y: std::collections::BTreeMap<u32, f32> = Default::default();
            for (row, _, _, _, a, b) in &segs {
                rows.entry(*row).or_default().push((a.x, b.x));
                row_y.insert(*row, a.y);
            }
            for (row, ivs) in &rows {
                let y = row_y[row];
                for k in -9..=17 {
                    let x = k as f32 * 0.5 + 0.13;
                    let p = point(x, y);
                    let covered = ivs.iter().any(|(a, b)| *a < x && x < *b);
                    let inside = inside_evenodd(&path, p, 0.01);
                    if inside != covered {
                        // skip probes within 1e-3 of a crossing
                        let near = ivs.iter().any(|(a, b)| (a - x).abs() < 1e-3 || (b - x).abs() < 1e-3);
                        if !near {
                            st.fail(jobj(&[("what", jstr("row segments are not exactly the even-odd interior of the row")), ("input", jstr(&format!("{} row {} y={} x={} inside={} covered={}", text, row, y, x, inside, covered)))]));
                            break;
                        }
                    }
                }
            }
        }
        st.sample(format!("{} -> {} segments", text, segs.len()));
        writeln!(idx, "{}\t{}", id, text).ok();
        let gpath = glist(subs.iter().map(|s| format!("(({}, {}), {})", gq(s[0].0), gq(s[0].1), glist(s[1..].iter().map(|p| format!("({}, {})", gq(p.0), gq(p.1)))))));
        w.push(format!(
            "(mkHC {} {} ({}, {}) {} {})",
            id,
            gpath,
            gq(uv.x),
            gq(uv.y),
            glist(offsets.iter().map(|o| gq(*o))),
            glist(segs.iter().map(|(row, v, au, bu, a, b)| format!("({}%Z, {}, {}, {}, {}, {}, {})", row, gq(*v), gq(*au), gq(*bu), gq(a.x), gq(b.x), gq(a.y))))
        ));
        id += 1;

        // ---- other angles, curved paths, dots: direct evaluation only
        if it % 3 == 0 {
            let angle = rng.range(0, 12) as f32 * 0.26;
            let mut b = Path::builder();
            let g = |r: &mut Rng| point(r.range(-6, 10) as f32, r.range(-6, 10) as f32);
            for _ in 0..(1 + rng.below(2)) {
                b.begin(g(&mut rng));
                for _ in 0..(1 + rng.below(4)) {
                    match rng.below(3) {
                        0 => {
                            b.line_to(g(&mut rng));
                        }
                        1 => {
                            b.quadratic_bezier_to(g(&mut rng), g(&mut rng));
                        }
                        _ => {
                            b.cubic_bezier_to(g(&mut rng), g(&mut rng), g(&mut rng));
                        }
                    }
                }
                b.end(true);
            }
            let path = b.build();
            let tol = 0.01;
            st.inc("evaluations");
            st.inc("rotated_curved");
            let iv = 0.35 + rng.below(4) as f32 * 0.4;
            let r = catch(AssertUnwindSafe(|| {
                let mut pat = Pattern { offsets: vec![iv; 400], k: 0, segs: vec![] };
                let opts = HatchingOptions::DEFAULT.with_angle(Angle::radians(angle)).with_tolerance(tol);
                Hatcher::new().hatch_path(path.iter(), &opts, &mut pat);
                // without tangents, and on a hatcher that has been used before: the same segments
                let mut pat2 = Pattern { offsets: vec![iv; 400], k: 0, segs: vec![] };
                let mut h = Hatcher::new();
                {
                    // a different, non-empty path first: nothing of it may survive in the hatcher
                    let mut pb = lyon_path::Path::builder();
                    pb.begin(point(-30.0, -30.0));
                    pb.line_to(point(30.0, -30.0));
                    pb.line_to(point(30.0, 30.0));
                    pb.line_to(point(-30.0, 30.0));
                    pb.end(true);
                    let warm = pb.build();
                    h.hatch_path(warm.iter(), &HatchingOptions::DEFAULT, &mut Pattern { offsets: vec![1.0; 80], k: 0, segs: vec![] });
                    h.dot_path(warm.iter(), &DotOptions::DEFAULT, &mut Dots { row_iv: 5.0, col_iv: 5.0, dots: vec![] });
                }
                h.hatch_path(path.iter(), &opts.with_tangents(false), &mut pat2);
                if pat2.segs != pat.segs {
                    panic!("with_tangents(false) / a reused hatcher changes the segments");
                }
                let mut dots = Dots { row_iv: iv, col_iv: 0.5, dots: vec![] };
                let dopts = DotOptions::DEFAULT.with_angle(Angle::radians(angle)).with_tolerance(tol);
                Hatcher::new().dot_path(path.iter(), &dopts, &mut dots);
                let mut dots2 = Dots { row_iv: iv, col_iv: 0.5, dots: vec![] };
                h.dot_path(path.iter(), &dopts, &mut dots2);
                if dots2.dots != dots.dots {
                    panic!("a reused hatcher places different dots");
                }
                // the library's own constant-interval patterns give what the equivalent hand-written patterns give;
                // the option constructors are the defaults with one field set
                {
                    use lyon_algorithms::hatching::{RegularDotPattern, RegularHatchingPattern};
                    let mut segs3: Vec<(u32, f32, f32, f32, Point, Point)> = Vec::new();
                    Hatcher::new().hatch_path(path.iter(), &opts, &mut RegularHatchingPattern { interval: iv, callback: &mut |s: &HatchSegment| segs3.push((s.row, s.v, s.a.u, s.b.u, s.a.position, s.b.position)) });
                    if segs3 != pat.segs {
                        panic!("RegularHatchingPattern differs from a pattern with the same constant interval");
                    }
                    let mut dots3: Vec<(Point, u32, u32)> = Vec::new();
                    Hatcher::new().dot_path(path.iter(), &dopts, &mut RegularDotPattern { row_interval: iv, column_interval: 0.5, callback: &mut |d: &Dot| dots3.push((d.position, d.column, d.row)) });
                    if dots3 != dots.dots {
                        panic!("RegularDotPattern differs from a pattern with the same constant intervals");
                    }
                    let (ho, hd) = (HatchingOptions::tolerance(tol), HatchingOptions::DEFAULT.with_tolerance(tol));
                    let (ha, hb) = (HatchingOptions::angle(Angle::radians(angle)), HatchingOptions::DEFAULT.with_angle(Angle::radians(angle)));
                    let (d1, d2) = (DotOptions::tolerance(tol), DotOptions::DEFAULT.with_tolerance(tol));
                    let (d3, d4) = (DotOptions::angle(Angle::radians(angle)), DotOptions::DEFAULT.with_angle(Angle::radians(angle)));
                    let same_h = |a: &HatchingOptions, b: &HatchingOptions| a.tolerance == b.tolerance && a.angle == b.angle && a.compute_tangents == b.compute_tangents && a.uv_origin == b.uv_origin;
                    let same_d = |a: &DotOptions, b: &DotOptions| a.tolerance == b.tolerance && a.angle == b.angle && a.uv_origin == b.uv_origin;
                    if !same_h(&ho, &hd) || !same_h(&ha, &hb) || !same_d(&d1, &d2) || !same_d(&d3, &d4) || !same_h(&HatchingOptions::default(), &HatchingOptions::DEFAULT) || !same_d(&DotOptions::default(), &DotOptions::DEFAULT) {
                        panic!("an options constructor is not the default with one field set");
                    }
                }
                (pat.segs, dots.dots)
            }));
            match r {
                None => st.fail(jobj(&[("what", jstr("hatch_path / dot_path panicked")), ("input", jstr(&format!("{:?} angle {}", path, angle)))])),
                Some((segs, dots)) => {
                    let far = |p: Point| -> bool {
                        // farther than the tolerance from the outline (a sliver thinner than the probes below would
                        // otherwise pass for "far": a dot on the edge of a 0.013 wide sliver was reported)
                        if outline_distance(&path, p) <= tol as f64 + 1e-3 {
                            return false;
                        }
                        // both probes at +-5 tol along the outline normal are unreliable: use winding stability
                        let w0 = path_winding_number_at_position(&p, path.iter(), tol / 10.0);
                        [(0.05, 0.0), (-0.05, 0.0), (0.0, 0.05), (0.0, -0.05)].iter().all(|(dx, dy)| {
                            path_winding_number_at_position(&point(p.x + dx, p.y + dy), path.iter(), tol / 10.0) == w0
                        })
                    };
                    for (_, _, _, _, a, b) in &segs {
                        let mid = a.lerp(*b, 0.5);
                        if (b.to_vector() - a.to_vector()).length() > 0.3 && far(mid) && !inside_evenodd(&path, mid, tol / 10.0) && !inside_evenodd(&path, mid, tol) {
                            st.fail(jobj(&[("what", jstr("hatch segment (rotated / curved) lies outside the even-odd interior")), ("input", jstr(&format!("{:?} angle {} segment {:?}-{:?}", path, angle, a, b)))]));
                            break;
                        }
                        // perpendicular to the hatching direction: all segments are parallel to (cos a, sin a)
                        let d = (*b - *a).normalize();
                        // convention-free: the hatch direction makes the requested angle with the x axis
                        // (lyon rotates by -angle in its y-down coordinate system)
                        let off = (d.x.abs() - angle.cos().abs()).abs().max((d.y.abs() - angle.sin().abs()).abs());
                        if (b.to_vector() - a.to_vector()).length() > 0.3 && off > 2e-3 {
                            st.fail(jobj(&[("what", jstr("hatch segment is not along the requested angle")), ("input", jstr(&format!("{:?} angle {} segment {:?}-{:?}", path, angle, a, b)))]));
                            break;
                        }
                    }
                    for (p, _, _) in &dots {
                        if far(*p) && !inside_evenodd(&path, *p, tol / 10.0) && !inside_evenodd(&path, *p, tol) {
                            st.fail(jobj(&[("what", jstr("dot lies outside the shape")), ("input", jstr(&format!("{:?} angle {} dot {:?}", path, angle, p)))]));
                            break;
                        }
                    }
                    st.add("dots_checked", dots.len() as u64);
                }
            }
        }
    }
    // empty / degenerate inputs: no output, no panic
    for subs in [vec![], vec![vec![(1.0f32, 1.0f32)]], vec![vec![(1.0, 1.0), (1.0, 1.0)]]] {
        let close = vec![true; subs.len()];
        let path = if subs.is_empty() { Path::new() } else { build(&subs, &close) };
        let r = catch(AssertUnwindSafe(|| {
            let mut pat = Pattern { offsets: vec![1.0; 10], k: 0, segs: vec![] };
            Hatcher::new().hatch_path(path.iter(), &HatchingOptions::DEFAULT, &mut pat);
            let mut dots = Dots { row_iv: 1.0, col_iv: 1.0, dots: vec![] };
            Hatcher::new().dot_path(path.iter(), &DotOptions::DEFAULT, &mut dots);
            pat.segs.len() + dots.dots.len()
        }));
        st.inc("evaluations");
        st.inc("empty_inputs");
        if r != Some(0) {
            st.fail(jobj(&[("what", jstr("empty path: panic or output")), ("input", jstr(&format!("{:?} -> {:?}", subs, r)))]));
        }
    }
    audit(args, &mut st);
    w.finish()?;
    st.write(&args.out.join("c20_stats.json"))
}

// ======================================================================================
// Audit with an independent reference for arbitrary angles.
//
// Conventions derived from hatching.rs and confirmed by `a_convention_probe`:
// * lyon works in the frame p' = R(+angle) p, R(t) = [[cos t, -sin t], [sin t, cos t]] (euclid's
//   Rotation2D).  Rows are the lines y' = const.  In world space a row runs along R(-angle)(1, 0) =
//   (cos a, -sin a) (the hatch lines make the angle -a with +x in the y-up mathematical sense, i.e. +a
//   on a y-down screen) and successive rows advance along R(-angle)(0, 1) = (sin a, cos a).
// * (u, v) = R(+angle)(position) - R(+angle)(uv_origin): `uv_origin` only shifts the reported u / v.
// * Row k is the line y' = m + offset(0) + ... + offset(k), m = the smallest y' of the (flattened) outline;
//   `row` counts every line swept (also lines that emit nothing); next_offset(k) is asked before row k.
//   The rows are NOT anchored to uv_origin.
// * Every sub-path is closed implicitly (`end(close)` ignores `close`); half-open rule [from.y', to.y').
//
// The reference below uses none of lyon: Bezier evaluation, rotation, crossings and distances are all
// computed here in f64.
type P2 = [f64; 2];

#[derive(Clone, Debug)]
enum Sg {
    L((f32, f32)),
    Q((f32, f32), (f32, f32)),
    C((f32, f32), (f32, f32), (f32, f32)),
}

#[derive(Clone, Debug)]
struct Sub {
    s: (f32, f32),
    g: Vec<Sg>,
    close: bool,
}

fn a_build(subs: &[Sub]) -> Path {
    let pt = |p: (f32, f32)| point(p.0, p.1);
    let mut b = Path::builder();
    for sb in subs {
        b.begin(pt(sb.s));
        for g in &sb.g {
            match g {
                Sg::L(p) => {
                    b.line_to(pt(*p));
                }
                Sg::Q(c, p) => {
                    b.quadratic_bezier_to(pt(*c), pt(*p));
                }
                Sg::C(c1, c2, p) => {
                    b.cubic_bezier_to(pt(*c1), pt(*c2), pt(*p));
                }
            }
        }
        b.end(sb.close);
    }
    b.build()
}

fn a_curved(subs: &[Sub]) -> bool {
    subs.iter().any(|s| s.g.iter().any(|g| !matches!(g, Sg::L(_))))
}

/// Fine polylines (world space), one implicitly closed ring per sub-path; chord error <= 5e-5.
fn a_fine(subs: &[Sub]) -> Vec<Vec<P2>> {
    let f = |p: (f32, f32)| -> P2 { [p.0 as f64, p.1 as f64] };
    let hyp = |a: f64, b: f64| (a * a + b * b).sqrt();
    let steps = |m: f64| -> usize { ((m / (8.0 * 5e-5)).sqrt().ceil() as usize).max(8).min(4000) };
    let mut rings = Vec::new();
    for sb in subs {
        let mut pts: Vec<P2> = vec![f(sb.s)];
        let mut cur = f(sb.s);
        for g in &sb.g {
            match g {
                Sg::L(p) => {
                    cur = f(*p);
                    pts.push(cur);
                }
                Sg::Q(c, p) => {
                    let (c, p) = (f(*c), f(*p));
                    let m = 2.0 * hyp(cur[0] - 2.0 * c[0] + p[0], cur[1] - 2.0 * c[1] + p[1]);
                    let n = steps(m);
                    for i in 1..=n {
                        let t = i as f64 / n as f64;
                        let mt = 1.0 - t;
                        pts.push([mt * mt * cur[0] + 2.0 * mt * t * c[0] + t * t * p[0], mt * mt * cur[1] + 2.0 * mt * t * c[1] + t * t * p[1]]);
                    }
                    cur = p;
                    *pts.last_mut().unwrap() = p;
                }
                Sg::C(c1, c2, p) => {
                    let (c1, c2, p) = (f(*c1), f(*c2), f(*p));
                    let m1 = hyp(cur[0] - 2.0 * c1[0] + c2[0], cur[1] - 2.0 * c1[1] + c2[1]);
                    let m2 = hyp(c1[0] - 2.0 * c2[0] + p[0], c1[1] - 2.0 * c2[1] + p[1]);
                    let n = steps(6.0 * m1.max(m2));
                    for i in 1..=n {
                        let t = i as f64 / n as f64;
                        let mt = 1.0 - t;
                        let (b0, b1, b2, b3) = (mt * mt * mt, 3.0 * mt * mt * t, 3.0 * mt * t * t, t * t * t);
                        pts.push([b0 * cur[0] + b1 * c1[0] + b2 * c2[0] + b3 * p[0], b0 * cur[1] + b1 * c1[1] + b2 * c2[1] + b3 * p[1]]);
                    }
                    cur = p;
                    *pts.last_mut().unwrap() = p;
                }
            }
        }
        pts.dedup();
        while pts.len() > 1 && pts.last() == pts.first() {
            pts.pop();
        }
        rings.push(pts);
    }
    rings
}

/// The polygon lyon hatches: the same sub-paths flattened by lyon_geom's public `for_each_flattened` at the
/// tolerance of the case (another API route to the points `hatch_path` works on; the sub-paths closed).
fn a_lyon_flat(subs: &[Sub], tol: f32) -> Vec<Vec<P2>> {
    use lyon_geom::{CubicBezierSegment, LineSegment as GLine, QuadraticBezierSegment};
    let pt = |p: (f32, f32)| point(p.0, p.1);
    let mut rings = Vec::new();
    for sb in subs {
        let mut pts: Vec<P2> = vec![[sb.s.0 as f64, sb.s.1 as f64]];
        let mut cur = pt(sb.s);
        for g in &sb.g {
            match g {
                Sg::L(p) => {
                    cur = pt(*p);
                    pts.push([cur.x as f64, cur.y as f64]);
                }
                Sg::Q(c, p) => {
                    QuadraticBezierSegment { from: cur, ctrl: pt(*c), to: pt(*p) }.for_each_flattened(tol, &mut |l: &GLine<f32>| pts.push([l.to.x as f64, l.to.y as f64]));
                    cur = pt(*p);
                }
                Sg::C(c1, c2, p) => {
                    CubicBezierSegment { from: cur, ctrl1: pt(*c1), ctrl2: pt(*c2), to: pt(*p) }.for_each_flattened(tol, &mut |l: &GLine<f32>| pts.push([l.to.x as f64, l.to.y as f64]));
                    cur = pt(*p);
                }
            }
        }
        pts.dedup();
        while pts.len() > 1 && pts.last() == pts.first() {
            pts.pop();
        }
        rings.push(pts);
    }
    rings
}

fn a_merge(mut v: Vec<(f64, f64)>) -> Vec<(f64, f64)> {
    v.sort_by(|a, b| a.0.partial_cmp(&b.0).unwrap());
    let mut out: Vec<(f64, f64)> = Vec::new();
    for (a, b) in v {
        match out.last_mut() {
            Some(l) if a <= l.1 => {
                if b > l.1 {
                    l.1 = b
                }
            }
            _ => out.push((a, b)),
        }
    }
    out
}

/// {x : dist((x, y), segment pq) <= d}
fn a_capsule_row(p: P2, q: P2, y: f64, d: f64) -> Option<(f64, f64)> {
    let (mut lo, mut hi) = (f64::INFINITY, f64::NEG_INFINITY);
    for c in [p, q] {
        let dy = y - c[1];
        if dy.abs() <= d {
            let w = (d * d - dy * dy).sqrt();
            lo = lo.min(c[0] - w);
            hi = hi.max(c[0] + w);
        }
    }
    let (dx, dy) = (q[0] - p[0], q[1] - p[1]);
    let l = (dx * dx + dy * dy).sqrt();
    if l > 0.0 {
        let (mut a, mut b) = (f64::NEG_INFINITY, f64::INFINITY);
        let mut clip = |k: f64, c: f64, lo: f64, hi: f64| {
            if k.abs() < 1e-300 {
                if c < lo || c > hi {
                    a = f64::INFINITY;
                    b = f64::NEG_INFINITY;
                }
            } else {
                let (x0, x1) = ((lo - c) / k, (hi - c) / k);
                a = a.max(x0.min(x1));
                b = b.min(x0.max(x1));
            }
        };
        // t(x) = ((x - p0) dx + (y - p1) dy) / l in [0, l];   n(x) = (-(x - p0) dy + (y - p1) dx) / l in [-d, d]
        clip(dx / l, ((y - p[1]) * dy - p[0] * dx) / l, 0.0, l);
        clip(-dy / l, ((y - p[1]) * dx + p[0] * dy) / l, -d, d);
        if a <= b {
            lo = lo.min(a);
            hi = hi.max(b);
        }
    }
    if lo <= hi {
        Some((lo, hi))
    } else {
        None
    }
}

/// even-odd interior intervals of the line y' = y (half-open rule) and the set of its points within d of the outline
fn a_row_ref(rr: &[Vec<P2>], y: f64, d: f64) -> (Vec<(f64, f64)>, Vec<(f64, f64)>) {
    let mut xs: Vec<f64> = Vec::new();
    let mut u: Vec<(f64, f64)> = Vec::new();
    for ring in rr {
        let n = ring.len();
        if n < 2 {
            continue;
        }
        for i in 0..n {
            let (p, q) = (ring[i], ring[(i + 1) % n]);
            let (lo, hi) = (p[1].min(q[1]), p[1].max(q[1]));
            if y < lo - d || y > hi + d {
                continue;
            }
            if (p[1] <= y) != (q[1] <= y) {
                xs.push(p[0] + (y - p[1]) / (q[1] - p[1]) * (q[0] - p[0]));
            }
            if let Some(iv) = a_capsule_row(p, q, y, d) {
                u.push(iv);
            }
        }
    }
    xs.sort_by(|a, b| a.partial_cmp(b).unwrap());
    let r: Vec<(f64, f64)> = xs.chunks(2).filter(|c| c.len() == 2).map(|c| (c[0], c[1])).collect();
    (r, a_merge(u))
}

/// pieces of E xor R: (from, to, piece is in E)
fn a_xor(e: &[(f64, f64)], r: &[(f64, f64)]) -> Vec<(f64, f64, bool)> {
    let mut xs: Vec<f64> = e.iter().chain(r.iter()).flat_map(|(a, b)| [*a, *b]).collect();
    xs.sort_by(|a, b| a.partial_cmp(b).unwrap());
    xs.dedup();
    let mut out: Vec<(f64, f64, bool)> = Vec::new();
    for w in xs.windows(2) {
        let m = 0.5 * (w[0] + w[1]);
        let ine = e.iter().any(|(a, b)| *a < m && m < *b);
        let inr = r.iter().any(|(a, b)| *a < m && m < *b);
        if ine != inr {
            match out.last_mut() {
                Some(l) if l.1 == w[0] && l.2 == ine => l.1 = w[1],
                _ => out.push((w[0], w[1], ine)),
            }
        }
    }
    out
}

fn a_within(u: &[(f64, f64)], l: f64, r: f64) -> bool {
    u.iter().any(|(a, b)| *a <= l + 1e-9 && r <= *b + 1e-9)
}

/// [x0, x1] lies in one interior interval and no point of it is within d of the outline
fn a_def_inside(r: &[(f64, f64)], u: &[(f64, f64)], x0: f64, x1: f64) -> bool {
    r.iter().any(|(a, b)| *a <= x0 && x1 <= *b) && !u.iter().any(|(a, b)| *a <= x1 && x0 <= *b)
}

fn a_dist_pt_seg(p: P2, a: P2, b: P2) -> f64 {
    let (dx, dy) = (b[0] - a[0], b[1] - a[1]);
    let l2 = dx * dx + dy * dy;
    let t = if l2 > 0.0 { (((p[0] - a[0]) * dx + (p[1] - a[1]) * dy) / l2).max(0.0).min(1.0) } else { 0.0 };
    let (ex, ey) = (a[0] + t * dx - p[0], a[1] + t * dy - p[1]);
    (ex * ex + ey * ey).sqrt()
}

/// Is `t` the direction of the outline where it passes `p`?  lyon reports the direction of the chord of its own
/// flattening; the arc under a chord stays within the tolerance of the chord's line and (mean value theorem)
/// is parallel to the chord somewhere: walk the fine outline from every piece that passes within `d` of `p`
/// as long as it stays within `d` of the line (p, t) and look for a parallel piece (or a bracketing pair).
fn a_tangent_ok(rings: &[Vec<P2>], p: P2, t: P2, d: f64) -> bool {
    for ring in rings {
        let n = ring.len();
        if n < 2 {
            continue;
        }
        let line_dist = |q: P2| ((q[0] - p[0]) * t[1] - (q[1] - p[1]) * t[0]).abs();
        let cross = |j: usize| -> f64 {
            let (a, b) = (ring[j % n], ring[(j + 1) % n]);
            let (dx, dy) = (b[0] - a[0], b[1] - a[1]);
            let l = (dx * dx + dy * dy).sqrt();
            (dx * t[1] - dy * t[0]) / l
        };
        for i in 0..n {
            if a_dist_pt_seg(p, ring[i], ring[(i + 1) % n]) > d {
                continue;
            }
            let c0 = cross(i);
            if c0.abs() <= 0.03 {
                return true;
            }
            // forward
            let mut prev = c0;
            let mut j = i;
            for _ in 0..n {
                if line_dist(ring[(j + 1) % n]) > d {
                    break;
                }
                j += 1;
                let c = cross(j);
                if c.abs() <= 0.03 || (c * prev < 0.0 && c.abs() < 0.5 && prev.abs() < 0.5) {
                    return true;
                }
                prev = c;
            }
            // backward
            let mut prev = c0;
            let mut j = i + n;
            for _ in 0..n {
                if line_dist(ring[j % n]) > d {
                    break;
                }
                j -= 1;
                if j == 0 {
                    break;
                }
                let c = cross(j);
                if c.abs() <= 0.03 || (c * prev < 0.0 && c.abs() < 0.5 && prev.abs() < 0.5) {
                    return true;
                }
                prev = c;
            }
        }
    }
    false
}

#[derive(Clone, Copy, Debug)]
struct SegRec {
    row: u32,
    v: f32,
    au: f32,
    bu: f32,
    ap: Point,
    bp: Point,
    at: Vector,
    bt: Vector,
    calls: u32,
}

impl SegRec {
    fn of(s: &HatchSegment, calls: u32) -> Self {
        SegRec { row: s.row, v: s.v, au: s.a.u, bu: s.b.u, ap: s.a.position, bp: s.b.position, at: s.a.tangent, bt: s.b.tangent, calls }
    }
    fn bits(&self) -> [u32; 13] {
        [self.row, self.v.to_bits(), self.au.to_bits(), self.bu.to_bits(), self.ap.x.to_bits(), self.ap.y.to_bits(), self.bp.x.to_bits(), self.bp.y.to_bits(), self.at.x.to_bits(), self.at.y.to_bits(), self.bt.x.to_bits(), self.bt.y.to_bits(), self.calls]
    }
}

const A_ROW_LIMIT: usize = 3000;
const A_SEG_LIMIT: usize = 60000;

struct HRec {
    offsets: Vec<f32>,
    calls: Vec<(u32, f32)>,
    segs: Vec<SegRec>,
    limit_hit: bool,
}

impl HatchBuilder for HRec {
    fn add_segment(&mut self, s: &HatchSegment) {
        if self.segs.len() >= A_SEG_LIMIT {
            self.limit_hit = true;
            return;
        }
        self.segs.push(SegRec::of(s, self.calls.len() as u32));
    }
    fn next_offset(&mut self, row: u32) -> f32 {
        let k = self.calls.len();
        if k >= A_ROW_LIMIT {
            // the harness' guard against an endless sweep: an infinite offset ends it
            self.limit_hit = true;
            return f32::INFINITY;
        }
        let o = self.offsets[k % self.offsets.len()];
        self.calls.push((row, o));
        o
    }
}

#[derive(Clone)]
struct ACase {
    label: String,
    subs: Vec<Sub>,
    angle: f32,
    tol: f32,
    uv: (f32, f32),
    tangents: bool,
    regular: bool,
    offsets: Vec<f32>,
}

struct HOut {
    segs: Vec<SegRec>,
    calls: Vec<(u32, f32)>,
    limit_hit: bool,
}

fn a_hatch(h: &mut Hatcher, path: &Path, c: &ACase) -> HOut {
    use lyon_algorithms::hatching::RegularHatchingPattern;
    let mut opts = HatchingOptions::DEFAULT.with_angle(Angle::radians(c.angle)).with_tolerance(c.tol).with_tangents(c.tangents);
    opts.uv_origin = point(c.uv.0, c.uv.1);
    if c.regular {
        let mut segs: Vec<SegRec> = Vec::new();
        let mut hit = false;
        h.hatch_path(
            path.iter(),
            &opts,
            &mut RegularHatchingPattern {
                interval: c.offsets[0],
                callback: &mut |s: &HatchSegment| {
                    if segs.len() < A_SEG_LIMIT {
                        segs.push(SegRec::of(s, u32::MAX))
                    } else {
                        hit = true
                    }
                },
            },
        );
        HOut { segs, calls: vec![], limit_hit: hit }
    } else {
        let mut rec = HRec { offsets: c.offsets.clone(), calls: vec![], segs: vec![], limit_hit: false };
        h.hatch_path(path.iter(), &opts, &mut rec);
        HOut { segs: rec.segs, calls: rec.calls, limit_hit: rec.limit_hit }
    }
}

struct Frame {
    sn: f64,
    cs: f64,
    rr: Vec<Vec<P2>>,
    ymin: f64,
    ymax: f64,
    scale: f64,
    uvo: P2,
    eps: f64,
    d: f64,
    slack: f64,
}

/// `exact`: the rings are the polygon that is hatched (nothing but rounding between it and lyon's edges);
/// otherwise curves may be `dmul` tolerances away from the reference
#[derive(Clone, Copy)]
struct Mode {
    exact: bool,
    dmul: f64,
}

#[derive(Default)]
struct Sink {
    errs: Vec<(String, String)>,
    ctr: std::collections::BTreeMap<&'static str, u64>,
}

impl Sink {
    fn fail(&mut self, what: &str, detail: String) {
        self.errs.push((what.to_string(), detail));
    }
    fn inc(&mut self, k: &'static str) {
        *self.ctr.entry(k).or_insert(0) += 1;
    }
    fn add(&mut self, k: &'static str, n: u64) {
        *self.ctr.entry(k).or_insert(0) += n;
    }
    fn flush_counters(&self, st: &mut Stats) {
        for (k, v) in &self.ctr {
            st.add(k, *v);
        }
    }
}

impl Frame {
    fn rot(&self, p: P2) -> P2 {
        [p[0] * self.cs - p[1] * self.sn, p[1] * self.cs + p[0] * self.sn]
    }
    fn rotp(&self, p: Point) -> P2 {
        self.rot([p.x as f64, p.y as f64])
    }
    fn new(rings: &[Vec<P2>], angle: f32, uv: (f32, f32), tol: f32, curved: bool, mode: Mode) -> Frame {
        let (sn, cs) = (angle as f64).sin_cos();
        let mut f = Frame { sn, cs, rr: vec![], ymin: f64::INFINITY, ymax: f64::NEG_INFINITY, scale: 1.0, uvo: [0.0, 0.0], eps: 0.0, d: 0.0, slack: 0.0 };
        f.rr = rings.iter().map(|r| r.iter().map(|p| f.rot(*p)).collect()).collect();
        for ring in &f.rr {
            if ring.len() < 2 {
                continue;
            }
            for p in ring {
                f.ymin = f.ymin.min(p[1]);
                f.ymax = f.ymax.max(p[1]);
                f.scale = f.scale.max(p[0].abs()).max(p[1].abs());
            }
        }
        f.uvo = f.rot([uv.0 as f64, uv.1 as f64]);
        f.scale = f.scale.max(f.uvo[0].abs()).max(f.uvo[1].abs());
        // f32 rounding of rotated coordinates
        f.eps = 2e-5 * f.scale;
        // how far the hatched outline may be from the true one: nothing but rounding for polygons,
        // the flattening tolerance (+ the reference's own 5e-5) for curves
        f.slack = if curved && !mode.exact { mode.dmul * tol as f64 + 1e-4 } else { 0.0 };
        f.d = if curved && !mode.exact { f.slack + f.eps } else { 2.5 * f.eps };
        f
    }
}

fn a_fail(st: &mut Stats, what: &str, label: &str, detail: String) {
    st.fail(jobj(&[("what", jstr(what)), ("input", jstr(&format!("{} :: {}", label, detail)))]));
}

/// checks 1-3 on the output of one hatch_path call; returns false if anything failed
fn a_check_hatch(sk: &mut Sink, c: &ACase, rings: &[Vec<P2>], out: &HOut, mode: Mode) -> bool {
    let fr = Frame::new(rings, c.angle, c.uv, c.tol, a_curved(&c.subs), mode);
    let fails0 = sk.errs.len();
    if fr.ymin > fr.ymax {
        // nothing but points: no output
        if !out.segs.is_empty() {
            sk.fail("audit: a path without any edge produced hatches", format!("{} segments", out.segs.len()));
        }
        return out.segs.is_empty();
    }
    let (eps, d) = (fr.eps, fr.d);
    // ---- the offsets the pattern returned
    if !c.regular {
        for (k, (row, _)) in out.calls.iter().enumerate() {
            if *row as usize != k {
                sk.fail("audit: next_offset is not asked for rows 0, 1, 2, ... in turn", format!("call {} asked for row {}", k, row));
                break;
            }
        }
    }
    let off = |k: usize| -> f64 {
        if c.regular {
            c.offsets[0] as f64
        } else if k < out.calls.len() {
            out.calls[k].1 as f64
        } else {
            c.offsets[k % c.offsets.len()] as f64
        }
    };
    let mut cum: Vec<f64> = Vec::new();
    let mut cum_to = |k: usize| -> f64 {
        while cum.len() <= k {
            let s = cum.last().copied().unwrap_or(0.0);
            let i = cum.len();
            cum.push(s + off(i));
        }
        cum[k]
    };
    // ---- per segment: fields, row line, order
    let mut base: Option<f64> = None;
    let mut prev: Option<&SegRec> = None;
    let tan_step = (2 * out.segs.len() / 40).max(1);
    let mut tan_ctr = 0usize;
    for s in &out.segs {
        if s.row as usize > A_ROW_LIMIT + 1 || sk.errs.len() > fails0 {
            break;
        }
        let (pa, pb) = (fr.rotp(s.ap), fr.rotp(s.bp));
        let det = || format!("row {} v {} a=({:?}, u {}) b=({:?}, u {})", s.row, s.v, s.ap, s.au, s.bp, s.bu);
        // 3. (u, v) is the rotated position relative to the rotated uv origin
        let e = (pa[0] - fr.uvo[0] - s.au as f64).abs().max((pb[0] - fr.uvo[0] - s.bu as f64).abs()).max((pa[1] - fr.uvo[1] - s.v as f64).abs()).max((pb[1] - fr.uvo[1] - s.v as f64).abs());
        if !(e <= eps) {
            sk.fail("audit: HatchSegment position is not the point (u, v) of the rotated frame at uv_origin", format!("{} off by {}", det(), e));
            break;
        }
        // 1. row numbering and row line
        if !c.regular && (s.calls == 0 || s.row != s.calls - 1) {
            sk.fail("audit: HatchSegment::row is not the number of rows swept before it", format!("{} after {} next_offset calls", det(), s.calls));
            break;
        }
        let cr = cum_to(s.row as usize);
        let b0 = *base.get_or_insert(pa[1] - cr);
        let rowtol = eps + 2e-6 * fr.scale * (s.row as f64 + 1.0);
        if !((pa[1] - cr - b0).abs() <= rowtol && (pb[1] - cr - b0).abs() <= rowtol) {
            sk.fail("audit: rows are not spaced by the offsets the pattern returned (or an end point is off its row line)", format!("{} y' {} / {} expected {}", det(), pa[1], pb[1], b0 + cr));
            break;
        }
        // 2. order within the row, rows in order
        if !(s.au <= s.bu) {
            sk.fail("audit: hatch segment end points are not ordered (a.u <= b.u)", det());
            break;
        }
        if let Some(p) = prev {
            if s.row < p.row || (s.row == p.row && !(s.au >= p.bu)) {
                sk.fail("audit: hatch segments are not emitted in order / overlap", format!("{} after row {} b.u {}", det(), p.row, p.bu));
                break;
            }
        }
        prev = Some(s);
        // 3. tangents
        if c.tangents {
            for (pos, t) in [(s.ap, s.at), (s.bp, s.bt)] {
                let (tx, ty) = (t.x as f64, t.y as f64);
                let len = (tx * tx + ty * ty).sqrt();
                let down = fr.rot([tx, ty])[1];
                if !((len - 1.0).abs() <= 1e-3 && down >= -1e-3) {
                    sk.fail("audit: tangent is not a unit vector pointing to increasing v", format!("{} tangent {:?}", det(), t));
                    break;
                }
                tan_ctr += 1;
                if tan_ctr % tan_step == 0 {
                    sk.inc("audit_tangents_checked");
                    if !a_tangent_ok(rings, [pos.x as f64, pos.y as f64], [tx / len, ty / len], d + eps) {
                        sk.fail("audit: tangent is not the direction of the outline at the end point", format!("{} end {:?} tangent {:?}", det(), pos, t));
                        break;
                    }
                }
            }
        } else if !(s.at.x.is_nan() && s.at.y.is_nan() && s.bt.x.is_nan() && s.bt.y.is_nan()) {
            sk.fail("audit: compute_tangents off, yet the tangent fields hold numbers (stale?)", format!("{} tangents {:?} {:?}", det(), s.at, s.bt));
            break;
        }
    }
    // first row: offset(0) below the top of the (flattened) outline
    let slack = fr.slack;
    let mut dd = d;
    let base = match base {
        Some(b) => {
            if !(b >= fr.ymin - slack - eps && b <= fr.ymin + slack + eps) {
                sk.fail("audit: row 0 is not offset(0) below the top of the outline", format!("rows start from y' {} but the outline's top is {}", b, fr.ymin));
            }
            b
        }
        None => {
            // no output: the position of lyon's rows is known up to the tolerance only
            dd += slack;
            fr.ymin
        }
    };
    // ---- 2. per row: emitted union == interior intervals, up to the points within d of the outline
    if out.limit_hit {
        sk.inc("audit_row_limit_hit");
    }
    let mut k = 0usize;
    let mut last_row_checked = 0usize;
    let mut idx = 0usize;
    let mut ok_rows = true;
    while !out.limit_hit && k < A_ROW_LIMIT {
        let y = base + cum_to(k);
        if y.is_nan() || y > fr.ymax + dd + eps {
            break;
        }
        last_row_checked = k;
        let (r, u) = a_row_ref(&fr.rr, y, dd);
        while idx < out.segs.len() && (out.segs[idx].row as usize) < k {
            idx += 1;
        }
        let mut e: Vec<(f64, f64)> = Vec::new();
        while idx < out.segs.len() && out.segs[idx].row as usize == k {
            let s = &out.segs[idx];
            let (xa, xb) = (fr.rotp(s.ap)[0], fr.rotp(s.bp)[0]);
            if xb - xa <= 1e-9 {
                sk.inc("audit_zero_length_segments");
                // a point: must be on the closed interior or near the outline
                if !(r.iter().any(|(a, b)| *a - eps <= xa && xa <= *b + eps) || a_within(&u, xa, xa)) {
                    sk.fail("audit: zero-length hatch segment away from the shape", format!("row {} y' {} x' {}", k, y, xa));
                    ok_rows = false;
                }
            } else {
                e.push((xa, xb));
            }
            idx += 1;
        }
        sk.inc("audit_rows");
        if !r.is_empty() {
            sk.inc("audit_rows_meeting_interior");
        }
        if fr.rr.iter().any(|ring| ring.iter().any(|p| (p[1] - y).abs() <= eps)) {
            sk.inc("audit_rows_through_vertex");
        }
        for (l, rt, in_e) in a_xor(&e, &r) {
            if rt - l > 1e-9 && !a_within(&u, l, rt) {
                let what = if in_e { "audit: hatch segment covers points outside the even-odd interior (beyond the tolerance)" } else { "audit: interior points of a row (farther than the tolerance from the outline) are not hatched" };
                sk.fail(what, format!("row {} y' {} x' in [{}, {}] emitted {:?} reference {:?}", k, y, l, rt, e, r));
                ok_rows = false;
                break;
            }
        }
        if !ok_rows {
            break;
        }
        // a non-positive offset (after the first) ends the hatching: see the report
        if off(k + 1) <= 0.0 {
            sk.inc("audit_stopped_by_nonpositive_offset");
            break;
        }
        k += 1;
    }
    if !out.limit_hit && ok_rows {
        if let Some(s) = out.segs.iter().find(|s| s.row as usize > last_row_checked) {
            if s.bu > s.au {
                sk.fail("audit: hatch segment on a row beyond the shape", format!("row {} (last row meeting the shape: {})", s.row, last_row_checked));
            }
        }
    }
    sk.add("audit_segments", out.segs.len() as u64);
    sk.errs.len() == fails0
}

// ---------------------------------------------------------------------------------- dots
#[derive(Clone, Copy, Debug)]
struct DotRec {
    pos: Point,
    u: f32,
    v: f32,
    column: u32,
    row: u32,
}

#[derive(Clone, Copy, Debug)]
enum DEv {
    Seg(u32),
    Dot(DotRec),
    Col(u32, u32, f32),
    Row(u32, u32, f32),
}

impl DEv {
    fn bits(&self) -> [u32; 7] {
        match self {
            DEv::Seg(r) => [0, *r, 0, 0, 0, 0, 0],
            DEv::Dot(d) => [1, d.pos.x.to_bits(), d.pos.y.to_bits(), d.u.to_bits(), d.v.to_bits(), d.column, d.row],
            DEv::Col(c, r, o) => [2, *c, *r, o.to_bits(), 0, 0, 0],
            DEv::Row(c, r, o) => [3, *c, *r, o.to_bits(), 0, 0, 0],
        }
    }
}

const A_DOT_LIMIT: usize = 200000;

struct DRec {
    fco: f32,
    align: Option<f32>,
    row_offs: Vec<f32>,
    col_offs: Vec<f32>,
    ev: Vec<DEv>,
    nrow: usize,
    ncol: usize,
    limit_hit: bool,
}

impl DotBuilder for DRec {
    fn first_column_offset(&mut self, row: u32) -> f32 {
        self.ev.push(DEv::Seg(row));
        self.fco
    }
    fn alignment(&mut self, _row: u32) -> Option<f32> {
        self.align
    }
    fn next_row_offset(&mut self, column: u32, row: u32) -> f32 {
        if self.nrow >= A_ROW_LIMIT {
            self.limit_hit = true;
            return f32::INFINITY;
        }
        let o = self.row_offs[self.nrow % self.row_offs.len()];
        self.nrow += 1;
        self.ev.push(DEv::Row(column, row, o));
        o
    }
    fn next_column_offset(&mut self, column: u32, row: u32) -> f32 {
        if self.ncol >= A_DOT_LIMIT {
            self.limit_hit = true;
            return f32::INFINITY;
        }
        let o = self.col_offs[self.ncol % self.col_offs.len()];
        self.ncol += 1;
        self.ev.push(DEv::Col(column, row, o));
        o
    }
    fn add_dot(&mut self, d: &Dot) {
        self.ev.push(DEv::Dot(DotRec { pos: d.position, u: d.u, v: d.v, column: d.column, row: d.row }));
    }
}

#[derive(Clone, Debug)]
struct DCase {
    regular: bool,
    row_offs: Vec<f32>,
    col_offs: Vec<f32>,
    fco: f32,
    align: Option<f32>,
}

fn a_dots(h: &mut Hatcher, path: &Path, c: &ACase, dc: &DCase) -> (Vec<DEv>, bool) {
    use lyon_algorithms::hatching::RegularDotPattern;
    let mut opts = DotOptions::DEFAULT.with_angle(Angle::radians(c.angle)).with_tolerance(c.tol);
    opts.uv_origin = point(c.uv.0, c.uv.1);
    if dc.regular {
        let mut ev: Vec<DEv> = Vec::new();
        let mut hit = false;
        h.dot_path(
            path.iter(),
            &opts,
            &mut RegularDotPattern {
                row_interval: dc.row_offs[0],
                column_interval: dc.col_offs[0],
                callback: &mut |d: &Dot| {
                    if ev.len() < A_DOT_LIMIT {
                        ev.push(DEv::Dot(DotRec { pos: d.position, u: d.u, v: d.v, column: d.column, row: d.row }))
                    } else {
                        hit = true
                    }
                },
            },
        );
        (ev, hit)
    } else {
        let mut rec = DRec { fco: dc.fco, align: dc.align, row_offs: dc.row_offs.clone(), col_offs: dc.col_offs.clone(), ev: vec![], nrow: 0, ncol: 0, limit_hit: false };
        h.dot_path(path.iter(), &opts, &mut rec);
        (rec.ev, rec.limit_hit)
    }
}

/// check 4 on the output of one dot_path call
fn a_check_dots(sk: &mut Sink, c: &ACase, dc: &DCase, rings: &[Vec<P2>], ev: &[DEv], limit_hit: bool, mode: Mode) {
    let fr = Frame::new(rings, c.angle, c.uv, c.tol, a_curved(&c.subs), mode);
    let ndots = ev.iter().filter(|e| matches!(e, DEv::Dot(_))).count();
    sk.add("audit_dots", ndots as u64);
    if fr.ymin > fr.ymax {
        if ndots != 0 {
            sk.fail("audit: a path without any edge produced dots", format!("{} dots", ndots));
        }
        return;
    }
    let (eps, d) = (fr.eps, fr.d);
    let roff = |k: usize| -> f64 { dc.row_offs[if dc.regular { 0 } else { k % dc.row_offs.len() }] as f64 };
    let mut cum: Vec<f64> = Vec::new();
    let mut cum_to = |k: usize| -> f64 {
        while cum.len() <= k {
            let s = cum.last().copied().unwrap_or(0.0);
            let i = cum.len();
            cum.push(s + roff(i));
        }
        cum[k]
    };
    // the lattice, if the pattern defines one: u = fco + j * dl relative to uv_origin
    let lattice: Option<(f64, f64)> = if dc.regular {
        Some((dc.col_offs[0] as f64, 0.0))
    } else {
        match dc.align {
            Some(a) if dc.col_offs.iter().all(|o| *o == a) && dc.fco >= 0.0 => Some((a as f64, dc.fco as f64)),
            _ => None,
        }
    };
    // ---- pass 1: fields, numbering, spacing along the row
    let mut cur_row: i64 = -1;
    let mut col_in_row = 0u32;
    let mut base: Option<f64> = None;
    let mut by_row: std::collections::BTreeMap<u32, Vec<f64>> = Default::default();
    let mut firsts: Vec<(u32, f64)> = Vec::new(); // first dot of a hatch segment: row, x'
    let mut ends: Vec<(u32, f64, f64)> = Vec::new(); // last dot of a hatch segment: row, x', the offset returned after it
    let mut prev_in_seg: Option<(DotRec, f64)> = None;
    let mut last_col: Option<f32> = None;
    let mut seg_fresh = false;
    let mut prev_dot: Option<DotRec> = None;
    let mut bad = false;
    let close = |prev_in_seg: &mut Option<(DotRec, f64)>, last_col: &mut Option<f32>, ends: &mut Vec<(u32, f64, f64)>| {
        if let (Some((p, x)), Some(o)) = (prev_in_seg.take(), last_col.take()) {
            if o > 0.0 && o.is_finite() {
                ends.push((p.row, x, o as f64));
            }
        }
    };
    for e in ev {
        match e {
            DEv::Seg(_) => {
                close(&mut prev_in_seg, &mut last_col, &mut ends);
                seg_fresh = true;
            }
            DEv::Row(_, _, _) => {
                close(&mut prev_in_seg, &mut last_col, &mut ends);
                cur_row += 1;
                col_in_row = 0;
            }
            DEv::Col(_, _, o) => last_col = Some(*o),
            DEv::Dot(dt) => {
                let p = fr.rotp(dt.pos);
                let det = format!("dot {:?}", dt);
                if !(dt.pos.x.is_finite() && dt.pos.y.is_finite() && dt.u.is_finite() && dt.v.is_finite()) {
                    sk.fail("audit: dot with a non-finite position", det);
                    bad = true;
                    break;
                }
                let e3 = (p[0] - fr.uvo[0] - dt.u as f64).abs().max((p[1] - fr.uvo[1] - dt.v as f64).abs());
                if !(e3 <= eps) {
                    sk.fail("audit: Dot position is not the point (u, v) of the rotated frame at uv_origin", format!("{} off by {}", det, e3));
                    bad = true;
                    break;
                }
                if dc.regular {
                    if let Some(pd) = prev_dot {
                        if dt.row < pd.row {
                            sk.fail("audit: dots are not emitted row by row", det.clone());
                            bad = true;
                            break;
                        }
                        if dt.row != pd.row {
                            col_in_row = 0;
                        }
                    }
                } else if dt.row as i64 != cur_row {
                    sk.fail("audit: Dot::row is not the number of rows swept before it", format!("{} in row {}", det, cur_row));
                    bad = true;
                    break;
                }
                if dt.column != col_in_row {
                    sk.fail("audit: Dot::column is not the ordinal of the dot in its row", format!("{} is dot number {} of the row", det, col_in_row));
                    bad = true;
                    break;
                }
                col_in_row += 1;
                if let Some(pd) = prev_dot {
                    if pd.row == dt.row && !(dt.u >= pd.u) {
                        sk.fail("audit: dots of a row are not emitted in order", format!("{} after u {}", det, pd.u));
                        bad = true;
                        break;
                    }
                }
                let cr = cum_to(dt.row as usize);
                let b0 = *base.get_or_insert(p[1] - cr);
                if !((p[1] - cr - b0).abs() <= eps + 2e-6 * fr.scale * (dt.row as f64 + 1.0)) {
                    sk.fail("audit: dot rows are not spaced by the row offsets the pattern returned", format!("{} y' {} expected {}", det, p[1], b0 + cr));
                    bad = true;
                    break;
                }
                if let Some((dl, fco)) = lattice {
                    let q = (dt.u as f64 - fco) / dl;
                    if !((q - q.round()).abs() * dl <= 5.0 * eps) {
                        sk.fail("audit: dot is not on the lattice the pattern defines (alignment)", format!("{} (u - first_column_offset) / alignment = {}", det, q));
                        bad = true;
                        break;
                    }
                }
                if !dc.regular {
                    if seg_fresh {
                        firsts.push((dt.row, p[0]));
                        seg_fresh = false;
                    } else if let (Some((pd, _)), Some(o)) = (prev_in_seg, last_col) {
                        if !((dt.u as f64 - pd.u as f64 - o as f64).abs() <= 5.0 * eps) {
                            sk.fail("audit: consecutive dots of a hatch segment are not spaced by the column offset the pattern returned", format!("{} previous u {} offset {}", det, pd.u, o));
                            bad = true;
                            break;
                        }
                    }
                    prev_in_seg = Some((*dt, p[0]));
                    last_col = None;
                }
                by_row.entry(dt.row).or_default().push(p[0]);
                prev_dot = Some(*dt);
            }
        }
    }
    close(&mut prev_in_seg, &mut last_col, &mut ends);
    if bad {
        return;
    }
    let slack = fr.slack;
    let mut dd = d;
    let base = match base {
        Some(b) => {
            if !(b >= fr.ymin - slack - eps && b <= fr.ymin + slack + eps) {
                sk.fail("audit: dot row 0 is not the first row offset below the top of the outline", format!("rows start from y' {} but the outline's top is {}", b, fr.ymin));
            }
            b
        }
        None => {
            dd += slack;
            fr.ymin
        }
    };
    if limit_hit {
        sk.inc("audit_dot_limit_hit");
        return;
    }
    // ---- pass 2: per row against the interior intervals
    let empty: Vec<f64> = Vec::new();
    let mut k = 0usize;
    let mut last_row = 0usize;
    while k < A_ROW_LIMIT {
        let y = base + cum_to(k);
        if y.is_nan() || y > fr.ymax + dd + eps {
            break;
        }
        last_row = k;
        let (r, u) = a_row_ref(&fr.rr, y, dd);
        let xs = by_row.get(&(k as u32)).unwrap_or(&empty);
        for x in xs {
            sk.inc("audit_dots_checked");
            if !(r.iter().any(|(a, b)| *a - eps <= *x && *x <= *b + eps) || a_within(&u, *x, *x)) {
                sk.fail("audit: dot lies outside the shape (farther than the tolerance from the outline)", format!("row {} y' {} x' {} interior {:?}", k, y, x, r));
                return;
            }
        }
        for (row, x) in firsts.iter().filter(|f| f.0 as usize == k) {
            let start = *x - dc.fco as f64;
            match dc.align {
                None => {
                    // first dot = left end of the interval + first_column_offset
                    if !a_within(&u, start, start) {
                        sk.fail("audit: first dot of a segment is not first_column_offset after the left end of an interior interval", format!("row {} x' {} interior {:?}", row, x, r));
                        return;
                    }
                }
                Some(al) => {
                    // the smallest multiple of the alignment after the left end: the previous one must not be well inside the same interval
                    if a_def_inside(&r, &u, start - al as f64, start) {
                        sk.fail("audit: first dot of a segment skips an aligned position inside the interval", format!("row {} x' {} interior {:?}", row, x, r));
                        return;
                    }
                }
            }
        }
        for (row, x, o) in ends.iter().filter(|f| f.0 as usize == k) {
            if a_def_inside(&r, &u, *x, *x + *o) {
                sk.fail("audit: a row of dots stops although the next position is well inside the same interval", format!("row {} last x' {} + offset {} interior {:?}", row, x, o, r));
                return;
            }
        }
        if let Some((dl, fco)) = lattice {
            for (l, rt) in &r {
                let j0 = ((*l - fr.uvo[0] - fco) / dl).ceil() as i64;
                let j1 = ((*rt - fr.uvo[0] - fco) / dl).floor() as i64;
                for j in j0..=j1 {
                    let x = j as f64 * dl + fco + fr.uvo[0];
                    if a_def_inside(&r, &u, x - fco - 2.0 * eps, x + 2.0 * eps) {
                        sk.inc("audit_lattice_points_inside");
                        if !xs.iter().any(|q| (*q - x).abs() <= 5.0 * eps + 1e-4) {
                            sk.fail("audit: a lattice point well inside the shape has no dot", format!("row {} y' {} x' {} (u {}) dots at x' {:?}", k, y, x, x - fr.uvo[0], xs));
                            return;
                        }
                    }
                }
            }
        }
        if roff(k + 1) <= 0.0 {
            break;
        }
        k += 1;
    }
    if let Some((row, _)) = by_row.iter().find(|(row, _)| **row as usize > last_row) {
        sk.fail("audit: dots on a row beyond the shape", format!("row {} (last row meeting the shape: {})", row, last_row));
    }
}

// ---------------------------------------------------------------------------------- inputs
fn a_poly(pts: &[(f32, f32)], close: bool) -> Sub {
    Sub { s: pts[0], g: pts[1..].iter().map(|p| Sg::L(*p)).collect(), close }
}

fn a_rect(x0: f32, y0: f32, x1: f32, y1: f32, ccw: bool, close: bool) -> Sub {
    if ccw {
        a_poly(&[(x0, y0), (x0, y1), (x1, y1), (x1, y0)], close)
    } else {
        a_poly(&[(x0, y0), (x1, y0), (x1, y1), (x0, y1)], close)
    }
}

fn a_circle_cubic(cx: f32, cy: f32, r: f32, rev: bool) -> Sub {
    let k = 0.552_284_75 * r;
    let s = if rev { -1.0 } else { 1.0 };
    Sub {
        s: (cx + r, cy),
        g: vec![
            Sg::C((cx + r, cy + s * k), (cx + k, cy + s * r), (cx, cy + s * r)),
            Sg::C((cx - k, cy + s * r), (cx - r, cy + s * k), (cx - r, cy)),
            Sg::C((cx - r, cy - s * k), (cx - k, cy - s * r), (cx, cy - s * r)),
            Sg::C((cx + k, cy - s * r), (cx + r, cy - s * k), (cx + r, cy)),
        ],
        close: true,
    }
}

fn a_circle_quad(cx: f32, cy: f32, r: f32) -> Sub {
    // 8 quadratic arcs
    let n = 8;
    let pt = |a: f32, rr: f32| (cx + rr * a.cos(), cy + rr * a.sin());
    let step = std::f32::consts::TAU / n as f32;
    let rc = r / (step * 0.5).cos();
    let mut g = Vec::new();
    for i in 0..n {
        g.push(Sg::Q(pt(step * (i as f32 + 0.5), rc), pt(step * (i as f32 + 1.0), r)));
    }
    Sub { s: pt(0.0, r), g, close: true }
}

fn a_gen_subs(rng: &mut Rng, fam: u64) -> Vec<Sub> {
    let li = |r: &mut Rng| (r.range(-4, 8) as f32, r.range(-4, 8) as f32);
    let gp = |r: &mut Rng| (r.range(-6, 10) as f32, r.range(-6, 10) as f32);
    match fam {
        // random lattice polygons, open and closed
        0 => (0..1 + rng.below(3))
            .map(|_| {
                let k = 3 + rng.below(4) as usize;
                let pts: Vec<(f32, f32)> = (0..k).map(|_| li(rng)).collect();
                a_poly(&pts, rng.chance(1, 2))
            })
            .collect(),
        // nested rectangles: holes under even-odd whatever the orientation
        1 => {
            let mut v = vec![a_rect(-4.0, -3.0, 8.0, 7.0, false, true)];
            v.push(a_rect(-2.0, -1.0, 6.0, 5.0, rng.chance(1, 2), rng.chance(2, 3)));
            if rng.chance(1, 2) {
                v.push(a_rect(0.0, 1.0, 3.0, 3.0, rng.chance(1, 2), true));
            }
            if rng.chance(1, 3) {
                v.push(a_rect(4.0, 0.0, 5.0, 4.0, rng.chance(1, 2), true));
            }
            if rng.chance(1, 2) {
                // inside the outer rectangle, sharing a part of one of its edges
                let x = rng.range(-3, 4) as f32;
                let w = rng.range(1, 3) as f32;
                v.push(match rng.below(4) {
                    0 => a_rect(x, -3.0, x + w, -2.0, rng.chance(1, 2), true),
                    1 => a_rect(x, 6.0, x + w, 7.0, rng.chance(1, 2), true),
                    2 => a_rect(-4.0, x.min(4.0), -3.0, x.min(4.0) + w, rng.chance(1, 2), true),
                    _ => a_rect(7.0, x.min(4.0), 8.0, x.min(4.0) + w, rng.chance(1, 2), true),
                });
            }
            v
        }
        // overlapping rectangles
        2 => (0..2 + rng.below(2))
            .map(|_| {
                let (x0, y0) = (rng.range(-4, 4) as f32, rng.range(-4, 4) as f32);
                let (w, h) = (rng.range(1, 6) as f32, rng.range(1, 6) as f32);
                a_rect(x0, y0, x0 + w, y0 + h, rng.chance(1, 2), rng.chance(3, 4))
            })
            .collect(),
        // self-intersecting: star polygons, bow ties
        3 => {
            if rng.chance(1, 3) {
                vec![a_poly(&[(0.0, 0.0), (6.0, 6.0), (6.0, 0.0), (0.0, 6.0)], rng.chance(1, 2))]
            } else {
                let n = *rng.pick(&[5usize, 7, 8, 9]);
                let stp = *rng.pick(&[2usize, 3]);
                let r = rng.range(3, 7) as f32;
                let (cx, cy) = (rng.range(-2, 4) as f32, rng.range(-2, 4) as f32);
                let ph = rng.range(0, 7) as f32 * 0.25;
                let pts: Vec<(f32, f32)> = (0..n).map(|i| ((i * stp) % n) as f32 * std::f32::consts::TAU / n as f32 + ph).map(|a| (cx + r * a.cos(), cy + r * a.sin())).collect();
                let mut v = vec![a_poly(&pts, rng.chance(1, 2))];
                if rng.chance(1, 3) {
                    v.push(a_rect(cx - 1.0, cy - 1.0, cx + 1.0, cy + 1.0, true, true));
                }
                v
            }
        }
        // open sub-paths only
        4 => (0..1 + rng.below(2))
            .map(|_| {
                let k = 3 + rng.below(4) as usize;
                let pts: Vec<(f32, f32)> = (0..k).map(|_| li(rng)).collect();
                a_poly(&pts, false)
            })
            .collect(),
        // random lines / quadratics / cubics
        5 => (0..1 + rng.below(2))
            .map(|_| {
                let s = gp(rng);
                let g = (0..1 + rng.below(4))
                    .map(|_| match rng.below(3) {
                        0 => Sg::L(gp(rng)),
                        1 => Sg::Q(gp(rng), gp(rng)),
                        _ => Sg::C(gp(rng), gp(rng), gp(rng)),
                    })
                    .collect();
                Sub { s, g, close: rng.chance(1, 2) }
            })
            .collect(),
        // discs and rings
        6 => {
            let (cx, cy) = (rng.range(-2, 4) as f32 * 0.5, rng.range(-2, 4) as f32 * 0.5);
            let r = rng.range(3, 8) as f32;
            let mut v = vec![if rng.chance(1, 2) { a_circle_cubic(cx, cy, r, false) } else { a_circle_quad(cx, cy, r) }];
            if rng.chance(2, 3) {
                let r2 = r * *rng.pick(&[0.25f32, 0.5, 0.75]);
                v.push(if rng.chance(1, 2) { a_circle_cubic(cx, cy, r2, rng.chance(1, 2)) } else { a_circle_quad(cx + 0.5, cy, r2) });
            }
            if rng.chance(1, 3) {
                v.push(a_circle_cubic(cx + r, cy, r * 0.5, false));
            }
            v
        }
        // repeated points, collinear runs, spikes of zero area
        7 => {
            let k = 3 + rng.below(4) as usize;
            let mut pts: Vec<(f32, f32)> = Vec::new();
            for _ in 0..k {
                let p = li(rng);
                pts.push(p);
                match rng.below(4) {
                    0 => pts.push(p),
                    1 => {
                        let q = li(rng);
                        pts.push(q);
                        pts.push(p);
                    }
                    2 => {
                        let q = li(rng);
                        pts.push(((p.0 + q.0) * 0.5, (p.1 + q.1) * 0.5));
                        pts.push(q);
                    }
                    _ => {}
                }
            }
            let mut v = vec![a_poly(&pts, rng.chance(1, 2))];
            if rng.chance(1, 3) {
                v.push(a_poly(&[li(rng)], true));
            }
            if rng.chance(1, 3) {
                let (p, q) = (li(rng), li(rng));
                v.push(a_poly(&[p, q], rng.chance(1, 2)));
            }
            v
        }
        // loops of a single cubic / quadratic spikes
        8 => {
            let (x, y) = (rng.range(-4, 2) as f32, rng.range(-4, 2) as f32);
            let w = rng.range(4, 9) as f32;
            let mut v = vec![Sub { s: (x, y), g: vec![Sg::C((x + 2.0 * w, y + w), (x - w, y + w), (x + w, y))], close: rng.chance(1, 2) }];
            if rng.chance(1, 2) {
                v.push(Sub { s: (x, y + 1.0), g: vec![Sg::Q((x + w, y + 2.0 * w), (x + w, y + 1.0)), Sg::Q((x + 0.5 * w, y + w), (x, y + 1.0))], close: true });
            }
            v
        }
        // thin and small shapes
        9 => {
            let (x, y) = (rng.range(-4, 4) as f32, rng.range(-4, 4) as f32);
            match rng.below(3) {
                0 => vec![a_rect(x, y, x + 8.0, y + *rng.pick(&[0.001f32, 0.01, 0.3]), false, true)],
                1 => vec![a_poly(&[(x, y), (x + 9.0, y + 0.01), (x + 4.0, y + 7.0), (x + 4.0, y + 6.99)], true)],
                _ => vec![a_rect(x, y, x + 0.03, y + 0.05, true, true), a_circle_cubic(x, y, 0.04, false)],
            }
        }
        // rectilinear "histogram": rows along edges at the axis-parallel angles
        10 => {
            let n = 2 + rng.below(6) as i64;
            let x0 = rng.range(-4, 0) as f32;
            let y0 = rng.range(-4, 2) as f32;
            let mut pts = vec![(x0, y0)];
            for i in 0..n {
                let h = rng.range(1, 6) as f32;
                pts.push((x0 + i as f32, y0 + h));
                pts.push((x0 + i as f32 + 1.0, y0 + h));
            }
            pts.push((x0 + n as f32, y0));
            let mut v = vec![a_poly(&pts, rng.chance(2, 3))];
            if rng.chance(1, 3) {
                v.push(a_rect(x0, y0 - 2.0, x0 + n as f32, y0 + 1.0, rng.chance(1, 2), true));
            }
            v
        }
        // mixed
        _ => {
            let mut v = vec![a_rect(-3.0, -2.0, 5.0, 4.0, rng.chance(1, 2), true), a_circle_cubic(4.0, 3.0, rng.range(2, 4) as f32, rng.chance(1, 2))];
            if rng.chance(1, 2) {
                v.push(Sub { s: gp(rng), g: vec![Sg::Q(gp(rng), gp(rng)), Sg::L(gp(rng))], close: false });
            }
            v
        }
    }
}

fn a_gen(rng: &mut Rng, i: usize) -> (ACase, DCase) {
    use std::f32::consts::{FRAC_PI_2, FRAC_PI_4, PI};
    let fam = (i % 12) as u64;
    let subs = a_gen_subs(rng, fam);
    let angle = match (i / 12) % 10 {
        0 => 0.0,
        1 => FRAC_PI_2,
        2 => PI,
        3 => -FRAC_PI_2,
        4 => FRAC_PI_4 * rng.range(-8, 8) as f32,
        5 => -rng.range(1, 600) as f32 * 0.01,
        6 => 0.26 * rng.range(0, 24) as f32,
        7 => *rng.pick(&[1e-3f32, -1e-3, 2.0 * PI, 3.0 * FRAC_PI_2, FRAC_PI_2 + 1e-4]),
        _ => (rng.unit_f64() * 14.0 - 7.0) as f32,
    };
    let tol = *rng.pick(&[0.01f32, 0.02, 0.05, 0.1, 0.25]);
    let uv = match rng.below(4) {
        0 => (0.0, 0.0),
        1 => (1.5, -2.25),
        _ => (rng.range(-12, 12) as f32 * 0.25, rng.range(-12, 12) as f32 * 0.125),
    };
    let regular = i % 2 == 0;
    let tangents = (i / 2) % 2 == 0;
    let r2 = std::f32::consts::FRAC_1_SQRT_2;
    let axis = matches!((i / 12) % 10, 0 | 1 | 2 | 3);
    let diag = (i / 12) % 10 == 4;
    // spacings that put rows on lattice ordinates at the axis-parallel / diagonal angles
    let pool: &[f32] = if axis { &[1.0, 0.5, 2.0, 0.25, 1.0, 0.5] } else if diag { &[r2, 0.5 * r2, 2.0 * r2, 0.5, 1.0] } else { &[0.25, 0.5, 1.0, 0.375, 1.0 / 3.0, 0.7, 2.5, 1.3] };
    let mut offsets: Vec<f32> = if regular { vec![*rng.pick(pool)] } else { (0..2 + rng.below(5)).map(|_| *rng.pick(pool)).collect() };
    if !regular {
        match rng.below(12) {
            // the first offset may be zero or negative: the sweep starts on / above the top of the outline
            0 => offsets[0] = 0.0,
            1 => offsets[0] = -*rng.pick(pool),
            // a non-positive offset later on
            2 => {
                let k = 1 + rng.below(offsets.len() as u64 - 1) as usize;
                offsets[k] = *rng.pick(&[0.0f32, -0.5, -3.0]);
            }
            _ => {}
        }
    }
    let label = format!("{:?} angle={} tol={} uv={:?} tangents={} {}offsets={:?}", subs, angle, tol, uv, tangents, if regular { "regular " } else { "" }, offsets);
    let dpool: &[f32] = if axis { &[1.0, 0.5] } else if diag { &[r2, 0.5] } else { &[0.5, 0.7, 1.0, 0.35] };
    let dregular = (i / 2) % 3 != 0;
    let ci = *rng.pick(dpool);
    let dc = if dregular {
        DCase { regular: true, row_offs: vec![*rng.pick(dpool)], col_offs: vec![ci], fco: 0.0, align: None }
    } else {
        let mode = rng.below(4);
        DCase {
            regular: false,
            row_offs: (0..1 + rng.below(3)).map(|_| *rng.pick(dpool)).collect(),
            col_offs: if mode == 0 {
                vec![ci]
            } else {
                let mut v: Vec<f32> = (0..1 + rng.below(3)).map(|_| *rng.pick(&[0.5f32, 0.75, 1.0, 0.4])).collect();
                if rng.chance(1, 8) {
                    v.push(0.0);
                }
                v
            },
            fco: *rng.pick(&[0.0f32, 0.0, 0.25, 0.125]),
            align: match mode {
                0 => Some(ci),
                1 => None,
                _ => Some(*rng.pick(&[0.5f32, 1.0, 0.75])),
            },
        }
    };
    (ACase { label, subs, angle, tol, uv, tangents, regular, offsets }, dc)
}


const A_FINE: Mode = Mode { exact: false, dmul: 1.0 };
/// K6 (C09): the flattening tolerance is a target, cubic flattening spends up to 1.2 of it (known finding)
const A_FINE_K6: Mode = Mode { exact: false, dmul: 1.25 };
const A_EXACT: Mode = Mode { exact: true, dmul: 0.0 };

/// Runs the checks against the fine reference; for curved paths also against the polygon lyon_geom's flattening
/// gives at the same tolerance (sharp: nothing but rounding is allowed there).  A mismatch with the fine
/// reference that disappears at 1.25 tolerances while the hatches agree with lyon's own flattening is the
/// known flattening finding K6 of C09, not a hatching defect.
fn a_judge_hatch(st: &mut Stats, c: &ACase, rings: &[Vec<P2>], out: &HOut) {
    let mut sk = Sink::default();
    let ok = a_check_hatch(&mut sk, c, rings, out, A_FINE);
    sk.flush_counters(st);
    let curved = a_curved(&c.subs);
    let mut exact_ok = true;
    if curved {
        let flat = a_lyon_flat(&c.subs, c.tol);
        let mut sx = Sink::default();
        exact_ok = a_check_hatch(&mut sx, c, &flat, out, A_EXACT);
        st.inc("audit_curved_vs_own_flattening");
        for (what, detail) in sx.errs.iter().take(1) {
            a_fail(st, &format!("{} [against lyon_geom's flattening at the same tolerance]", what), &c.label, detail.clone());
        }
    }
    if ok {
        st.inc("audit_hatch_ok");
    } else {
        let mut k6 = false;
        if curved && exact_ok {
            let mut s2 = Sink::default();
            k6 = a_check_hatch(&mut s2, c, rings, out, A_FINE_K6);
        }
        for (what, detail) in sk.errs.iter().take(1) {
            if k6 {
                st.fail(jobj(&[("what", jstr(&format!("{} [holds at 1.25 tolerances and against lyon's own flattening: C09's K6]", what))), ("input", jstr(&format!("{} :: {}", c.label, detail))), ("class", jstr("K6"))]));
            } else if curved && exact_ok {
                // the hatches are exactly those of lyon_geom's flattening at this tolerance, which is farther than
                // 1.25 tolerances from the curve here (tips cut off near cusps / sharp apexes): C09's matter
                st.inc("audit_flattening_farther_than_1_25_tolerances");
                if st.samples.iter().filter(|x| x.starts_with("flattening farther")).count() < 4 {
                    st.samples.push(format!("flattening farther than 1.25 tolerances from the curve: {} :: {} :: {}", what, c.label, detail));
                }
            } else {
                a_fail(st, what, &c.label, detail.clone());
            }
        }
    }
}

fn a_judge_dots(st: &mut Stats, c: &ACase, dc: &DCase, rings: &[Vec<P2>], ev: &[DEv], hit: bool) {
    let label = format!("{} dots {:?}", c.label, dc);
    let mut sk = Sink::default();
    a_check_dots(&mut sk, c, dc, rings, ev, hit, A_FINE);
    sk.flush_counters(st);
    let curved = a_curved(&c.subs);
    let mut exact_ok = true;
    if curved {
        let flat = a_lyon_flat(&c.subs, c.tol);
        let mut sx = Sink::default();
        a_check_dots(&mut sx, c, dc, &flat, ev, hit, A_EXACT);
        exact_ok = sx.errs.is_empty();
        for (what, detail) in sx.errs.iter().take(1) {
            a_fail(st, &format!("{} [against lyon_geom's flattening at the same tolerance]", what), &label, detail.clone());
        }
    }
    if sk.errs.is_empty() {
        st.inc("audit_dots_ok");
    } else {
        let mut k6 = false;
        if curved && exact_ok {
            let mut s2 = Sink::default();
            a_check_dots(&mut s2, c, dc, rings, ev, hit, A_FINE_K6);
            k6 = s2.errs.is_empty();
        }
        for (what, detail) in sk.errs.iter().take(1) {
            if k6 {
                st.fail(jobj(&[("what", jstr(&format!("{} [holds at 1.25 tolerances and against lyon's own flattening: C09's K6]", what))), ("input", jstr(&format!("{} :: {}", label, detail))), ("class", jstr("K6"))]));
            } else if curved && exact_ok {
                st.inc("audit_flattening_farther_than_1_25_tolerances");
            } else {
                a_fail(st, what, &label, detail.clone());
            }
        }
    }
}


/// Rows through vertices and along edges, constructed: lattice shapes at the axis-parallel angles with unit
/// spacings (rows land on lattice ordinates), shapes whose sub-paths share parts of edges, T junctions.
fn a_constructed() -> Vec<(ACase, DCase)> {
    use std::f32::consts::{FRAC_PI_2, PI};
    let shapes: Vec<(&str, Vec<Sub>)> = vec![
        ("two overlapping rectangles sharing a part of an edge", vec![a_rect(-3.0, 0.0, 0.0, 1.0, false, true), a_rect(-2.0, -1.0, -1.0, 1.0, false, true)]),
        ("rectangle in a rectangle on a shared edge", vec![a_rect(-4.0, -3.0, 8.0, 7.0, false, true), a_rect(-1.0, -3.0, 2.0, 1.0, true, true)]),
        ("T", vec![a_poly(&[(0.0, 0.0), (6.0, 0.0), (6.0, 2.0), (4.0, 2.0), (4.0, 6.0), (2.0, 6.0), (2.0, 2.0), (0.0, 2.0)], true)]),
        ("comb", vec![a_poly(&[(0.0, 0.0), (7.0, 0.0), (7.0, 4.0), (6.0, 4.0), (6.0, 1.0), (5.0, 1.0), (5.0, 4.0), (4.0, 4.0), (4.0, 1.0), (3.0, 1.0), (3.0, 3.0), (2.0, 3.0), (2.0, 1.0), (1.0, 1.0), (1.0, 4.0), (0.0, 4.0)], false)]),
        ("diamond and triangle: vertices on rows", vec![a_poly(&[(0.0, -3.0), (3.0, 0.0), (0.0, 3.0), (-3.0, 0.0)], true), a_poly(&[(1.0, 0.0), (5.0, 0.0), (3.0, 2.0)], true)]),
        ("bow tie and square with a common vertex", vec![a_poly(&[(0.0, 0.0), (4.0, 4.0), (4.0, 0.0), (0.0, 4.0)], true), a_rect(2.0, 2.0, 5.0, 5.0, false, true)]),
        ("the same square twice, and once more reversed", vec![a_rect(0.0, 0.0, 4.0, 4.0, false, true), a_rect(0.0, 0.0, 4.0, 4.0, false, true), a_rect(0.0, 0.0, 4.0, 4.0, true, true)]),
    ];
    let mut v = Vec::new();
    for (name, subs) in &shapes {
        for (ai, angle) in [0.0f32, FRAC_PI_2, PI, -FRAC_PI_2].iter().enumerate() {
            for (oi, offsets) in [vec![1.0f32], vec![0.5], vec![0.0, 1.0, 1.0, 0.5, 0.5], vec![2.0, 0.25]].iter().enumerate() {
                let regular = offsets.len() == 1;
                let uv = if oi % 2 == 0 { (0.0, 0.0) } else { (1.0, -2.0) };
                let label = format!("constructed: {} {:?} angle={} uv={:?} {}offsets={:?}", name, subs, angle, uv, if regular { "regular " } else { "" }, offsets);
                let c = ACase { label, subs: subs.clone(), angle: *angle, tol: 0.1, uv, tangents: (ai + oi) % 2 == 0, regular, offsets: offsets.clone() };
                let iv = if oi == 1 { 0.5 } else { 1.0 };
                let dc = if oi < 2 {
                    DCase { regular: true, row_offs: vec![iv], col_offs: vec![iv], fco: 0.0, align: None }
                } else {
                    DCase { regular: false, row_offs: offsets[1..].to_vec(), col_offs: vec![0.5], fco: if oi == 2 { 0.0 } else { 0.25 }, align: Some(0.5) }
                };
                v.push((c, dc));
            }
        }
    }
    v
}

/// The sign convention, on one fixed input: a 10 x 10 square hatched at +30 degrees.
fn a_convention_probe(st: &mut Stats) {
    let c = ACase { label: "square 10x10 at +pi/6".into(), subs: vec![a_rect(0.0, 0.0, 10.0, 10.0, false, true)], angle: std::f32::consts::FRAC_PI_6, tol: 0.1, uv: (0.0, 0.0), tangents: true, regular: true, offsets: vec![1.0] };
    let path = a_build(&c.subs);
    match catch(AssertUnwindSafe(|| a_hatch(&mut Hatcher::new(), &path, &c))) {
        None => a_fail(st, "audit: hatch_path panicked", &c.label, String::new()),
        Some(out) => {
            let (sn, cs) = (c.angle as f64).sin_cos();
            let mut minus = 0;
            let mut plus = 0;
            let mut adv_ok = true;
            let mut prev: Option<SegRec> = None;
            for s in &out.segs {
                let (dx, dy) = ((s.bp.x - s.ap.x) as f64, (s.bp.y - s.ap.y) as f64);
                let l = (dx * dx + dy * dy).sqrt();
                if l < 0.5 {
                    continue;
                }
                if (dx / l - cs).abs() < 1e-3 && (dy / l + sn).abs() < 1e-3 {
                    minus += 1;
                } else if (dx / l - cs).abs() < 1e-3 && (dy / l - sn).abs() < 1e-3 {
                    plus += 1;
                }
                if let Some(p) = prev {
                    if s.row == p.row + 1 {
                        // successive rows advance by the offset along (sin a, cos a)
                        let adv = (s.ap.x - p.ap.x) as f64 * sn + (s.ap.y - p.ap.y) as f64 * cs;
                        if (adv - 1.0).abs() > 1e-3 {
                            adv_ok = false;
                        }
                    }
                }
                prev = Some(*s);
            }
            st.add("audit_convention_rows_along_minus_angle", minus);
            st.add("audit_convention_rows_along_plus_angle", plus);
            if !(minus > 5 && plus == 0 && adv_ok) {
                a_fail(st, "audit: rows do not run along (cos a, -sin a) and advance along (sin a, cos a)", &c.label, format!("minus {} plus {} advance ok {}", minus, plus, adv_ok));
            }
        }
    }
}

fn audit(args: &Args, st: &mut Stats) {
    let mut rng = Rng::new(args.seed ^ 0x2020_a0d1);
    let n = if args.thorough() { 3000 } else { 300 };
    a_convention_probe(st);
    // one hatcher is reused for every input of the audit (hatches and dots, all angles / options)
    let mut warm = Hatcher::new();
    let constructed = a_constructed();
    let nc = constructed.len();
    for i in 0..n + nc {
        let (c, dc) = if i < nc { constructed[i].clone() } else { a_gen(&mut rng, i - nc) };
        st.inc("evaluations");
        st.inc("audit_paths");
        if i < nc {
            st.inc("audit_constructed");
        } else {
            st.inc(&format!("audit_family_{:02}", (i - nc) % 12));
        }
        let path = a_build(&c.subs);
        let rings = a_fine(&c.subs);
        let r = catch(AssertUnwindSafe(|| {
            let f = a_hatch(&mut Hatcher::new(), &path, &c);
            let w = a_hatch(&mut warm, &path, &c);
            (f, w)
        }));
        match r {
            None => {
                a_fail(st, "audit: hatch_path panicked", &c.label, String::new());
                warm = Hatcher::new();
            }
            Some((f, w)) => {
                st.note_case(&c.label, !f.segs.is_empty());
                if f.segs.len() != w.segs.len() || f.segs.iter().zip(w.segs.iter()).any(|(a, b)| a.bits() != b.bits()) || f.calls.len() != w.calls.len() {
                    a_fail(st, "audit: a reused Hatcher gives different hatches than a fresh one", &c.label, format!("{} vs {} segments", f.segs.len(), w.segs.len()));
                }
                a_judge_hatch(st, &c, &rings, &f);
            }
        }
        if i < nc || (i / 12 + i) % 2 == 0 || i % 12 == 5 {
            st.inc("audit_dot_paths");
            let r = catch(AssertUnwindSafe(|| {
                let f = a_dots(&mut Hatcher::new(), &path, &c, &dc);
                let w = a_dots(&mut warm, &path, &c, &dc);
                (f, w)
            }));
            match r {
                None => {
                    a_fail(st, "audit: dot_path panicked", &c.label, format!("{:?}", dc));
                    warm = Hatcher::new();
                }
                Some(((ev, hit), (ev2, _))) => {
                    if ev.len() != ev2.len() || ev.iter().zip(ev2.iter()).any(|(a, b)| a.bits() != b.bits()) {
                        a_fail(st, "audit: a reused Hatcher places different dots than a fresh one", &c.label, format!("{:?}", dc));
                    }
                    a_judge_dots(st, &c, &dc, &rings, &ev, hit);
                }
            }
        }
    }
    a_degenerate(st, &mut warm);
}

/// empty / single-point / zero-area inputs, and offsets a pattern should not return: no panic, no endless sweep
fn a_degenerate(st: &mut Stats, warm: &mut Hatcher) {
    use std::f32::consts::FRAC_PI_4;
    let inputs: Vec<(&str, Vec<Sub>)> = vec![
        ("empty", vec![]),
        ("single point", vec![a_poly(&[(1.0, 2.0)], true)]),
        ("single point, open", vec![a_poly(&[(1.0, 2.0)], false)]),
        ("repeated point", vec![a_poly(&[(1.0, 2.0), (1.0, 2.0), (1.0, 2.0)], true)]),
        ("two points", vec![a_poly(&[(0.0, 0.0), (5.0, 3.0)], true)]),
        ("two points, open", vec![a_poly(&[(0.0, 0.0), (5.0, 3.0)], false)]),
        ("collinear", vec![a_poly(&[(0.0, 0.0), (2.0, 1.0), (6.0, 3.0), (4.0, 2.0)], true)]),
        ("there and back", vec![a_poly(&[(0.0, 0.0), (4.0, 0.0), (4.0, 4.0), (4.0, 0.0)], true)]),
        ("degenerate quadratic", vec![Sub { s: (0.0, 0.0), g: vec![Sg::Q((3.0, 3.0), (6.0, 6.0))], close: true }]),
        ("degenerate cubic", vec![Sub { s: (0.0, 0.0), g: vec![Sg::C((4.0, 2.0), (2.0, 1.0), (6.0, 3.0))], close: false }]),
        ("point curve", vec![Sub { s: (1.0, 1.0), g: vec![Sg::C((1.0, 1.0), (1.0, 1.0), (1.0, 1.0)), Sg::Q((1.0, 1.0), (1.0, 1.0))], close: true }]),
    ];
    for (name, subs) in &inputs {
        for angle in [0.0f32, FRAC_PI_4, 1.0, -2.0, std::f32::consts::FRAC_PI_2] {
            for regular in [true, false] {
                st.inc("evaluations");
                st.inc("audit_degenerate_inputs");
                let c = ACase { label: format!("{} {:?} angle={} regular={}", name, subs, angle, regular), subs: subs.clone(), angle, tol: 0.05, uv: (0.5, -1.0), tangents: regular, regular, offsets: vec![0.5] };
                let dc = DCase { regular, row_offs: vec![0.5], col_offs: vec![0.5], fco: 0.0, align: Some(0.5) };
                let path = if subs.is_empty() { Path::new() } else { a_build(subs) };
                let rings = a_fine(subs);
                let r = catch(AssertUnwindSafe(|| (a_hatch(&mut Hatcher::new(), &path, &c), a_hatch(warm, &path, &c), a_dots(&mut Hatcher::new(), &path, &c, &dc), a_dots(warm, &path, &c, &dc))));
                match r {
                    None => {
                        a_fail(st, "audit: degenerate path: panic", &c.label, String::new());
                        *warm = Hatcher::new();
                    }
                    Some((f, w, (ev, hit), (ev2, _))) => {
                        // zero area: nothing of positive length, no dot away from the outline (the general checks),
                        // and the strict reading for paths without any edge: no output at all
                        let long = f.segs.iter().filter(|s| (s.bp - s.ap).length() > 1e-3).count();
                        if long > 0 || f.limit_hit || hit {
                            a_fail(st, "audit: zero-area path produced hatches of positive length", &c.label, format!("{} segments", long));
                        }
                        if f.segs.len() != w.segs.len() || ev.len() != ev2.len() {
                            a_fail(st, "audit: a reused Hatcher differs from a fresh one on a degenerate path", &c.label, String::new());
                        }
                        st.add("audit_degenerate_zero_length_segments", f.segs.len() as u64);
                        a_judge_hatch(st, &c, &rings, &f);
                        a_judge_dots(st, &c, &dc, &rings, &ev, hit);
                    }
                }
            }
        }
    }
    // offsets: NaN / infinite / zero / negative constant intervals must not hang or panic; tiny positive offsets that
    // f32 absorbs (y + o == y) are an endless sweep by construction of the pattern: counted, not flagged
    let sq = vec![a_rect(0.0, 0.0, 8.0, 8.0, false, true)];
    let path = a_build(&sq);
    for (name, offs) in [
        ("nan", vec![f32::NAN]),
        ("nan later", vec![1.0, f32::NAN, 1.0]),
        ("inf", vec![f32::INFINITY]),
        ("-inf", vec![f32::NEG_INFINITY]),
        ("zero", vec![0.0]),
        ("negative", vec![-1.0]),
        ("negative then positive", vec![-3.0, 1.0, 1.0, 1.0]),
        ("tiny", vec![1.0, 1e-9]),
        ("one tiny", vec![1.0, 1e-9, 1.0, 1.0, 1.0, 1.0, 1.0, 1.0, 1.0, 1.0, 1.0, 1.0]),
    ] {
        st.inc("evaluations");
        st.inc("audit_offset_probes");
        let c = ACase { label: format!("square 8x8, offsets {} {:?}", name, offs), subs: sq.clone(), angle: 0.3, tol: 0.1, uv: (0.0, 0.0), tangents: true, regular: false, offsets: offs.clone() };
        let dc = DCase { regular: false, row_offs: offs.clone(), col_offs: offs.clone(), fco: 0.0, align: None };
        match catch(AssertUnwindSafe(|| (a_hatch(&mut Hatcher::new(), &path, &c), a_dots(&mut Hatcher::new(), &path, &c, &dc)))) {
            None => a_fail(st, "audit: offsets probe: panic", &c.label, String::new()),
            Some((f, (_ev, hit))) => {
                if f.limit_hit || hit {
                    st.inc("audit_offset_probes_endless");
                    if name != "tiny" {
                        a_fail(st, "audit: the sweep does not end (row limit of the harness hit)", &c.label, format!("{} segments", f.segs.len()));
                    }
                }
            }
        }
    }
    // a shape far from the origin: the spacing is below the resolution of f32 there (ulp(2e7) = 2), y + 0.5 == y
    // and the sweep never advances although the pattern returns a constant positive offset (200 rows expected)
    for (x0, off) in [(2.0e7f32, 0.5f32), (1.0e6, 0.01), (1.0e5, 0.003), (1.0e5, 0.01)] {
        st.inc("evaluations");
        st.inc("audit_far_probes");
        let subs = vec![a_rect(x0, x0, x0 + 100.0, x0 + 100.0, false, true)];
        let path = a_build(&subs);
        let c = ACase { label: format!("square 100x100 at ({}, {}), constant offset {}", x0, x0, off), subs, angle: 0.0, tol: 0.1, uv: (0.0, 0.0), tangents: false, regular: false, offsets: vec![off] };
        match catch(AssertUnwindSafe(|| a_hatch(&mut Hatcher::new(), &path, &c))) {
            None => a_fail(st, "audit: far shape: panic", &c.label, String::new()),
            Some(f) => {
                let expected = (100.0 / off as f64) as usize;
                if f.limit_hit && expected < A_ROW_LIMIT {
                    a_fail(st, "audit: the sweep does not end: y + offset == y in f32 (row limit of the harness hit)", &c.label, format!("{} rows asked, about {} expected", f.calls.len(), expected));
                } else if f.limit_hit {
                    st.inc("audit_far_probes_endless_or_long");
                }
            }
        }
    }
    // regular patterns with a zero / negative interval
    for iv in [0.0f32, -1.0] {
        use lyon_algorithms::hatching::{RegularDotPattern, RegularHatchingPattern};
        st.inc("audit_offset_probes");
        let r = catch(AssertUnwindSafe(|| {
            let mut n = 0usize;
            Hatcher::new().hatch_path(path.iter(), &HatchingOptions::DEFAULT, &mut RegularHatchingPattern { interval: iv, callback: &mut |_s: &HatchSegment| n += 1 });
            let mut m = 0usize;
            Hatcher::new().dot_path(path.iter(), &DotOptions::DEFAULT, &mut RegularDotPattern { row_interval: 1.0, column_interval: iv, callback: &mut |_d: &Dot| m += 1 });
            (n, m)
        }));
        match r {
            None => a_fail(st, "audit: regular pattern with a non-positive interval: panic", &format!("interval {}", iv), String::new()),
            Some((n, m)) => {
                st.add("audit_nonpositive_interval_segments", n as u64);
                st.add("audit_nonpositive_interval_dots", m as u64);
            }
        }
    }
}
