//! C10 / C11: curve algebra of lyon_geom at f64 on the exactness domain
//! (integer control points, dyadic parameters): every operation is exact, so
//! the implementation's answers are compared with the rational model for
//! equality.  Also evaluates the properties directly (sampling identities,
//! box containment/tightness) on exact and on general (non-dyadic) inputs.
use crate::util::*;
use lyon_geom::euclid::default::Transform2D;
use lyon_geom::{point, CubicBezierSegment, LineSegment, Point, QuadraticBezierSegment, Segment};

type P = Point<f64>;

fn gq(v: f64) -> String {
    if v.is_finite() {
        gq64(v)
    } else {
        "(123456789 # 1)".to_string()
    }
}
fn gqs(v: &[f64]) -> String {
    glist(v.iter().map(|x| gq(*x)))
}
fn fp(ps: &[P]) -> Vec<f64> {
    ps.iter().flat_map(|p| vec![p.x, p.y]).collect()
}
fn fl(l: &LineSegment<f64>) -> Vec<f64> {
    fp(&[l.from, l.to])
}
fn fq(q: &QuadraticBezierSegment<f64>) -> Vec<f64> {
    fp(&[q.from, q.ctrl, q.to])
}
fn fc(c: &CubicBezierSegment<f64>) -> Vec<f64> {
    fp(&[c.from, c.ctrl1, c.ctrl2, c.to])
}

pub const HEADER: &str =
    "From Coq Require Import QArith.\nFrom LV Require Import Base.Prelude Model.Bezier Run.Geom.\nOpen Scope Q_scope.";

struct Ctx<'a> {
    w: &'a mut ShardWriter,
    st: &'a mut Stats,
    idx: &'a mut std::fs::File,
    id: usize,
    tag: &'static str,
}

impl<'a> Ctx<'a> {
    fn emit(&mut self, kind: i64, op: i64, ctrl: &[f64], par: &[f64], out: Option<Vec<f64>>) {
        use std::io::Write;
        let out = match out {
            Some(o) => o,
            None => {
                self.st.fail(jobj(&[
                    ("what", jstr("lyon_geom panicked")),
                    ("input", jstr(&format!("kind {} op {} ctrl {:?} par {:?}", kind, op, ctrl, par))),
                ]));
                return;
            }
        };
        let text = format!("kind={} op={} ctrl={:?} par={:?}", kind, op, ctrl, par);
        writeln!(self.idx, "{}\t{} -> {:?}", self.id, text, out).ok();
        self.st.inc("evaluations");
        self.st.inc(&format!("{}_kind{}_op{}", self.tag, kind, op));
        let degenerate = ctrl.chunks(2).all(|c| c[0] == ctrl[0] && c[1] == ctrl[1]);
        self.st.note_case(&text, !degenerate);
        self.st.sample(format!("{} -> {:?}", text, out));
        self.w.push(format!(
            "(mkG {} {} {} {} {} {})",
            self.id,
            kind,
            op,
            gqs(ctrl),
            gqs(par),
            gqs(&out)
        ));
        self.id += 1;
    }
    fn fail(&mut self, what: &str, input: String) {
        self.st.fail(jobj(&[("what", jstr(what)), ("input", jstr(&input))]));
    }
}

fn ipt(r: &mut Rng, m: i64) -> P {
    point(r.range(-m, m) as f64, r.range(-m, m) as f64)
}
fn dy(r: &mut Rng) -> f64 {
    // dyadic parameter k/16, mostly in [0,1], sometimes the end points
    match r.below(10) {
        0 => 0.0,
        1 => 1.0,
        _ => r.range(0, 16) as f64 / 16.0,
    }
}

/// control polygons: random, with deliberate degeneracies
fn ctrl_points(r: &mut Rng, n: usize) -> Vec<P> {
    let mode = r.below(8);
    let mut v: Vec<P> = (0..n).map(|_| ipt(r, 8)).collect();
    match mode {
        0 => {
            // all equal
            let p = v[0];
            for q in v.iter_mut() {
                *q = p;
            }
        }
        1 => {
            // collinear
            let a = ipt(r, 3);
            let d = ipt(r, 2);
            for (i, q) in v.iter_mut().enumerate() {
                let k = r.range(-2, 3) as f64 + i as f64 * 0.0;
                *q = point(a.x + d.x * k, a.y + d.y * k);
            }
        }
        2 => {
            // start == end
            let p = v[0];
            v[n - 1] = p;
        }
        3 => {
            // coincident control point
            if n > 2 {
                v[1] = v[0];
            }
        }
        _ => {}
    }
    v
}

fn approx(a: f64, b: f64, tol: f64) -> bool {
    (a - b).abs() <= tol * (1.0 + a.abs().max(b.abs()))
}
fn papprox(a: P, b: P, tol: f64) -> bool {
    approx(a.x, b.x, tol) && approx(a.y, b.y, tol)
}

fn xf(r: &mut Rng) -> (Transform2D<f64>, Vec<f64>) {
    let m: Vec<f64> = (0..6).map(|_| r.range(-3, 3) as f64).collect();
    (Transform2D::new(m[0], m[1], m[2], m[3], m[4], m[5]), m)
}

pub fn main_c10(args: &Args) -> std::io::Result<()> {
    let mut st = Stats::default();
    let mut w = ShardWriter::new(&args.out, "c10_cases", args.shards, HEADER, "bad_cases");
    w.disabled = args.direct_only();
    let mut idx = std::fs::File::create(args.out.join("c10_index.txt"))?;
    let mut rng = Rng::new(args.seed ^ 0x10);
    let n = if args.thorough() { 6000 } else { 700 };
    let mut cx = Ctx { w: &mut w, st: &mut st, idx: &mut idx, id: 0, tag: "c10" };
    for _ in 0..n {
        let r = &mut rng;
        let (t, u) = (dy(r), dy(r));
        let (mut a, mut b) = (dy(r), dy(r));
        if a > b {
            std::mem::swap(&mut a, &mut b);
        }
        // ---------------- line
        let p = ctrl_points(r, 2);
        let l = LineSegment { from: p[0], to: p[1] };
        let c = fl(&l);
        cx.emit(1, 1, &c, &[t], catch(|| fp(&[l.sample(t)])));
        cx.emit(1, 2, &c, &[t], catch(|| vec![l.x(t), l.y(t)]));
        cx.emit(1, 4, &c, &[], catch(|| fl(&l.flip())));
        cx.emit(1, 5, &c, &[a, b], catch(|| fl(&l.split_range(a..b))));
        cx.emit(1, 6, &c, &[t], catch(|| {
            let (x, y) = l.split(t);
            [fl(&x), fl(&y)].concat()
        }));
        cx.emit(1, 7, &c, &[t], catch(|| fl(&l.before_split(t))));
        cx.emit(1, 8, &c, &[t], catch(|| fl(&l.after_split(t))));
        let (m, mv) = xf(r);
        cx.emit(1, 9, &c, &mv, catch(|| fl(&l.transformed(&m))));
        // direct: the identities of the property, exact on this domain
        let (s0, s1) = l.split(t);
        if s0.sample(u) != l.sample(t * u) || s1.sample(u) != l.sample(t + (1.0 - t) * u) {
            cx.fail("line split pieces do not retrace the segment", format!("{:?} t={} u={}", l, t, u));
        }
        if l.split_range(a..b).sample(u) != l.sample(a + (b - a) * u) {
            cx.fail("line split_range does not retrace", format!("{:?} {}..{} u={}", l, a, b, u));
        }
        if l.flip().sample(u) != l.sample(1.0 - u) {
            cx.fail("line flip", format!("{:?} u={}", l, u));
        }
        if l.transformed(&m).sample(t) != m.transform_point(l.sample(t)) {
            cx.fail("line transform does not commute with sampling", format!("{:?} {:?} t={}", l, mv, t));
        }
        // Segment trait glue agrees with the inherent methods
        if Segment::sample(&l, t) != l.sample(t) || Segment::flip(&l) != l.flip() || Segment::split(&l, t) != l.split(t) {
            cx.fail("Segment trait glue differs (line)", format!("{:?} t={}", l, t));
        }
        if !approx(l.before_split(t).length() + l.after_split(t).length(), l.length(), 1e-12) {
            cx.fail("line lengths of the split pieces do not add up", format!("{:?} t={}", l, t));
        }

        // ---------------- quadratic
        let p = ctrl_points(r, 3);
        let q = QuadraticBezierSegment { from: p[0], ctrl: p[1], to: p[2] };
        let c = fq(&q);
        cx.emit(2, 1, &c, &[t], catch(|| fp(&[q.sample(t)])));
        cx.emit(2, 2, &c, &[t], catch(|| vec![q.x(t), q.y(t)]));
        cx.emit(2, 3, &c, &[t], catch(|| {
            let d = q.derivative(t);
            vec![d.x, d.y]
        }));
        cx.emit(2, 4, &c, &[], catch(|| fq(&q.flip())));
        // the per-coordinate derivative accessors, inherent and through the Segment trait
        cx.emit(2, 18, &c, &[t], catch(|| vec![q.dx(t), q.dy(t)]));
        cx.emit(2, 18, &c, &[t], catch(|| vec![Segment::dx(&q, t), Segment::dy(&q, t)]));
        cx.emit(2, 2, &c, &[t], catch(|| vec![Segment::x(&q, t), Segment::y(&q, t)]));
        cx.emit(2, 5, &c, &[a, b], catch(|| fq(&q.split_range(a..b))));
        cx.emit(2, 6, &c, &[t], catch(|| {
            let (x, y) = q.split(t);
            [fq(&x), fq(&y)].concat()
        }));
        cx.emit(2, 7, &c, &[t], catch(|| fq(&q.before_split(t))));
        cx.emit(2, 8, &c, &[t], catch(|| fq(&q.after_split(t))));
        let (m, mv) = xf(r);
        cx.emit(2, 9, &c, &mv, catch(|| fq(&q.transformed(&m))));
        {
            // to_cubic divides by 3: choose from, to congruent to ctrl modulo 3
            let ct = ipt(r, 6);
            let q3 = QuadraticBezierSegment {
                from: point(ct.x + 3.0 * r.range(-3, 3) as f64, ct.y + 3.0 * r.range(-3, 3) as f64),
                ctrl: ct,
                to: point(ct.x + 3.0 * r.range(-3, 3) as f64, ct.y + 3.0 * r.range(-3, 3) as f64),
            };
            cx.emit(2, 10, &fq(&q3), &[], catch(|| fc(&q3.to_cubic())));
            if q3.to_cubic().sample(t) != q3.sample(t) {
                cx.fail("degree elevation does not commute with sampling", format!("{:?} t={}", q3, t));
            }
        }
        let (s0, s1) = q.split(t);
        if s0.sample(u) != q.sample(t * u) || s1.sample(u) != q.sample(t + (1.0 - t) * u) {
            cx.fail("quadratic split pieces do not retrace the curve", format!("{:?} t={} u={}", q, t, u));
        }
        if q.before_split(t) != s0 || q.after_split(t) != s1 {
            cx.fail("quadratic before/after_split differ from split", format!("{:?} t={}", q, t));
        }
        if q.split_range(a..b).sample(u) != q.sample(a + (b - a) * u) {
            cx.fail("quadratic split_range does not retrace", format!("{:?} {}..{} u={}", q, a, b, u));
        }
        if q.flip().sample(u) != q.sample(1.0 - u) {
            cx.fail("quadratic flip", format!("{:?} u={}", q, u));
        }
        if q.transformed(&m).sample(t) != m.transform_point(q.sample(t)) {
            cx.fail("quadratic transform does not commute with sampling", format!("{:?} {:?} t={}", q, mv, t));
        }
        {
            // derivative = slope of the sampled curve: second-order difference quotient is exact here
            let h = 1.0 / 64.0;
            let d = (q.sample(t + h) - q.sample(t - h)) / (2.0 * h);
            let dd = q.derivative(t);
            if d != dd {
                cx.fail("quadratic derivative is not the slope of the sampled curve", format!("{:?} t={}", q, t));
            }
        }
        if q.dx(t) != q.derivative(t).x || q.dy(t) != q.derivative(t).y || Segment::dx(&q, t) != q.derivative(t).x || Segment::dy(&q, t) != q.derivative(t).y {
            cx.fail("quadratic dx / dy differ from the derivative", format!("{:?} t={}", q, t));
        }
        if Segment::from(&q) != q.from || Segment::to(&q) != q.to || Segment::x(&q, t) != q.sample(t).x || Segment::y(&q, t) != q.sample(t).y {
            cx.fail("Segment trait glue differs (quadratic from / to / x / y)", format!("{:?} t={}", q, t));
        }
        if Segment::sample(&q, t) != q.sample(t) || Segment::flip(&q) != q.flip() || Segment::split(&q, t) != q.split(t)
            || Segment::split_range(&q, a..b) != q.split_range(a..b) || Segment::derivative(&q, t) != q.derivative(t)
        {
            cx.fail("Segment trait glue differs (quadratic)", format!("{:?} t={}", q, t));
        }
        {
            let whole = q.length();
            let parts = q.before_split(t).length() + q.after_split(t).length();
            if !approx(whole, parts, 1e-6) {
                cx.fail("quadratic lengths of the split pieces do not add up", format!("{:?} t={} {} vs {}", q, t, whole, parts));
            }
            let n = 1024;
            let mut sl = 0.0;
            let mut prev = q.sample(0.0);
            for i in 1..=n {
                let p = q.sample(i as f64 / n as f64);
                sl += (p - prev).length();
                prev = p;
            }
            let seg_len = Segment::approximate_length(&q, 1e-4);
            if !approx(whole, sl, 1e-3) || !approx(seg_len, sl, 1e-3) {
                cx.fail("quadratic length is not the length of the sampled curve", format!("{:?} {} (trait {}) vs sampled {}", q, whole, seg_len, sl));
            }
        }

        // ---------------- cubic
        let p = ctrl_points(r, 4);
        let cb = CubicBezierSegment { from: p[0], ctrl1: p[1], ctrl2: p[2], to: p[3] };
        let c = fc(&cb);
        cx.emit(3, 1, &c, &[t], catch(|| fp(&[cb.sample(t)])));
        cx.emit(3, 2, &c, &[t], catch(|| vec![cb.x(t), cb.y(t)]));
        cx.emit(3, 3, &c, &[t], catch(|| {
            let d = cb.derivative(t);
            vec![d.x, d.y]
        }));
        cx.emit(3, 4, &c, &[], catch(|| fc(&cb.flip())));
        cx.emit(3, 18, &c, &[t], catch(|| vec![cb.dx(t), cb.dy(t)]));
        cx.emit(3, 18, &c, &[t], catch(|| vec![Segment::dx(&cb, t), Segment::dy(&cb, t)]));
        cx.emit(3, 2, &c, &[t], catch(|| vec![Segment::x(&cb, t), Segment::y(&cb, t)]));
        cx.emit(3, 5, &c, &[a, b], catch(|| fc(&cb.split_range(a..b))));
        cx.emit(3, 6, &c, &[t], catch(|| {
            let (x, y) = cb.split(t);
            [fc(&x), fc(&y)].concat()
        }));
        cx.emit(3, 7, &c, &[t], catch(|| fc(&cb.before_split(t))));
        cx.emit(3, 8, &c, &[t], catch(|| fc(&cb.after_split(t))));
        let (m, mv) = xf(r);
        cx.emit(3, 9, &c, &mv, catch(|| fc(&cb.transformed(&m))));
        cx.emit(3, 10, &c, &[], catch(|| fq(&cb.to_quadratic())));
        let (s0, s1) = cb.split(t);
        if s0.sample(u) != cb.sample(t * u) || s1.sample(u) != cb.sample(t + (1.0 - t) * u) {
            cx.fail("cubic split pieces do not retrace the curve", format!("{:?} t={} u={}", cb, t, u));
        }
        if cb.before_split(t) != s0 || cb.after_split(t) != s1 {
            cx.fail("cubic before/after_split differ from split", format!("{:?} t={}", cb, t));
        }
        if cb.split_range(a..b).sample(u) != cb.sample(a + (b - a) * u) {
            cx.fail("cubic split_range does not retrace", format!("{:?} {}..{} u={}", cb, a, b, u));
        }
        if cb.flip().sample(u) != cb.sample(1.0 - u) {
            cx.fail("cubic flip", format!("{:?} u={}", cb, u));
        }
        if cb.transformed(&m).sample(t) != m.transform_point(cb.sample(t)) {
            cx.fail("cubic transform does not commute with sampling", format!("{:?} {:?} t={}", cb, mv, t));
        }
        {
            // f(t+h)-f(t-h) = 2h f'(t) + (h^3/3) f''' ; f''' = 6 (to - 3 c2 + 3 c1 - from)
            let h = 1.0 / 64.0;
            let third = (cb.to.to_vector() - cb.ctrl2.to_vector() * 3.0 + cb.ctrl1.to_vector() * 3.0 - cb.from.to_vector()) * 6.0;
            let lhs = cb.sample(t + h) - cb.sample(t - h);
            let rhs = cb.derivative(t) * (2.0 * h) + third * (h * h * h / 3.0);
            if lhs != rhs {
                cx.fail("cubic derivative is not the slope of the sampled curve", format!("{:?} t={}", cb, t));
            }
        }
        if cb.dx(t) != cb.derivative(t).x || cb.dy(t) != cb.derivative(t).y || Segment::dx(&cb, t) != cb.derivative(t).x || Segment::dy(&cb, t) != cb.derivative(t).y {
            cx.fail("cubic dx / dy differ from the derivative", format!("{:?} t={}", cb, t));
        }
        if Segment::from(&cb) != cb.from || Segment::to(&cb) != cb.to || Segment::x(&cb, t) != cb.sample(t).x || Segment::y(&cb, t) != cb.sample(t).y {
            cx.fail("Segment trait glue differs (cubic from / to / x / y)", format!("{:?} t={}", cb, t));
        }
        if Segment::sample(&cb, t) != cb.sample(t) || Segment::flip(&cb) != cb.flip() || Segment::split(&cb, t) != cb.split(t)
            || Segment::split_range(&cb, a..b) != cb.split_range(a..b) || Segment::derivative(&cb, t) != cb.derivative(t)
        {
            cx.fail("Segment trait glue differs (cubic)", format!("{:?} t={}", cb, t));
        }
        {
            let tol = 1e-4;
            let whole = cb.approximate_length(tol);
            let parts = cb.before_split(t).approximate_length(tol) + cb.after_split(t).approximate_length(tol);
            if !approx(whole, parts, 2e-2) {
                cx.fail("cubic lengths of the split pieces do not add up", format!("{:?} t={} {} vs {}", cb, t, whole, parts));
            }
            // the length is the length of the curve: against the polyline through 1024 samples (a lower bound that
            // converges to the length)
            let n = 1024;
            let mut sl = 0.0;
            let mut prev = cb.sample(0.0);
            for i in 1..=n {
                let p = cb.sample(i as f64 / n as f64);
                sl += (p - prev).length();
                prev = p;
            }
            let seg_len = Segment::approximate_length(&cb, tol);
            if !approx(whole, sl, 2e-2) || seg_len != whole {
                cx.fail("cubic approximate_length is not the length of the sampled curve", format!("{:?} {} (trait {}) vs sampled {}", cb, whole, seg_len, sl));
            }
        }
    }
    // ---- the same identities at f32 (lyon's default scalar), numerically: lattice curves (with coincident control
    // points) as they are and moved by an affine map; split / sub-range / flip retrace the curve, derivative = slope,
    // coordinates, lengths finite and additive
    let nf = if args.thorough() { 60000 } else { 8000 };
    for it in 0..nf {
        let r = &mut rng;
        let g = |r: &mut Rng| point(r.range(-9, 9) as f32, r.range(-9, 9) as f32);
        let t = lyon_geom::euclid::default::Transform2D::<f32>::new(
            0.3 + r.unit_f64() as f32, (r.unit_f64() - 0.5) as f32, (r.unit_f64() - 0.5) as f32, 0.3 + r.unit_f64() as f32,
            (r.unit_f64() * 10.0 - 5.0) as f32, (r.unit_f64() * 10.0 - 5.0) as f32);
        let mv = |p: lyon_geom::Point<f32>| if it % 2 == 0 { p } else { t.transform_point(p) };
        let mut c0 = CubicBezierSegment { from: g(r), ctrl1: g(r), ctrl2: g(r), to: g(r) };
        match it % 7 {
            1 => c0.ctrl1 = c0.from,
            2 => c0.ctrl2 = c0.to,
            3 => { c0.ctrl1 = c0.from; c0.ctrl2 = c0.to }
            4 => c0.to = c0.from,
            5 => c0.ctrl1 = c0.ctrl2,
            _ => {}
        }
        let c = CubicBezierSegment { from: mv(c0.from), ctrl1: mv(c0.ctrl1), ctrl2: mv(c0.ctrl2), to: mv(c0.to) };
        let mut q0 = QuadraticBezierSegment { from: g(r), ctrl: g(r), to: g(r) };
        match it % 5 {
            1 => q0.ctrl = q0.to,
            2 => q0.ctrl = q0.from,
            3 => q0.to = q0.from,
            _ => {}
        }
        let q = QuadraticBezierSegment { from: mv(q0.from), ctrl: mv(q0.ctrl), to: mv(q0.to) };
        let (a, b) = (0.1 + 0.3 * r.unit_f64() as f32, 0.6 + 0.3 * r.unit_f64() as f32);
        let tt = 0.3 + 0.4 * r.unit_f64() as f32;
        cx.st.inc("evaluations");
        cx.st.inc("f32_curves");
        let label = format!("{:?} / {:?} a={} b={} t={}", q, c, a, b, tt);
        cx.st.note_case(&label, true);
        let res = catch(|| {
            let mut bad: Vec<&'static str> = Vec::new();
            let scale = 1.0 + [c.from, c.ctrl1, c.ctrl2, c.to, q.from, q.ctrl, q.to].iter().map(|p| p.to_vector().length()).fold(0.0f32, f32::max);
            let e = 2e-4 * scale;
            let (cs0, cs1) = c.split(a);
            let (qs0, qs1) = q.split(a);
            for i in 0..=4 {
                let u = i as f32 / 4.0;
                if (c.split_range(a..b).sample(u) - c.sample(a + (b - a) * u)).length() > e
                    || (cs0.sample(u) - c.sample(a * u)).length() > e
                    || (cs1.sample(u) - c.sample(a + (1.0 - a) * u)).length() > e
                    || (c.before_split(a).sample(u) - cs0.sample(u)).length() > e
                    || (c.after_split(a).sample(u) - cs1.sample(u)).length() > e
                    || (c.flip().sample(u) - c.sample(1.0 - u)).length() > e
                {
                    bad.push("f32 cubic: split / sub-range / flip do not retrace the curve");
                    break;
                }
                if (q.split_range(a..b).sample(u) - q.sample(a + (b - a) * u)).length() > e
                    || (qs0.sample(u) - q.sample(a * u)).length() > e
                    || (qs1.sample(u) - q.sample(a + (1.0 - a) * u)).length() > e
                    || (q.before_split(a).sample(u) - qs0.sample(u)).length() > e
                    || (q.after_split(a).sample(u) - qs1.sample(u)).length() > e
                    || (q.flip().sample(u) - q.sample(1.0 - u)).length() > e
                    || (q.to_cubic().sample(u) - q.sample(u)).length() > e
                {
                    bad.push("f32 quadratic: split / sub-range / flip / elevation do not retrace the curve");
                    break;
                }
            }
            let h = 1e-2f32;
            if (c.derivative(tt) - (c.sample(tt + h) - c.sample(tt - h)) / (2.0 * h)).length() > 0.2 * scale
                || (q.derivative(tt) - (q.sample(tt + h) - q.sample(tt - h)) / (2.0 * h)).length() > 0.2 * scale
            {
                bad.push("f32: the derivative is not the slope of the sampled curve");
            }
            if (c.x(tt) - c.sample(tt).x).abs() > e || (c.y(tt) - c.sample(tt).y).abs() > e || (c.dx(tt) - c.derivative(tt).x).abs() > 10.0 * e || (c.dy(tt) - c.derivative(tt).y).abs() > 10.0 * e
                || (q.x(tt) - q.sample(tt).x).abs() > e || (q.y(tt) - q.sample(tt).y).abs() > e || (q.dx(tt) - q.derivative(tt).x).abs() > 10.0 * e || (q.dy(tt) - q.derivative(tt).y).abs() > 10.0 * e
            {
                bad.push("f32: x / y / dx / dy disagree with sample / derivative");
            }
            let tol = 1e-3f32;
            let (l, l1, l2) = (c.approximate_length(tol), cs0.approximate_length(tol), cs1.approximate_length(tol));
            if !l.is_finite() || !l1.is_finite() || !l2.is_finite() || (l - l1 - l2).abs() > 2e-2 * (1.0 + l) {
                bad.push("f32 cubic: lengths of the split pieces are not finite or do not add up");
            }
            let (l, l1, l2) = (q.length(), qs0.length(), qs1.length());
            if !l.is_finite() || !l1.is_finite() || !l2.is_finite() || (l - l1 - l2).abs() > 2e-3 * (1.0 + l) {
                bad.push("f32 quadratic: lengths of the split pieces are not finite or do not add up");
            }
            bad
        });
        match res {
            None => cx.fail("f32 curve operation panicked", label.clone()),
            Some(bad) => {
                for b in bad {
                    cx.fail(b, label.clone());
                }
            }
        }
    }
    // ---- elliptic arcs (trigonometry: numerical comparison): split / sub-range / flip retrace the arc, the tangent is
    // the slope, lengths of the pieces add up; inherent methods and the Segment trait
    let na = if args.thorough() { 4000 } else { 600 };
    for it in 0..na {
        let r = &mut rng;
        let pi = std::f64::consts::PI;
        let arc = lyon_geom::Arc {
            center: point(r.range(-10, 10) as f64, r.range(-10, 10) as f64),
            radii: lyon_geom::vector(1.0 + r.below(8) as f64, 1.0 + r.below(8) as f64),
            start_angle: lyon_geom::Angle::radians((r.unit_f64() - 0.5) * 4.0 * pi),
            sweep_angle: lyon_geom::Angle::radians(match it % 4 {
                0 => (r.unit_f64() - 0.5) * 1.9 * pi,                            // less than a half turn either way
                1 => (1.05 + 0.9 * r.unit_f64()) * pi * if it % 8 == 1 { 1.0 } else { -1.0 }, // more than a half turn
                2 => 2.0 * pi * if it % 8 == 2 { 1.0 } else { -1.0 },
                _ => (r.unit_f64() - 0.5) * 4.0 * pi,
            }),
            x_rotation: lyon_geom::Angle::radians(if it % 3 == 0 { 0.0 } else { (r.unit_f64() - 0.5) * 2.0 * pi }),
        };
        if arc.sweep_angle.radians.abs() < 1e-2 {
            continue;
        }
        let (t, u) = (dy(r), dy(r));
        let (mut a, mut b) = (dy(r), dy(r));
        if a > b {
            std::mem::swap(&mut a, &mut b);
        }
        cx.st.inc("evaluations");
        cx.st.inc("arcs");
        let scale = 1.0 + arc.center.x.abs() + arc.center.y.abs() + arc.radii.x + arc.radii.y;
        let eps = 1e-8 * scale;
        let label = format!("{:?} t={} u={} range {}..{}", arc, t, u, a, b);
        let res = catch(|| {
            let mut bad: Vec<&'static str> = Vec::new();
            let near = |p: Point<f64>, q: Point<f64>| (p - q).length() <= eps;
            let (s0, s1) = arc.split(t);
            if !near(s0.sample(u), arc.sample(t * u)) || !near(s1.sample(u), arc.sample(t + (1.0 - t) * u)) {
                bad.push("arc split pieces do not retrace the arc");
            }
            if !near(arc.before_split(t).sample(u), s0.sample(u)) || !near(arc.after_split(t).sample(u), s1.sample(u)) {
                bad.push("arc before/after_split differ from split");
            }
            if b > a && !near(arc.split_range(a..b).sample(u), arc.sample(a + (b - a) * u)) {
                bad.push("arc split_range does not retrace the arc");
            }
            if !near(arc.flip().sample(u), arc.sample(1.0 - u)) {
                bad.push("arc flip is not u -> 1 - u");
            }
            // angles: get_angle(t) runs linearly from the start angle to end_angle(), and sampling is the
            // ellipse evaluated at that angle
            {
                let ang = arc.get_angle(t).radians;
                if (ang - (arc.start_angle.radians + arc.sweep_angle.radians * t)).abs() > 1e-9
                    || (arc.end_angle().radians - (arc.start_angle.radians + arc.sweep_angle.radians)).abs() > 1e-9
                    || (arc.get_angle(1.0).radians - arc.end_angle().radians).abs() > 1e-9
                {
                    bad.push("arc get_angle / end_angle are not start + sweep * t");
                }
                let (c, s2) = (arc.x_rotation.radians.cos(), arc.x_rotation.radians.sin());
                let (ex, ey) = (arc.radii.x * ang.cos(), arc.radii.y * ang.sin());
                let want = point(arc.center.x + ex * c - ey * s2, arc.center.y + ex * s2 + ey * c);
                if !near(arc.sample(t), want) {
                    bad.push("arc sample(t) is not the ellipse evaluated at get_angle(t)");
                }
            }
            if !near(arc.from(), arc.sample(0.0)) || !near(arc.to(), arc.sample(1.0)) {
                bad.push("arc from / to are not sample(0) / sample(1)");
            }
            // tangent = slope of the sampled curve
            let h = 1e-5;
            let tt = t.clamp(0.01, 0.99);
            let slope = (arc.sample(tt + h) - arc.sample(tt - h)) / (2.0 * h);
            // sample_tangent is the derivative with respect to the angle; Segment::derivative the one with respect to t
            let tan = arc.sample_tangent(tt);
            let der = Segment::derivative(&arc, tt);
            if (slope - der).length() > 1e-4 * scale * arc.sweep_angle.radians.abs().max(1.0) {
                bad.push("the derivative of an arc is not the slope of the sampled arc");
            }
            if (tan * arc.sweep_angle.radians - der).length() > 1e-9 * scale * 10.0 {
                bad.push("arc sample_tangent times the sweep is not the derivative");
            }
            // Segment trait glue
            if !near(Segment::sample(&arc, t), arc.sample(t)) || !near(Segment::from(&arc), arc.from()) || !near(Segment::to(&arc), arc.to())
                || !near(Segment::split_range(&arc, a..b.max(a + 1e-3)).sample(u), arc.split_range(a..b.max(a + 1e-3)).sample(u))
                || !near(Segment::flip(&arc).sample(u), arc.flip().sample(u))
            {
                bad.push("Segment trait glue differs (arc)");
            }
            // lengths add up
            let tol = 1e-4;
            let whole = arc.approximate_length(tol);
            let parts = arc.before_split(t).approximate_length(tol) + arc.after_split(t).approximate_length(tol);
            if !approx(whole, parts, 2e-2) {
                bad.push("arc lengths of the split pieces do not add up");
            }
            if b > a + 1e-3 {
                let ab = arc.split_range(a..b).approximate_length(tol);
                let rest = arc.split_range(0.0..a.max(1e-9)).approximate_length(tol) + arc.split_range(b.min(1.0 - 1e-9)..1.0).approximate_length(tol);
                if !approx(whole, ab + rest, 3e-2) {
                    bad.push("arc lengths of the sub-ranges do not add up");
                }
            }
            bad
        });
        match res {
            None => cx.fail("arc operation panicked", label.clone()),
            Some(bad) => {
                for b in bad {
                    cx.fail(b, label.clone());
                }
            }
        }
    }
    drop(cx);
    w.finish()?;
    st.write(&args.out.join("c10_stats.json"))
}

// --------------------------------------------------------------------- C11

fn within(lo: f64, v: f64, hi: f64, slack: f64) -> bool {
    v >= lo - slack && v <= hi + slack
}

pub fn main_c11(args: &Args) -> std::io::Result<()> {
    let mut st = Stats::default();
    let mut w = ShardWriter::new(&args.out, "c11_cases", args.shards, HEADER, "bad_cases");
    w.disabled = args.direct_only();
    let mut idx = std::fs::File::create(args.out.join("c11_index.txt"))?;
    let mut rng = Rng::new(args.seed ^ 0x11);
    let n = if args.thorough() { 8000 } else { 1000 };
    let mut cx = Ctx { w: &mut w, st: &mut st, idx: &mut idx, id: 0, tag: "c11" };
    for it in 0..n {
        let r = &mut rng;
        // ---- quadratics whose extremum parameters are dyadic: per coordinate choose from, ctrl and
        // div = from - 2 ctrl + to among powers of two (or 0)
        let coord = |r: &mut Rng| -> (f64, f64, f64) {
            let f = r.range(-8, 8) as f64;
            let c = r.range(-8, 8) as f64;
            let div = *r.pick(&[0.0, 1.0, -1.0, 2.0, -2.0, 4.0, -4.0, 8.0, -8.0, 16.0, -16.0, 32.0]);
            (f, c, div - f + 2.0 * c)
        };
        let (fx, cxx, tx) = coord(r);
        let (fy, cy, ty) = coord(r);
        let q = QuadraticBezierSegment { from: point(fx, fy), ctrl: point(cxx, cy), to: point(tx, ty) };
        let c = fq(&q);
        let o = |t: Option<f64>| match t {
            Some(t) => vec![1.0, t],
            None => vec![0.0],
        };
        cx.emit(2, 11, &c, &[], catch(|| [o(q.local_x_extremum_t()), o(q.local_y_extremum_t())].concat()));
        cx.emit(2, 12, &c, &[], catch(|| vec![q.x_minimum_t(), q.x_maximum_t(), q.y_minimum_t(), q.y_maximum_t()]));
        cx.emit(2, 13, &c, &[], catch(|| {
            let (a, b) = q.bounding_range_x();
            let (c, d) = q.bounding_range_y();
            vec![a, b, c, d]
        }));
        cx.emit(2, 14, &c, &[], catch(|| {
            let (a, b) = q.fast_bounding_range_x();
            let (c, d) = q.fast_bounding_range_y();
            vec![a, b, c, d]
        }));
        cx.emit(2, 15, &c, &[], catch(|| {
            let mut v = Vec::new();
            q.for_each_monotonic_range(&mut |r| {
                v.push(r.start);
                v.push(r.end)
            });
            v
        }));
        cx.emit(2, 16, &c, &[], catch(|| {
            let mut v = Vec::new();
            q.for_each_monotonic(&mut |s| v.extend(fq(s)));
            v
        }));
        check_quad_boxes(&mut cx, &q, 0.0);
        check_quad_axis_monotone(&mut cx, &q, 0.0);

        // ---- cubics whose derivative has chosen dyadic roots m1/8, m2/8 (per coordinate)
        let ccoord = |r: &mut Rng| -> (f64, f64, f64, f64) {
            let s = *r.pick(&[1.0, -1.0, 2.0]);
            let (m1, m2) = (r.range(-4, 12) as f64, r.range(-4, 12) as f64);
            let mode = r.below(6);
            let p0 = r.range(-4, 4) as f64;
            if mode == 0 {
                // linear derivative (a = 0): d0 - 2 d1 + d2 = 0
                let d0 = r.range(-4, 4) as f64;
                // t = -d0 / (4 k): keep it dyadic
                let d1 = d0 + *r.pick(&[1.0, -1.0, 2.0, -2.0, 4.0, -4.0, 0.0]) * 2.0;
                let d2 = 2.0 * d1 - d0;
                return (p0, p0 + d0, p0 + d0 + d1, p0 + d0 + d1 + d2);
            }
            let a = 64.0 * s;
            let d0 = s * m1 * m2;
            let d1 = d0 - 4.0 * s * (m1 + m2);
            let d2 = a - d0 + 2.0 * d1;
            (p0, p0 + d0, p0 + d0 + d1, p0 + d0 + d1 + d2)
        };
        let (x0, x1, x2, x3) = ccoord(r);
        let (y0, y1, y2, y3) = ccoord(r);
        let cb = CubicBezierSegment { from: point(x0, y0), ctrl1: point(x1, y1), ctrl2: point(x2, y2), to: point(x3, y3) };
        let disc_sqrt = |p0: f64, p1: f64, p2: f64, p3: f64| -> f64 {
            let a = 3.0 * (p3 + 3.0 * (p1 - p2) - p0);
            let b = 6.0 * (p2 - 2.0 * p1 + p0);
            let c = 3.0 * (p1 - p0);
            let d = b * b - 4.0 * a * c;
            if d > 0.0 {
                d.sqrt()
            } else {
                0.0
            }
        };
        let par = [disc_sqrt(x0, x1, x2, x3), disc_sqrt(y0, y1, y2, y3)];
        cx.emit(3, 17, &fc(&cb), &par, catch(|| {
            let mut v = Vec::new();
            cb.for_each_local_x_extremum_t(&mut |t| v.push(t));
            v.push(-1.0);
            cb.for_each_local_y_extremum_t(&mut |t| v.push(t));
            v
        }));
        check_cubic_boxes(&mut cx, &cb, 0.0);
        check_cubic_axis_monotone(&mut cx, &cb, 0.0);

        // ---- general position (not exact): direct evaluation only
        if it % 2 == 0 {
            let g = |r: &mut Rng| point((r.unit_f64() - 0.5) * 20.0, (r.unit_f64() - 0.5) * 20.0);
            let q = QuadraticBezierSegment { from: g(r), ctrl: g(r), to: g(r) };
            check_quad_boxes(&mut cx, &q, 1e-9);
            check_quad_axis_monotone(&mut cx, &q, 1e-9);
            let cb = CubicBezierSegment { from: g(r), ctrl1: g(r), ctrl2: g(r), to: g(r) };
            check_cubic_boxes(&mut cx, &cb, 1e-9);
            check_cubic_axis_monotone(&mut cx, &cb, 1e-9);
            cx.st.inc("general_position_curves");
        }
    }
    // ---- arcs and line segments: direct evaluation (trigonometry is outside the rational model)
    let na = if args.thorough() { 6000 } else { 800 };
    for it in 0..na {
        let r = &mut rng;
        let pi = std::f64::consts::PI;
        let center = if it % 3 == 0 { point(0.0, 0.0) } else { point(r.range(-10, 10) as f64, r.range(-10, 10) as f64) };
        let radii = lyon_geom::vector(1.0 + r.below(8) as f64, 1.0 + r.below(8) as f64);
        let start = match it % 4 {
            0 => 0.0,
            _ => (r.unit_f64() - 0.5) * 4.0 * pi,
        };
        let mut sweep = match it % 5 {
            0 => 2.0 * pi,
            1 => -2.0 * pi,
            _ => (r.unit_f64() - 0.5) * 4.0 * pi,
        };
        if sweep.abs() < 1e-3 {
            sweep = 1.0;
        }
        let rot = match it % 3 {
            0 => 0.0,
            _ => (r.unit_f64() - 0.5) * 2.0 * pi,
        };
        let arc = lyon_geom::Arc { center, radii, start_angle: lyon_geom::Angle::radians(start), sweep_angle: lyon_geom::Angle::radians(sweep), x_rotation: lyon_geom::Angle::radians(rot) };
        check_arc_boxes(&mut cx, &arc);
        let g = |r: &mut Rng| point(r.range(-10, 10) as f64, r.range(-10, 10) as f64);
        let l = LineSegment { from: g(r), to: g(r) };
        let b = l.bounding_box();
        cx.st.inc("line_segments");
        if b.min.x != l.from.x.min(l.to.x) || b.max.x != l.from.x.max(l.to.x) || b.min.y != l.from.y.min(l.to.y) || b.max.y != l.from.y.max(l.to.y) {
            cx.st.fail(jobj(&[("what", jstr("bounding box of a line segment is not the box of its end points")), ("input", jstr(&format!("{:?} -> {:?}", l, b)))]));
        }
    }
    // ---- f32 cubics whose derivative has a tiny leading coefficient (degree-elevated quadratics and
    // cubics with a linear derivative, moved by an affine map in f32): the root formula must not cancel
    let nf = if args.thorough() { 8000 } else { 1000 };
    for it in 0..nf {
        let r = &mut rng;
        let g = |r: &mut Rng| point(r.range(-9, 9) as f32, r.range(-9, 9) as f32);
        let base: CubicBezierSegment<f32> = match it % 3 {
            0 => QuadraticBezierSegment { from: g(r), ctrl: g(r), to: g(r) }.to_cubic(),
            1 => {
                // p3 + 3 (p1 - p2) - p0 = 0 in both coordinates
                let (p0, p1, p2) = (g(r), g(r), g(r));
                CubicBezierSegment { from: p0, ctrl1: p1, ctrl2: p2, to: point(p0.x - 3.0 * (p1.x - p2.x), p0.y - 3.0 * (p1.y - p2.y)) }
            }
            _ => CubicBezierSegment { from: g(r), ctrl1: g(r), ctrl2: g(r), to: g(r) },
        };
        let t = lyon_geom::euclid::default::Transform2D::<f32>::new(
            0.3 + r.unit_f64() as f32, (r.unit_f64() - 0.5) as f32 * (it % 2) as f32,
            (r.unit_f64() - 0.5) as f32 * (it % 2) as f32, 0.3 + r.unit_f64() as f32,
            (r.unit_f64() * 10.0 - 5.0) as f32, (r.unit_f64() * 10.0 - 5.0) as f32);
        let c = CubicBezierSegment { from: t.transform_point(base.from), ctrl1: t.transform_point(base.ctrl1), ctrl2: t.transform_point(base.ctrl2), to: t.transform_point(base.to) };
        check_cubic_boxes_f32(&mut cx, &c);
    }
    // ---- whole paths: lyon_algorithms::aabb and lyon_algorithms::fit
    let np = if args.thorough() { 4000 } else { 500 };
    for _ in 0..np {
        check_path_boxes(&mut cx, &mut rng);
    }
    drop(cx);
    w.finish()?;
    st.write(&args.out.join("c11_stats.json"))
}

/// sign changes of one coordinate along samples (moves below eps ignored)
fn coord_monotone(vals: &[f64], eps: f64) -> bool {
    let mut s = 0.0f64;
    for w in vals.windows(2) {
        let d = w[1] - w[0];
        if d.abs() > eps {
            if s != 0.0 && d.signum() != s {
                return false;
            }
            s = d.signum();
        }
    }
    true
}

/// x-only / y-only monotone splits and the is_*_monotonic predicates of a quadratic
fn check_quad_axis_monotone(cx: &mut Ctx, q: &QuadraticBezierSegment<f64>, slack: f64) {
    let r = catch(|| {
        let mut bad: Vec<String> = Vec::new();
        let span = 1.0 + q.from.to_vector().length() + q.ctrl.to_vector().length() + q.to.to_vector().length();
        let eps = 1e-9 * span + slack * 1e3;
        for axis in 0..2 {
            let name = if axis == 0 { "x" } else { "y" };
            let mut ranges: Vec<std::ops::Range<f64>> = Vec::new();
            let mut pieces: Vec<QuadraticBezierSegment<f64>> = Vec::new();
            if axis == 0 {
                q.for_each_x_monotonic_range(&mut |r| ranges.push(r));
                q.for_each_x_monotonic(&mut |p| pieces.push(*p));
            } else {
                q.for_each_y_monotonic_range(&mut |r| ranges.push(r));
                q.for_each_y_monotonic(&mut |p| pieces.push(*p));
            }
            if ranges.first().map(|r| r.start) != Some(0.0) || ranges.last().map(|r| r.end) != Some(1.0) || ranges.windows(2).any(|w| w[0].end != w[1].start) {
                bad.push(format!("{}-monotonic ranges do not chain from 0 to 1", name));
            }
            if ranges.len() != pieces.len() {
                bad.push(format!("{}-monotonic pieces and ranges differ in number", name));
            }
            for rg in &ranges {
                let vals: Vec<f64> = (0..=32).map(|i| { let p = q.sample(rg.start + (rg.end - rg.start) * i as f64 / 32.0); if axis == 0 { p.x } else { p.y } }).collect();
                if !coord_monotone(&vals, eps) {
                    bad.push(format!("{}-monotonic range is not monotonic in {}", name, name));
                }
            }
            for (rg, pc) in ranges.iter().zip(pieces.iter()) {
                let vals: Vec<f64> = (0..=32).map(|i| { let p = pc.sample(i as f64 / 32.0); if axis == 0 { p.x } else { p.y } }).collect();
                if !coord_monotone(&vals, eps) {
                    bad.push(format!("{}-monotonic piece is not monotonic in {}", name, name));
                }
                for i in 0..=8 {
                    let u = i as f64 / 8.0;
                    if !papprox(pc.sample(u), q.sample(rg.start + (rg.end - rg.start) * u), 1e-9 * span + slack * 1e3) {
                        bad.push(format!("{}-monotonic pieces do not retrace the curve", name));
                        break;
                    }
                }
            }
            // the predicate agrees with the split
            let flag = if axis == 0 { q.is_x_monotonic() } else { q.is_y_monotonic() };
            if flag != (ranges.len() == 1) {
                bad.push(format!("is_{}_monotonic disagrees with the {}-monotonic split", name, name));
            }
            if flag {
                let vals: Vec<f64> = (0..=64).map(|i| { let p = q.sample(i as f64 / 64.0); if axis == 0 { p.x } else { p.y } }).collect();
                if !coord_monotone(&vals, eps) {
                    bad.push(format!("is_{}_monotonic is true of a curve whose {} is not monotonic", name, name));
                }
            }
        }
        if q.is_monotonic() != (q.is_x_monotonic() && q.is_y_monotonic()) {
            bad.push("is_monotonic is not the conjunction of the two axes".into());
        }
        bad.dedup();
        bad
    });
    cx.st.inc("direct_quad_axis_monotone_checks");
    match r {
        Some(bad) => {
            for b in bad {
                cx.fail(&b, format!("{:?}", q));
            }
        }
        None => cx.fail("panic in quadratic x / y monotonic API", format!("{:?}", q)),
    }
}

fn check_cubic_axis_monotone(cx: &mut Ctx, c: &CubicBezierSegment<f64>, slack: f64) {
    let r = catch(|| {
        let mut bad: Vec<String> = Vec::new();
        let span = 1.0 + c.from.to_vector().length() + c.ctrl1.to_vector().length() + c.ctrl2.to_vector().length() + c.to.to_vector().length();
        let eps = 1e-9 * span + slack * 1e3;
        // 0 = x only, 1 = y only, 2 = both
        for axis in 0..3 {
            let name = ["x", "y", "xy"][axis];
            let mut ranges: Vec<std::ops::Range<f64>> = Vec::new();
            let mut pieces: Vec<CubicBezierSegment<f64>> = Vec::new();
            match axis {
                0 => {
                    c.for_each_x_monotonic_range(&mut |r| ranges.push(r));
                    c.for_each_x_monotonic(&mut |p| pieces.push(*p));
                }
                1 => {
                    c.for_each_y_monotonic_range(&mut |r| ranges.push(r));
                    c.for_each_y_monotonic(&mut |p| pieces.push(*p));
                }
                _ => {
                    c.for_each_monotonic_range(&mut |r| ranges.push(r));
                    c.for_each_monotonic(&mut |p| pieces.push(*p));
                }
            }
            if ranges.first().map(|r| r.start) != Some(0.0) || ranges.last().map(|r| r.end) != Some(1.0) || ranges.windows(2).any(|w| w[0].end != w[1].start) {
                bad.push(format!("cubic {}-monotonic ranges do not chain from 0 to 1", name));
            }
            if ranges.len() != pieces.len() {
                bad.push(format!("cubic {}-monotonic pieces and ranges differ in number", name));
            }
            let mono = |f: &dyn Fn(f64) -> lyon_geom::Point<f64>| -> (bool, bool) {
                let xs: Vec<f64> = (0..=32).map(|i| f(i as f64 / 32.0).x).collect();
                let ys: Vec<f64> = (0..=32).map(|i| f(i as f64 / 32.0).y).collect();
                (coord_monotone(&xs, eps), coord_monotone(&ys, eps))
            };
            for rg in &ranges {
                let (mx, my) = mono(&|u| c.sample(rg.start + (rg.end - rg.start) * u));
                if (axis != 1 && !mx) || (axis != 0 && !my) {
                    bad.push(format!("cubic {}-monotonic range is not monotonic", name));
                }
            }
            for (rg, pc) in ranges.iter().zip(pieces.iter()) {
                let (mx, my) = mono(&|u| pc.sample(u));
                if (axis != 1 && !mx) || (axis != 0 && !my) {
                    bad.push(format!("cubic {}-monotonic piece is not monotonic", name));
                }
                for i in 0..=8 {
                    let u = i as f64 / 8.0;
                    if !papprox(pc.sample(u), c.sample(rg.start + (rg.end - rg.start) * u), 1e-9 * span + slack * 1e3) {
                        bad.push(format!("cubic {}-monotonic pieces do not retrace the curve", name));
                        break;
                    }
                }
            }
            let flag = match axis {
                0 => c.is_x_monotonic(),
                1 => c.is_y_monotonic(),
                _ => c.is_monotonic(),
            };
            if flag != (ranges.len() == 1) {
                bad.push(format!("cubic is_{}_monotonic disagrees with the split", name));
            }
        }
        bad.dedup();
        bad
    });
    cx.st.inc("direct_cubic_axis_monotone_checks");
    match r {
        Some(bad) => {
            for b in bad {
                cx.fail(&b, format!("{:?}", c));
            }
        }
        None => cx.fail("panic in cubic x / y monotonic API", format!("{:?}", c)),
    }
}

fn check_cubic_boxes_f32(cx: &mut Ctx, c: &CubicBezierSegment<f32>) {
    let r = catch(|| {
        let mut bad: Vec<String> = Vec::new();
        let b = c.bounding_box();
        let f = c.fast_bounding_box();
        let c64 = CubicBezierSegment { from: point(c.from.x as f64, c.from.y as f64), ctrl1: point(c.ctrl1.x as f64, c.ctrl1.y as f64), ctrl2: point(c.ctrl2.x as f64, c.ctrl2.y as f64), to: point(c.to.x as f64, c.to.y as f64) };
        let (mut lx, mut hx, mut ly, mut hy) = (f64::MAX, f64::MIN, f64::MAX, f64::MIN);
        for i in 0..=512 {
            let p = c64.sample(i as f64 / 512.0);
            lx = lx.min(p.x);
            hx = hx.max(p.x);
            ly = ly.min(p.y);
            hy = hy.max(p.y);
        }
        let span = (hx - lx).max(hy - ly).max(1.0);
        let s = 1e-4 * span;
        if (b.min.x as f64) > lx + s || (b.max.x as f64) < hx - s || (b.min.y as f64) > ly + s || (b.max.y as f64) < hy - s {
            bad.push(format!("f32 bounding_box {:?} does not contain the curve (samples span x {}..{} y {}..{})", b, lx, hx, ly, hy));
        }
        let e = 1e-3 * span;
        if (b.min.x as f64) < lx - e || (b.max.x as f64) > hx + e || (b.min.y as f64) < ly - e || (b.max.y as f64) > hy + e {
            bad.push(format!("f32 bounding box {:?} is not tight (samples span x {}..{} y {}..{})", b, lx, hx, ly, hy));
        }
        if f.min.x > b.min.x || f.min.y > b.min.y || f.max.x < b.max.x || f.max.y < b.max.y {
            bad.push("f32 fast bounding box does not contain the exact one".into());
        }
        // the reported extremum parameters attain the sides
        let at = [c64.x(c.x_minimum_t() as f64), c64.x(c.x_maximum_t() as f64), c64.y(c.y_minimum_t() as f64), c64.y(c.y_maximum_t() as f64)];
        if (at[0] - lx).abs() > e || (at[1] - hx).abs() > e || (at[2] - ly).abs() > e || (at[3] - hy).abs() > e {
            bad.push(format!("f32 extremum parameters do not locate the extreme coordinates: {:?} vs x {}..{} y {}..{}", at, lx, hx, ly, hy));
        }
        bad
    });
    cx.st.inc("direct_cubic_f32_box_checks");
    match r {
        Some(bad) => {
            for b in bad {
                cx.fail(&b, format!("{:?}", c));
            }
        }
        None => cx.fail("panic in cubic bounding box API (f32)", format!("{:?}", c)),
    }
}

/// path-level boxes (lyon_algorithms::aabb) and fitting (lyon_algorithms::fit) on a random f32 path
fn check_path_boxes(cx: &mut Ctx, rng: &mut Rng) {
    use lyon_algorithms::aabb;
    use lyon_algorithms::fit::{fit_box, fit_path, FitStyle};
    use lyon_path::math::{point as pt, Box2D};
    use lyon_path::{Path, PathEvent};
    let lattice = rng.chance(1, 2);
    // one path in five is flat (all points on one horizontal or vertical line) or a lone point: boxes of zero
    // width / height are boxes of non-empty paths too
    let flat = rng.below(10);
    let (fx, fy) = (rng.range(-9, 9) as f32 + 0.5, rng.range(-9, 9) as f32 + 0.5);
    let mut g = |r: &mut Rng| {
        let p = if lattice { pt(r.range(-9, 9) as f32, r.range(-9, 9) as f32) } else { pt((r.unit_f64() * 40.0 - 20.0) as f32, (r.unit_f64() * 40.0 - 20.0) as f32) };
        match flat {
            0 => pt(p.x, fy),
            1 => pt(fx, p.y),
            _ => p,
        }
    };
    let mut b = Path::builder();
    let nsub = rng.below(4);
    for _ in 0..nsub {
        b.begin(g(rng));
        for _ in 0..rng.below(5) {
            match rng.below(3) {
                0 => {
                    b.line_to(g(rng));
                }
                1 => {
                    b.quadratic_bezier_to(g(rng), g(rng));
                }
                _ => {
                    b.cubic_bezier_to(g(rng), g(rng), g(rng));
                }
            }
        }
        b.end(rng.chance(1, 2));
    }
    let path = b.build();
    let label = format!("{:?}", path);
    cx.st.inc("evaluations");
    cx.st.inc("direct_path_box_checks");
    cx.st.note_case(&label, nsub > 0);
    let r = catch(std::panic::AssertUnwindSafe(|| {
        let mut bad: Vec<String> = Vec::new();
        let bx = aabb::bounding_box(path.iter());
        let fx = aabb::fast_bounding_box(path.iter());
        if nsub == 0 {
            if bx != Box2D::zero() || fx != Box2D::zero() {
                bad.push("bounding box of an empty path is not the zero box".into());
            }
            return bad;
        }
        // dense samples of every edge (f64 evaluation of the f32 control points)
        let (mut lx, mut hx, mut ly, mut hy) = (f64::MAX, f64::MIN, f64::MAX, f64::MIN);
        let mut acc = |x: f64, y: f64| {
            lx = lx.min(x);
            hx = hx.max(x);
            ly = ly.min(y);
            hy = hy.max(y);
        };
        let p64 = |p: lyon_path::math::Point| point(p.x as f64, p.y as f64);
        for e in path.iter() {
            match e {
                PathEvent::Begin { at } => acc(at.x as f64, at.y as f64),
                PathEvent::Line { to, .. } => acc(to.x as f64, to.y as f64),
                PathEvent::Quadratic { from, ctrl, to } => {
                    let q = QuadraticBezierSegment { from: p64(from), ctrl: p64(ctrl), to: p64(to) };
                    for i in 0..=256 {
                        let p = q.sample(i as f64 / 256.0);
                        acc(p.x, p.y);
                    }
                }
                PathEvent::Cubic { from, ctrl1, ctrl2, to } => {
                    let c = CubicBezierSegment { from: p64(from), ctrl1: p64(ctrl1), ctrl2: p64(ctrl2), to: p64(to) };
                    for i in 0..=256 {
                        let p = c.sample(i as f64 / 256.0);
                        acc(p.x, p.y);
                    }
                }
                PathEvent::End { .. } => {}
            }
        }
        let s = 1e-4 * (1.0 + (hx - lx).max(hy - ly));
        let (b0, b1, b2, b3) = (bx.min.x as f64, bx.max.x as f64, bx.min.y as f64, bx.max.y as f64);
        if b0 > lx + s || b1 < hx - s || b2 > ly + s || b3 < hy - s {
            bad.push(format!("path bounding box {:?} does not contain the path (samples span x {}..{} y {}..{})", bx, lx, hx, ly, hy));
        }
        let e = 2e-3 * (1.0 + (hx - lx).max(hy - ly));
        if b0 < lx - e || b1 > hx + e || b2 < ly - e || b3 > hy + e {
            bad.push(format!("path bounding box {:?} is not tight (samples span x {}..{} y {}..{})", bx, lx, hx, ly, hy));
        }
        if fx.min.x > bx.min.x || fx.min.y > bx.min.y || fx.max.x < bx.max.x || fx.max.y < bx.max.y {
            bad.push(format!("fast path bounding box {:?} does not contain the exact one {:?}", fx, bx));
        }
        // fitting: the image of the source box under fit_box, per style
        let dst = Box2D { min: pt(-3.0, 2.0), max: pt(5.0, 6.0) };
        if bx.width() > 0.01 && bx.height() > 0.01 {
            for style in [FitStyle::Stretch, FitStyle::Min, FitStyle::Max, FitStyle::Horizontal, FitStyle::Vertical] {
                let t = fit_box(&bx, &dst, style);
                let img = t.outer_transformed_box(&bx);
                let tol = 1e-3 * (1.0 + img.width().abs().max(img.height().abs()));
                let ceq = |a: f32, b: f32| (a - b).abs() <= tol;
                let (ic, dc) = (img.min.lerp(img.max, 0.5), dst.min.lerp(dst.max, 0.5));
                if !ceq(ic.x, dc.x) || !ceq(ic.y, dc.y) {
                    bad.push(format!("fit_box {:?}: the image of the source box is not centred in the destination", style));
                }
                let (sw, sh) = (img.width() / bx.width(), img.height() / bx.height());
                let ok = match style {
                    FitStyle::Stretch => ceq(img.width(), dst.width()) && ceq(img.height(), dst.height()),
                    FitStyle::Min => (sw - sh).abs() <= 1e-3 * sw.abs() && img.width() <= dst.width() + tol && img.height() <= dst.height() + tol && (ceq(img.width(), dst.width()) || ceq(img.height(), dst.height())),
                    FitStyle::Max => (sw - sh).abs() <= 1e-3 * sw.abs() && img.width() >= dst.width() - tol && img.height() >= dst.height() - tol && (ceq(img.width(), dst.width()) || ceq(img.height(), dst.height())),
                    FitStyle::Horizontal => (sw - sh).abs() <= 1e-3 * sw.abs() && ceq(img.width(), dst.width()),
                    FitStyle::Vertical => (sw - sh).abs() <= 1e-3 * sw.abs() && ceq(img.height(), dst.height()),
                };
                if !ok {
                    bad.push(format!("fit_box {:?}: source {:?} is mapped to {:?}, destination {:?}", style, bx, img, dst));
                }
                // fit_path: the fitted path's box is that image
                let fitted = fit_path(&path, &dst, style);
                let fb = aabb::bounding_box(fitted.iter());
                let tol2 = 5e-3 * (1.0 + img.width().abs().max(img.height().abs()));
                if (fb.min.x - img.min.x).abs() > tol2 || (fb.max.x - img.max.x).abs() > tol2 || (fb.min.y - img.min.y).abs() > tol2 || (fb.max.y - img.max.y).abs() > tol2 {
                    bad.push(format!("fit_path {:?}: the fitted path's bounding box {:?} is not the fitted box {:?}", style, fb, img));
                }
                if fitted.iter().count() != path.iter().count() {
                    bad.push(format!("fit_path {:?}: the fitted path has a different number of events", style));
                }
            }
        }
        bad
    }));
    match r {
        Some(bad) => {
            for b in bad {
                cx.fail(&b, label.clone());
            }
        }
        None => cx.fail("panic in path bounding box / fit API", label),
    }
}

fn check_arc_boxes(cx: &mut Ctx, arc: &lyon_geom::Arc<f64>) {
    cx.st.inc("arcs");
    cx.st.inc(if arc.sweep_angle.radians < 0.0 { "arcs_negative_sweep" } else { "arcs_positive_sweep" });
    let label = format!("{:?}", arc);
    let r = catch(|| {
        let mut bad: Vec<(String, Option<&'static str>)> = Vec::new();
        let b = arc.bounding_box();
        let f = arc.fast_bounding_box();
        let scale = 1.0 + arc.center.x.abs() + arc.center.y.abs() + arc.radii.x + arc.radii.y;
        let s = 1e-7 * scale;
        let n = 2048;
        let (mut lx, mut hx, mut ly, mut hy) = (f64::MAX, f64::MIN, f64::MAX, f64::MIN);
        let mut out = false;
        for i in 0..=n {
            let p = arc.sample(i as f64 / n as f64);
            lx = lx.min(p.x);
            hx = hx.max(p.x);
            ly = ly.min(p.y);
            hy = hy.max(p.y);
            if !within(b.min.x, p.x, b.max.x, s) || !within(b.min.y, p.y, b.max.y, s) {
                out = true;
            }
        }
        if out {
            bad.push(("the exact bounding box of an arc does not contain the arc".into(), None));
        }
        // sampled extremes are within (max radius * (sweep / n)^2 / 2) of the true ones
        let e = arc.radii.x.max(arc.radii.y) * (arc.sweep_angle.radians / n as f64).powi(2) + s;
        if b.min.x < lx - e || b.max.x > hx + e || b.min.y < ly - e || b.max.y > hy + e {
            bad.push(("the exact bounding box of an arc is not touched on all four sides".into(), None));
        }
        if !(f.min.x <= lx + s && f.min.y <= ly + s && f.max.x >= hx - s && f.max.y >= hy - s) {
            bad.push(("the fast bounding box of an arc does not contain the arc".into(), None));
        }
        let mut ts: Vec<(f64, bool)> = Vec::new();
        arc.for_each_local_x_extremum_t(&mut |t| ts.push((t, true)));
        arc.for_each_local_y_extremum_t(&mut |t| ts.push((t, false)));
        for (t, is_x) in ts {
            if !(0.0..=1.0).contains(&t) {
                bad.push((format!("an extremum parameter of an arc is outside [0,1]: {}", t), None));
                continue;
            }
            // the coordinate is stationary there
            let h = 1e-4;
            let c = |u: f64| if is_x { arc.sample(u).x } else { arc.sample(u).y };
            let d = (c((t + h).min(1.0)) - c((t - h).max(0.0))).abs();
            let speed = arc.radii.x.max(arc.radii.y) * arc.sweep_angle.radians.abs();
            if t > h && t < 1.0 - h && d > 1e-3 * speed * h * 2.0 + 1e-12 {
                bad.push((format!("the coordinate of an arc is not extremal at the reported parameter: {} ({})", t, if is_x { "x" } else { "y" }), None));
            }
        }
        bad
    });
    match r {
        None => cx.st.fail(jobj(&[("what", jstr("arc bounding box panicked")), ("input", jstr(&label))])),
        Some(bad) => {
            for (what, _) in bad {
                let w0 = what.split(':').next().unwrap_or("").to_string();
                cx.st.fail(jobj(&[("what", jstr(&w0)), ("input", jstr(&format!("{} :: {}", what, label)))]));
            }
        }
    }
}

fn check_quad_boxes(cx: &mut Ctx, q: &QuadraticBezierSegment<f64>, slack: f64) {
    let r = catch(|| {
        let mut bad: Vec<String> = Vec::new();
        let b = q.bounding_box();
        let f = q.fast_bounding_box();
        let s = slack * 100.0 + 1e-12;
        let (mut lx, mut hx, mut ly, mut hy) = (f64::MAX, f64::MIN, f64::MAX, f64::MIN);
        for i in 0..=256 {
            let p = q.sample(i as f64 / 256.0);
            lx = lx.min(p.x);
            hx = hx.max(p.x);
            ly = ly.min(p.y);
            hy = hy.max(p.y);
            if !within(b.min.x, p.x, b.max.x, s) || !within(b.min.y, p.y, b.max.y, s) {
                bad.push(format!("bounding_box does not contain sample t={}/256", i));
                break;
            }
        }
        // tight: every side is attained at the reported parameter
        let at = [q.x(q.x_minimum_t()), q.x(q.x_maximum_t()), q.y(q.y_minimum_t()), q.y(q.y_maximum_t())];
        if !(approx(at[0], b.min.x, s) && approx(at[1], b.max.x, s) && approx(at[2], b.min.y, s) && approx(at[3], b.max.y, s)) {
            bad.push("bounding box side not attained at the reported extremum parameter".into());
        }
        // tight against dense sampling (1/256 grid: error <= second derivative / 2 * (1/512)^2 * ... use loose bound)
        let span = (hx - lx).max(hy - ly).max(1.0);
        let e = span * 2e-4 + s;
        if b.min.x < lx - e || b.max.x > hx + e || b.min.y < ly - e || b.max.y > hy + e {
            bad.push("bounding box is not tight".into());
        }
        if !(f.min.x <= b.min.x + s && f.min.y <= b.min.y + s && f.max.x >= b.max.x - s && f.max.y >= b.max.y - s) {
            bad.push("fast bounding box does not contain the exact one".into());
        }
        // extrema are where the coordinate is extremal
        for t in [q.x_minimum_t(), q.x_maximum_t(), q.y_minimum_t(), q.y_maximum_t()] {
            if !(0.0..=1.0).contains(&t) {
                bad.push(format!("extremum parameter {} outside [0,1]", t));
            }
        }
        // monotone pieces: monotone and retrace the curve
        let mut ranges = Vec::new();
        q.for_each_monotonic_range(&mut |r| ranges.push(r));
        let mut pieces = Vec::new();
        q.for_each_monotonic(&mut |p| pieces.push(*p));
        if ranges.first().map(|r| r.start) != Some(0.0) || ranges.last().map(|r| r.end) != Some(1.0) {
            bad.push("monotonic ranges do not span 0..1".into());
        }
        for w in ranges.windows(2) {
            if w[0].end != w[1].start {
                bad.push("monotonic ranges are not contiguous".into());
            }
        }
        for (rg, pc) in ranges.iter().zip(pieces.iter()) {
            let mut prev = pc.sample(0.0);
            let (mut sx, mut sy) = (0.0f64, 0.0f64);
            for i in 1..=32 {
                let u = i as f64 / 32.0;
                let p = pc.sample(u);
                let (dx, dy) = (p.x - prev.x, p.y - prev.y);
                if dx.abs() > s {
                    if sx != 0.0 && dx.signum() != sx {
                        bad.push("piece is not x-monotonic".into());
                    }
                    sx = dx.signum();
                }
                if dy.abs() > s {
                    if sy != 0.0 && dy.signum() != sy {
                        bad.push("piece is not y-monotonic".into());
                    }
                    sy = dy.signum();
                }
                prev = p;
                let want = q.sample(rg.start + (rg.end - rg.start) * u);
                if !papprox(p, want, 1e-9 + slack * 1e3) {
                    bad.push("monotonic pieces do not retrace the curve".into());
                }
            }
        }
        bad.dedup();
        bad
    });
    cx.st.inc("direct_quad_box_checks");
    match r {
        Some(bad) => {
            for b in bad {
                cx.fail(&b, format!("{:?}", q));
            }
        }
        None => cx.fail("panic in quadratic bounding box / monotonic API", format!("{:?}", q)),
    }
}

fn check_cubic_boxes(cx: &mut Ctx, c: &CubicBezierSegment<f64>, slack: f64) {
    let r = catch(|| {
        let mut bad: Vec<String> = Vec::new();
        let b = c.bounding_box();
        let f = c.fast_bounding_box();
        let s = slack * 100.0 + 1e-9;
        let (mut lx, mut hx, mut ly, mut hy) = (f64::MAX, f64::MIN, f64::MAX, f64::MIN);
        for i in 0..=512 {
            let p = c.sample(i as f64 / 512.0);
            lx = lx.min(p.x);
            hx = hx.max(p.x);
            ly = ly.min(p.y);
            hy = hy.max(p.y);
            if !within(b.min.x, p.x, b.max.x, s) || !within(b.min.y, p.y, b.max.y, s) {
                bad.push(format!("bounding_box does not contain sample t={}/512", i));
                break;
            }
        }
        let span = (hx - lx).max(hy - ly).max(1.0);
        let e = span * 2e-4 + s;
        if b.min.x < lx - e || b.max.x > hx + e || b.min.y < ly - e || b.max.y > hy + e {
            bad.push("bounding box is not tight".into());
        }
        if !(f.min.x <= b.min.x + s && f.min.y <= b.min.y + s && f.max.x >= b.max.x - s && f.max.y >= b.max.y - s) {
            bad.push("fast bounding box does not contain the exact one".into());
        }
        let at = [c.x(c.x_minimum_t()), c.x(c.x_maximum_t()), c.y(c.y_minimum_t()), c.y(c.y_maximum_t())];
        if !(approx(at[0], b.min.x, s) && approx(at[1], b.max.x, s) && approx(at[2], b.min.y, s) && approx(at[3], b.max.y, s)) {
            bad.push("bounding box side not attained at the reported extremum parameter".into());
        }
        // reported local extrema are roots of the derivative inside (0,1)
        let mut ts = Vec::new();
        c.for_each_local_x_extremum_t(&mut |t| ts.push((t, true)));
        c.for_each_local_y_extremum_t(&mut |t| ts.push((t, false)));
        for (t, isx) in ts {
            let d = if isx { c.dx(t) } else { c.dy(t) };
            let scale = 1.0 + c.from.to_vector().length() + c.ctrl1.to_vector().length() + c.ctrl2.to_vector().length() + c.to.to_vector().length();
            if !(t > 0.0 && t < 1.0) || d.abs() > 1e-6 * scale * 30.0 {
                bad.push(format!("reported extremum t={} is not a root of the derivative in (0,1)", t));
            }
        }
        // monotone pieces
        let mut ranges = Vec::new();
        c.for_each_monotonic_range(&mut |r| ranges.push(r));
        if ranges.first().map(|r| r.start) != Some(0.0) || ranges.last().map(|r| r.end) != Some(1.0) {
            bad.push("monotonic ranges do not span 0..1".into());
        }
        for w in ranges.windows(2) {
            if w[0].end != w[1].start {
                bad.push("monotonic ranges are not contiguous".into());
            }
        }
        for rg in &ranges {
            let (mut sx, mut sy) = (0.0f64, 0.0f64);
            let mut prev = c.sample(rg.start);
            for i in 1..=32 {
                let p = c.sample(rg.start + (rg.end - rg.start) * (i as f64 / 32.0));
                let (dx, dy) = (p.x - prev.x, p.y - prev.y);
                let eps = 1e-9 * span + slack * 1e3;
                if dx.abs() > eps {
                    if sx != 0.0 && dx.signum() != sx {
                        bad.push("range is not x-monotonic".into());
                    }
                    sx = dx.signum();
                }
                if dy.abs() > eps {
                    if sy != 0.0 && dy.signum() != sy {
                        bad.push("range is not y-monotonic".into());
                    }
                    sy = dy.signum();
                }
                prev = p;
            }
        }
        bad.dedup();
        bad
    });
    cx.st.inc("direct_cubic_box_checks");
    match r {
        Some(bad) => {
            for b in bad {
                cx.fail(&b, format!("{:?}", c));
            }
        }
        None => cx.fail("panic in cubic bounding box / monotonic API", format!("{:?}", c)),
    }
}
