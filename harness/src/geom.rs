//! C10 / C11: curve algebra of lyon_geom at f64 on the exactness domain
//! (integer control points, dyadic parameters): every operation is exact, so
//! the implementation's answers are compared with the rational model for
//! equality.  Also evaluates the properties directly (sampling identities,
//! box containment/tightness) on exact and on general (non-dyadic) inputs.
use crate::util::*;
use lyon_geom::euclid::default::Transform2D;
use lyon_geom::{point, CubicBezierSegment, LineSegment, Point, QuadraticBezierSegment, Segment};

type P = Point<f64>;

fn gq(v: f64) -> String {
    if v.is_finite() {
        gq64(v)
    } else {
        "(123456789 # 1)".to_string()
    }
}
fn gqs(v: &[f64]) -> String {
    glist(v.iter().map(|x| gq(*x)))
}
fn fp(ps: &[P]) -> Vec<f64> {
    ps.iter().flat_map(|p| vec![p.x, p.y]).collect()
}
fn fl(l: &LineSegment<f64>) -> Vec<f64> {
    fp(&[l.from, l.to])
}
fn fq(q: &QuadraticBezierSegment<f64>) -> Vec<f64> {
    fp(&[q.from, q.ctrl, q.to])
}
fn fc(c: &CubicBezierSegment<f64>) -> Vec<f64> {
    fp(&[c.from, c.ctrl1, c.ctrl2, c.to])
}

pub const HEADER: &str =
    "From Coq Require Import QArith.\nFrom LV Require Import Base.Prelude Model.Bezier Run.Geom.\nOpen Scope Q_scope.";

struct Ctx<'a> {
    w: &'a mut ShardWriter,
    st: &'a mut Stats,
    idx: &'a mut std::fs::File,
    id: usize,
    tag: &'static str,
}

impl<'a> Ctx<'a> {
    fn emit(&mut self, kind: i64, op: i64, ctrl: &[f64], par: &[f64], out: Option<Vec<f64>>) {
        use std::io::Write;
        let out = match out {
            Some(o) => o,
            None => {
                self.st.fail(jobj(&[
                    ("what", jstr("lyon_geom panicked")),
                    ("input", jstr(&format!("kind {} op {} ctrl {:?} par {:?}", kind, op, ctrl, par))),
                ]));
                return;
            }
        };
        let text = format!("kind={} op={} ctrl={:?} par={:?}", kind, op, ctrl, par);
        writeln!(self.idx, "{}\t{} -> {:?}", self.id, text, out).ok();
        self.st.inc("evaluations");
        self.st.inc(&format!("{}_kind{}_op{}", self.tag, kind, op));
        let degenerate = ctrl.chunks(2).all(|c| c[0] == ctrl[0] && c[1] == ctrl[1]);
        self.st.note_case(&text, !degenerate);
        self.st.sample(format!("{} -> {:?}", text, out));
        self.w.push(format!(
            "(mkG {} {} {} {} {} {})",
            self.id,
            kind,
            op,
            gqs(ctrl),
            gqs(par),
            gqs(&out)
        ));
        self.id += 1;
    }
    fn fail(&mut self, what: &str, input: String) {
        self.st.fail(jobj(&[("what", jstr(what)), ("input", jstr(&input))]));
    }
}

fn ipt(r: &mut Rng, m: i64) -> P {
    point(r.range(-m, m) as f64, r.range(-m, m) as f64)
}
fn dy(r: &mut Rng) -> f64 {
    // dyadic parameter k/16, mostly in [0,1], sometimes the end points
    match r.below(10) {
        0 => 0.0,
        1 => 1.0,
        _ => r.range(0, 16) as f64 / 16.0,
    }
}

/// control polygons: random, with deliberate degeneracies
fn ctrl_points(r: &mut Rng, n: usize) -> Vec<P> {
    let mode = r.below(8);
    let mut v: Vec<P> = (0..n).map(|_| ipt(r, 8)).collect();
    match mode {
        0 => {
            // all equal
            let p = v[0];
            for q in v.iter_mut() {
                *q = p;
            }
        }
        1 => {
            // collinear
            let a = ipt(r, 3);
            let d = ipt(r, 2);
            for (i, q) in v.iter_mut().enumerate() {
                let k = r.range(-2, 3) as f64 + i as f64 * 0.0;
                *q = point(a.x + d.x * k, a.y + d.y * k);
            }
        }
        2 => {
            // start == end
            let p = v[0];
            v[n - 1] = p;
        }
        3 => {
            // coincident control point
            if n > 2 {
                v[1] = v[0];
            }
        }
        _ => {}
    }
    v
}

fn approx(a: f64, b: f64, tol: f64) -> bool {
    (a - b).abs() <= tol * (1.0 + a.abs().max(b.abs()))
}
fn papprox(a: P, b: P, tol: f64) -> bool {
    approx(a.x, b.x, tol) && approx(a.y, b.y, tol)
}

fn xf(r: &mut Rng) -> (Transform2D<f64>, Vec<f64>) {
    let m: Vec<f64> = (0..6).map(|_| r.range(-3, 3) as f64).collect();
    (Transform2D::new(m[0], m[1], m[2], m[3], m[4], m[5]), m)
}

pub fn main_c10(args: &Args) -> std::io::Result<()> {
    let mut st = Stats::default();
    let mut w = ShardWriter::new(&args.out, "c10_cases", args.shards, HEADER, "bad_cases");
    w.disabled = args.direct_only();
    let mut idx = std::fs::File::create(args.out.join("c10_index.txt"))?;
    let mut rng = Rng::new(args.seed ^ 0x10);
    let n = if args.thorough() { 6000 } else { 700 };
    let mut cx = Ctx { w: &mut w, st: &mut st, idx: &mut idx, id: 0, tag: "c10" };
    for _ in 0..n {
        let r = &mut rng;
        let (t, u) = (dy(r), dy(r));
        let (mut a, mut b) = (dy(r), dy(r));
        if a > b {
            std::mem::swap(&mut a, &mut b);
        }
        // ---------------- line
        let p = ctrl_points(r, 2);
        let l = LineSegment { from: p[0], to: p[1] };
        let c = fl(&l);
        cx.emit(1, 1, &c, &[t], catch(|| fp(&[l.sample(t)])));
        cx.emit(1, 2, &c, &[t], catch(|| vec![l.x(t), l.y(t)]));
        cx.emit(1, 4, &c, &[], catch(|| fl(&l.flip())));
        cx.emit(1, 5, &c, &[a, b], catch(|| fl(&l.split_range(a..b))));
        cx.emit(1, 6, &c, &[t], catch(|| {
            let (x, y) = l.split(t);
            [fl(&x), fl(&y)].concat()
        }));
        cx.emit(1, 7, &c, &[t], catch(|| fl(&l.before_split(t))));
        cx.emit(1, 8, &c, &[t], catch(|| fl(&l.after_split(t))));
        let (m, mv) = xf(r);
        cx.emit(1, 9, &c, &mv, catch(|| fl(&l.transformed(&m))));
        // direct: the identities of the property, exact on this domain
        let (s0, s1) = l.split(t);
        if s0.sample(u) != l.sample(t * u) || s1.sample(u) != l.sample(t + (1.0 - t) * u) {
            cx.fail("line split pieces do not retrace the segment", format!("{:?} t={} u={}", l, t, u));
        }
        if l.split_range(a..b).sample(u) != l.sample(a + (b - a) * u) {
            cx.fail("line split_range does not retrace", format!("{:?} {}..{} u={}", l, a, b, u));
        }
        if l.flip().sample(u) != l.sample(1.0 - u) {
            cx.fail("line flip", format!("{:?} u={}", l, u));
        }
        if l.transformed(&m).sample(t) != m.transform_point(l.sample(t)) {
            cx.fail("line transform does not commute with sampling", format!("{:?} {:?} t={}", l, mv, t));
        }
        // Segment trait glue agrees with the inherent methods
        if Segment::sample(&l, t) != l.sample(t) || Segment::flip(&l) != l.flip() || Segment::split(&l, t) != l.split(t) {
            cx.fail("Segment trait glue differs (line)", format!("{:?} t={}", l, t));
        }
        if !approx(l.before_split(t).length() + l.after_split(t).length(), l.length(), 1e-12) {
            cx.fail("line lengths of the split pieces do not add up", format!("{:?} t={}", l, t));
        }

        // ---------------- quadratic
        let p = ctrl_points(r, 3);
        let q = QuadraticBezierSegment { from: p[0], ctrl: p[1], to: p[2] };
        let c = fq(&q);
        cx.emit(2, 1, &c, &[t], catch(|| fp(&[q.sample(t)])));
        cx.emit(2, 2, &c, &[t], catch(|| vec![q.x(t), q.y(t)]));
        cx.emit(2, 3, &c, &[t], catch(|| {
            let d = q.derivative(t);
            vec![d.x, d.y]
        }));
        cx.emit(2, 4, &c, &[], catch(|| fq(&q.flip())));
        // the per-coordinate derivative accessors, inherent and through the Segment trait
        cx.emit(2, 18, &c, &[t], catch(|| vec![q.dx(t), q.dy(t)]));
        cx.emit(2, 18, &c, &[t], catch(|| vec![Segment::dx(&q, t), Segment::dy(&q, t)]));
        cx.emit(2, 2, &c, &[t], catch(|| vec![Segment::x(&q, t), Segment::y(&q, t)]));
        cx.emit(2, 5, &c, &[a, b], catch(|| fq(&q.split_range(a..b))));
        cx.emit(2, 6, &c, &[t], catch(|| {
            let (x, y) = q.split(t);
            [fq(&x), fq(&y)].concat()
        }));
        cx.emit(2, 7, &c, &[t], catch(|| fq(&q.before_split(t))));
        cx.emit(2, 8, &c, &[t], catch(|| fq(&q.after_split(t))));
        let (m, mv) = xf(r);
        cx.emit(2, 9, &c, &mv, catch(|| fq(&q.transformed(&m))));
        {
            // to_cubic divides by 3: choose from, to congruent to ctrl modulo 3
            let ct = ipt(r, 6);
            let q3 = QuadraticBezierSegment {
                from: point(ct.x + 3.0 * r.range(-3, 3) as f64, ct.y + 3.0 * r.range(-3, 3) as f64),
                ctrl: ct,
                to: point(ct.x + 3.0 * r.range(-3, 3) as f64, ct.y + 3.0 * r.range(-3, 3) as f64),
            };
            cx.emit(2, 10, &fq(&q3), &[], catch(|| fc(&q3.to_cubic())));
            if q3.to_cubic().sample(t) != q3.sample(t) {
                cx.fail("degree elevation does not commute with sampling", format!("{:?} t={}", q3, t));
            }
        }
        let (s0, s1) = q.split(t);
        if s0.sample(u) != q.sample(t * u) || s1.sample(u) != q.sample(t + (1.0 - t) * u) {
            cx.fail("quadratic split pieces do not retrace the curve", format!("{:?} t={} u={}", q, t, u));
        }
        if q.before_split(t) != s0 || q.after_split(t) != s1 {
            cx.fail("quadratic before/after_split differ from split", format!("{:?} t={}", q, t));
        }
        if q.split_range(a..b).sample(u) != q.sample(a + (b - a) * u) {
            cx.fail("quadratic split_range does not retrace", format!("{:?} {}..{} u={}", q, a, b, u));
        }
        if q.flip().sample(u) != q.sample(1.0 - u) {
            cx.fail("quadratic flip", format!("{:?} u={}", q, u));
        }
        if q.transformed(&m).sample(t) != m.transform_point(q.sample(t)) {
            cx.fail("quadratic transform does not commute with sampling", format!("{:?} {:?} t={}", q, mv, t));
        }
        {
            // derivative = slope of the sampled curve: second-order difference quotient is exact here
            let h = 1.0 / 64.0;
            let d = (q.sample(t + h) - q.sample(t - h)) / (2.0 * h);
            let dd = q.derivative(t);
            if d != dd {
                cx.fail("quadratic derivative is not the slope of the sampled curve", format!("{:?} t={}", q, t));
            }
        }
        if q.dx(t) != q.derivative(t).x || q.dy(t) != q.derivative(t).y || Segment::dx(&q, t) != q.derivative(t).x || Segment::dy(&q, t) != q.derivative(t).y {
            cx.fail("quadratic dx / dy differ from the derivative", format!("{:?} t={}", q, t));
        }
        if Segment::from(&q) != q.from || Segment::to(&q) != q.to || Segment::x(&q, t) != q.sample(t).x || Segment::y(&q, t) != q.sample(t).y {
            cx.fail("Segment trait glue differs (quadratic from / to / x / y)", format!("{:?} t={}", q, t));
        }
        if Segment::sample(&q, t) != q.sample(t) || Segment::flip(&q) != q.flip() || Segment::split(&q, t) != q.split(t)
            || Segment::split_range(&q, a..b) != q.split_range(a..b) || Segment::derivative(&q, t) != q.derivative(t)
        {
            cx.fail("Segment trait glue differs (quadratic)", format!("{:?} t={}", q, t));
        }
        {
            let whole = q.length();
            let parts = q.before_split(t).length() + q.after_split(t).length();
            if !approx(whole, parts, 1e-6) {
                cx.fail("quadratic lengths of the split pieces do not add up", format!("{:?} t={} {} vs {}", q, t, whole, parts));
            }
            let n = 1024;
            let mut sl = 0.0;
            let mut prev = q.sample(0.0);
            for i in 1..=n {
                let p = q.sample(i as f64 / n as f64);
                sl += (p - prev).length();
                prev = p;
            }
            let seg_len = Segment::approximate_length(&q, 1e-4);
            if !approx(whole, sl, 1e-3) || !approx(seg_len, sl, 1e-3) {
                cx.fail("quadratic length is not the length of the sampled curve", format!("{:?} {} (trait {}) vs sampled {}", q, whole, seg_len, sl));
            }
        }

        // ---------------- cubic
        let p = ctrl_points(r, 4);
        let cb = CubicBezierSegment { from: p[0], ctrl1: p[1], ctrl2: p[2], to: p[3] };
        let c = fc(&cb);
        cx.emit(3, 1, &c, &[t], catch(|| fp(&[cb.sample(t)])));
        cx.emit(3, 2, &c, &[t], catch(|| vec![cb.x(t), cb.y(t)]));
        cx.emit(3, 3, &c, &[t], catch(|| {
            let d = cb.derivative(t);
            vec![d.x, d.y]
        }));
        cx.emit(3, 4, &c, &[], catch(|| fc(&cb.flip())));
        cx.emit(3, 18, &c, &[t], catch(|| vec![cb.dx(t), cb.dy(t)]));
        cx.emit(3, 18, &c, &[t], catch(|| vec![Segment::dx(&cb, t), Segment::dy(&cb, t)]));
        cx.emit(3, 2, &c, &[t], catch(|| vec![Segment::x(&cb, t), Segment::y(&cb, t)]));
        cx.emit(3, 5, &c, &[a, b], catch(|| fc(&cb.split_range(a..b))));
        cx.emit(3, 6, &c, &[t], catch(|| {
            let (x, y) = cb.split(t);
            [fc(&x), fc(&y)].concat()
        }));
        cx.emit(3, 7, &c, &[t], catch(|| fc(&cb.before_split(t))));
        cx.emit(3, 8, &c, &[t], catch(|| fc(&cb.after_split(t))));
        let (m, mv) = xf(r);
        cx.emit(3, 9, &c, &mv, catch(|| fc(&cb.transformed(&m))));
        cx.emit(3, 10, &c, &[], catch(|| fq(&cb.to_quadratic())));
        let (s0, s1) = cb.split(t);
        if s0.sample(u) != cb.sample(t * u) || s1.sample(u) != cb.sample(t + (1.0 - t) * u) {
            cx.fail("cubic split pieces do not retrace the curve", format!("{:?} t={} u={}", cb, t, u));
        }
        if cb.before_split(t) != s0 || cb.after_split(t) != s1 {
            cx.fail("cubic before/after_split differ from split", format!("{:?} t={}", cb, t));
        }
        if cb.split_range(a..b).sample(u) != cb.sample(a + (b - a) * u) {
            cx.fail("cubic split_range does not retrace", format!("{:?} {}..{} u={}", cb, a, b, u));
        }
        if cb.flip().sample(u) != cb.sample(1.0 - u) {
            cx.fail("cubic flip", format!("{:?} u={}", cb, u));
        }
        if cb.transformed(&m).sample(t) != m.transform_point(cb.sample(t)) {
            cx.fail("cubic transform does not commute with sampling", format!("{:?} {:?} t={}", cb, mv, t));
        }
        {
            // f(t+h)-f(t-h) = 2h f'(t) + (h^3/3) f''' ; f''' = 6 (to - 3 c2 + 3 c1 - from)
            let h = 1.0 / 64.0;
            let third = (cb.to.to_vector() - cb.ctrl2.to_vector() * 3.0 + cb.ctrl1.to_vector() * 3.0 - cb.from.to_vector()) * 6.0;
            let lhs = cb.sample(t + h) - cb.sample(t - h);
            let rhs = cb.derivative(t) * (2.0 * h) + third * (h * h * h / 3.0);
            if lhs != rhs {
                cx.fail("cubic derivative is not the slope of the sampled curve", format!("{:?} t={}", cb, t));
            }
        }
        if cb.dx(t) != cb.derivative(t).x || cb.dy(t) != cb.derivative(t).y || Segment::dx(&cb, t) != cb.derivative(t).x || Segment::dy(&cb, t) != cb.derivative(t).y {
            cx.fail("cubic dx / dy differ from the derivative", format!("{:?} t={}", cb, t));
        }
        if Segment::from(&cb) != cb.from || Segment::to(&cb) != cb.to || Segment::x(&cb, t) != cb.sample(t).x || Segment::y(&cb, t) != cb.sample(t).y {
            cx.fail("Segment trait glue differs (cubic from / to / x / y)", format!("{:?} t={}", cb, t));
        }
        if Segment::sample(&cb, t) != cb.sample(t) || Segment::flip(&cb) != cb.flip() || Segment::split(&cb, t) != cb.split(t)
            || Segment::split_range(&cb, a..b) != cb.split_range(a..b) || Segment::derivative(&cb, t) != cb.derivative(t)
        {
            cx.fail("Segment trait glue differs (cubic)", format!("{:?} t={}", cb, t));
        }
        {
            let tol = 1e-4;
            let whole = cb.approximate_length(tol);
            let parts = cb.before_split(t).approximate_length(tol) + cb.after_split(t).approximate_length(tol);
            if !approx(whole, parts, 2e-2) {
                cx.fail("cubic lengths of the split pieces do not add up", format!("{:?} t={} {} vs {}", cb, t, whole, parts));
            }
            // the length is the length of the curve: against the polyline through 1024 samples (a lower bound that
            // converges to the length)
            let n = 1024;
            let mut sl = 0.0;
            let mut prev = cb.sample(0.0);
            for i in 1..=n {
                let p = cb.sample(i as f64 / n as f64);
                sl += (p - prev).length();
                prev = p;
            }
            let seg_len = Segment::approximate_length(&cb, tol);
            if !approx(whole, sl, 2e-2) || seg_len != whole {
                cx.fail("cubic approximate_length is not the length of the sampled curve", format!("{:?} {} (trait {}) vs sampled {}", cb, whole, seg_len, sl));
            }
        }
    }
    // ---- the same identities at f32 (lyon's default scalar), numerically: lattice curves (with coincident control
    // points) as they are and moved by an affine map; split / sub-range / flip retrace the curve, derivative = slope,
    // coordinates, lengths finite and additive
    let nf = if args.thorough() { 60000 } else { 8000 };
    for it in 0..nf {
        let r = &mut rng;
        let g = |r: &mut Rng| point(r.range(-9, 9) as f32, r.range(-9, 9) as f32);
        let t = lyon_geom::euclid::default::Transform2D::<f32>::new(
            0.3 + r.unit_f64() as f32, (r.unit_f64() - 0.5) as f32, (r.unit_f64() - 0.5) as f32, 0.3 + r.unit_f64() as f32,
            (r.unit_f64() * 10.0 - 5.0) as f32, (r.unit_f64() * 10.0 - 5.0) as f32);
        let mv = |p: lyon_geom::Point<f32>| if it % 2 == 0 { p } else { t.transform_point(p) };
        let mut c0 = CubicBezierSegment { from: g(r), ctrl1: g(r), ctrl2: g(r), to: g(r) };
        match it % 7 {
            1 => c0.ctrl1 = c0.from,
            2 => c0.ctrl2 = c0.to,
            3 => { c0.ctrl1 = c0.from; c0.ctrl2 = c0.to }
            4 => c0.to = c0.from,
            5 => c0.ctrl1 = c0.ctrl2,
            _ => {}
        }
        let c = CubicBezierSegment { from: mv(c0.from), ctrl1: mv(c0.ctrl1), ctrl2: mv(c0.ctrl2), to: mv(c0.to) };
        let mut q0 = QuadraticBezierSegment { from: g(r), ctrl: g(r), to: g(r) };
        match it % 5 {
            1 => q0.ctrl = q0.to,
            2 => q0.ctrl = q0.from,
            3 => q0.to = q0.from,
            _ => {}
        }
        let q = QuadraticBezierSegment { from: mv(q0.from), ctrl: mv(q0.ctrl), to: mv(q0.to) };
        let (a, b) = (0.1 + 0.3 * r.unit_f64() as f32, 0.6 + 0.3 * r.unit_f64() as f32);
        let tt = 0.3 + 0.4 * r.unit_f64() as f32;
        cx.st.inc("evaluations");
        cx.st.inc("f32_curves");
        let label = format!("{:?} / {:?} a={} b={} t={}", q, c, a, b, tt);
        cx.st.note_case(&label, true);
        let res = catch(|| {
            let mut bad: Vec<&'static str> = Vec::new();
            let scale = 1.0 + [c.from, c.ctrl1, c.ctrl2, c.to, q.from, q.ctrl, q.to].iter().map(|p| p.to_vector().length()).fold(0.0f32, f32::max);
            let e = 2e-4 * scale;
            let (cs0, cs1) = c.split(a);
            let (qs0, qs1) = q.split(a);
            for i in 0..=4 {
                let u = i as f32 / 4.0;
                if (c.split_range(a..b).sample(u) - c.sample(a + (b - a) * u)).length() > e
                    || (cs0.sample(u) - c.sample(a * u)).length() > e
                    || (cs1.sample(u) - c.sample(a + (1.0 - a) * u)).length() > e
                    || (c.before_split(a).sample(u) - cs0.sample(u)).length() > e
                    || (c.after_split(a).sample(u) - cs1.sample(u)).length() > e
                    || (c.flip().sample(u) - c.sample(1.0 - u)).length() > e
                {
                    bad.push("f32 cubic: split / sub-range / flip do not retrace the curve");
                    break;
                }
                if (q.split_range(a..b).sample(u) - q.sample(a + (b - a) * u)).length() > e
                    || (qs0.sample(u) - q.sample(a * u)).length() > e
                    || (qs1.sample(u) - q.sample(a + (1.0 - a) * u)).length() > e
                    || (q.before_split(a).sample(u) - qs0.sample(u)).length() > e
                    || (q.after_split(a).sample(u) - qs1.sample(u)).length() > e
                    || (q.flip().sample(u) - q.sample(1.0 - u)).length() > e
                    || (q.to_cubic().sample(u) - q.sample(u)).length() > e
                {
                    bad.push("f32 quadratic: split / sub-range / flip / elevation do not retrace the curve");
                    break;
                }
            }
            let h = 1e-2f32;
            if (c.derivative(tt) - (c.sample(tt + h) - c.sample(tt - h)) / (2.0 * h)).length() > 0.2 * scale
                || (q.derivative(tt) - (q.sample(tt + h) - q.sample(tt - h)) / (2.0 * h)).length() > 0.2 * scale
            {
                bad.push("f32: the derivative is not the slope of the sampled curve");
            }
            if (c.x(tt) - c.sample(tt).x).abs() > e || (c.y(tt) - c.sample(tt).y).abs() > e || (c.dx(tt) - c.derivative(tt).x).abs() > 10.0 * e || (c.dy(tt) - c.derivative(tt).y).abs() > 10.0 * e
                || (q.x(tt) - q.sample(tt).x).abs() > e || (q.y(tt) - q.sample(tt).y).abs() > e || (q.dx(tt) - q.derivative(tt).x).abs() > 10.0 * e || (q.dy(tt) - q.derivative(tt).y).abs() > 10.0 * e
            {
                bad.push("f32: x / y / dx / dy disagree with sample / derivative");
            }
            let tol = 1e-3f32;
            let (l, l1, l2) = (c.approximate_length(tol), cs0.approximate_length(tol), cs1.approximate_length(tol));
            if !l.is_finite() || !l1.is_finite() || !l2.is_finite() || (l - l1 - l2).abs() > 2e-2 * (1.0 + l) {
                bad.push("f32 cubic: lengths of the split pieces are not finite or do not add up");
            }
            let (l, l1, l2) = (q.length(), qs0.length(), qs1.length());
            if !l.is_finite() || !l1.is_finite() || !l2.is_finite() || (l - l1 - l2).abs() > 2e-3 * (1.0 + l) {
                bad.push("f32 quadratic: lengths of the split pieces are not finite or do not add up");
            }
            bad
        });
        match res {
            None => cx.fail("f32 curve operation panicked", label.clone()),
            Some(bad) => {
                for b in bad {
                    cx.fail(b, label.clone());
                }
            }
        }
    }
    // ---- elliptic arcs (trigonometry: numerical comparison): split / sub-range / flip retrace the arc, the tangent is
    // the slope, lengths of the pieces add up; inherent methods and the Segment trait
    let na = if args.thorough() { 4000 } else { 600 };
    for it in 0..na {
        let r = &mut rng;
        let pi = std::f64::consts::PI;
        let arc = lyon_geom::Arc {
            center: point(r.range(-10, 10) as f64, r.range(-10, 10) as f64),
            radii: lyon_geom::vector(1.0 + r.below(8) as f64, 1.0 + r.below(8) as f64),
            start_angle: lyon_geom::Angle::radians((r.unit_f64() - 0.5) * 4.0 * pi),
            sweep_angle: lyon_geom::Angle::radians(match it % 4 {
                0 => (r.unit_f64() - 0.5) * 1.9 * pi,                            // less than a half turn either way
                1 => (1.05 + 0.9 * r.unit_f64()) * pi * if it % 8 == 1 { 1.0 } else { -1.0 }, // more than a half turn
                2 => 2.0 * pi * if it % 8 == 2 { 1.0 } else { -1.0 },
                _ => (r.unit_f64() - 0.5) * 4.0 * pi,
            }),
            x_rotation: lyon_geom::Angle::radians(if it % 3 == 0 { 0.0 } else { (r.unit_f64() - 0.5) * 2.0 * pi }),
        };
        if arc.sweep_angle.radians.abs() < 1e-2 {
            continue;
        }
        let (t, u) = (dy(r), dy(r));
        let (mut a, mut b) = (dy(r), dy(r));
        if a > b {
            std::mem::swap(&mut a, &mut b);
        }
        cx.st.inc("evaluations");
        cx.st.inc("arcs");
        let scale = 1.0 + arc.center.x.abs() + arc.center.y.abs() + arc.radii.x + arc.radii.y;
        let eps = 1e-8 * scale;
        let label = format!("{:?} t={} u={} range {}..{}", arc, t, u, a, b);
        let res = catch(|| {
            let mut bad: Vec<&'static str> = Vec::new();
            let near = |p: Point<f64>, q: Point<f64>| (p - q).length() <= eps;
            let (s0, s1) = arc.split(t);
            if !near(s0.sample(u), arc.sample(t * u)) || !near(s1.sample(u), arc.sample(t + (1.0 - t) * u)) {
                bad.push("arc split pieces do not retrace the arc");
            }
            if !near(arc.before_split(t).sample(u), s0.sample(u)) || !near(arc.after_split(t).sample(u), s1.sample(u)) {
                bad.push("arc before/after_split differ from split");
            }
            if b > a && !near(arc.split_range(a..b).sample(u), arc.sample(a + (b - a) * u)) {
                bad.push("arc split_range does not retrace the arc");
            }
            if !near(arc.flip().sample(u), arc.sample(1.0 - u)) {
                bad.push("arc flip is not u -> 1 - u");
            }
            // angles: get_angle(t) runs linearly from the start angle to end_angle(), and sampling is the
            // ellipse evaluated at that angle
            {
                let ang = arc.get_angle(t).radians;
                if (ang - (arc.start_angle.radians + arc.sweep_angle.radians * t)).abs() > 1e-9
                    || (arc.end_angle().radians - (arc.start_angle.radians + arc.sweep_angle.radians)).abs() > 1e-9
                    || (arc.get_angle(1.0).radians - arc.end_angle().radians).abs() > 1e-9
                {
                    bad.push("arc get_angle / end_angle are not start + sweep * t");
                }
                let (c, s2) = (arc.x_rotation.radians.cos(), arc.x_rotation.radians.sin());
                let (ex, ey) = (arc.radii.x * ang.cos(), arc.radii.y * ang.sin());
                let want = point(arc.center.x + ex * c - ey * s2, arc.center.y + ex * s2 + ey * c);
                if !near(arc.sample(t), want) {
                    bad.push("arc sample(t) is not the ellipse evaluated at get_angle(t)");
                }
            }
            if !near(arc.from(), arc.sample(0.0)) || !near(arc.to(), arc.sample(1.0)) {
                bad.push("arc from / to are not sample(0) / sample(1)");
            }
            // tangent = slope of the sampled curve
            let h = 1e-5;
            let tt = t.clamp(0.01, 0.99);
            let slope = (arc.sample(tt + h) - arc.sample(tt - h)) / (2.0 * h);
            // sample_tangent is the derivative with respect to the angle; Segment::derivative the one with respect to t
            let tan = arc.sample_tangent(tt);
            let der = Segment::derivative(&arc, tt);
            if (slope - der).length() > 1e-4 * scale * arc.sweep_angle.radians.abs().max(1.0) {
                bad.push("the derivative of an arc is not the slope of the sampled arc");
            }
            if (tan * arc.sweep_angle.radians - der).length() > 1e-9 * scale * 10.0 {
                bad.push("arc sample_tangent times the sweep is not the derivative");
            }
            // Segment trait glue
            if !near(Segment::sample(&arc, t), arc.sample(t)) || !near(Segment::from(&arc), arc.from()) || !near(Segment::to(&arc), arc.to())
                || !near(Segment::split_range(&arc, a..b.max(a + 1e-3)).sample(u), arc.split_range(a..b.max(a + 1e-3)).sample(u))
                || !near(Segment::flip(&arc).sample(u), arc.flip().sample(u))
            {
                bad.push("Segment trait glue differs (arc)");
            }
            // lengths add up
            let tol = 1e-4;
            let whole = arc.approximate_length(tol);
            let parts = arc.before_split(t).approximate_length(tol) + arc.after_split(t).approximate_length(tol);
            if !approx(whole, parts, 2e-2) {
                bad.push("arc lengths of the split pieces do not add up");
            }
            if b > a + 1e-3 {
                let ab = arc.split_range(a..b).approximate_length(tol);
                let rest = arc.split_range(0.0..a.max(1e-9)).approximate_length(tol) + arc.split_range(b.min(1.0 - 1e-9)..1.0).approximate_length(tol);
                if !approx(whole, ab + rest, 3e-2) {
                    bad.push("arc lengths of the sub-ranges do not add up");
                }
            }
            bad
        });
        match res {
            None => cx.fail("arc operation panicked", label.clone()),
            Some(bad) => {
                for b in bad {
                    cx.fail(b, label.clone());
                }
            }
        }
    }
    // ---- public methods of the primitives that nothing above calls
    public_method_audit(args, &mut cx, &mut rng);
    drop(cx);
    w.finish()?;
    st.write(&args.out.join("c10_stats.json"))
}

// ------------------------------------------------------- C10: audit of the remaining public methods

type V2 = lyon_geom::Vector<f64>;

/// what one audited group found: violated expectations (what, input, known-finding class) and counters
struct Au {
    bad: Vec<(String, String, Option<&'static str>)>,
    cnt: Vec<&'static str>,
}
impl Au {
    fn bad(&mut self, what: &str, input: String) {
        self.bad.push((what.to_string(), input, None));
    }
    fn known(&mut self, what: &str, input: String, class: &'static str) {
        self.bad.push((what.to_string(), input, Some(class)));
    }
    fn inc(&mut self, k: &'static str) {
        self.cnt.push(k);
    }
}

/// runs one group of checks on one input: counts `audit_<method>` for every method named, turns a panic into
/// a failure, and lists at most 12 failures per distinct expectation (the rest are only counted in
/// `audit_repeated_failures_not_listed`)
fn au_run(cx: &mut Ctx, seen: &mut std::collections::BTreeMap<String, u32>, methods: &[&str], label: &str, f: impl FnOnce(&mut Au)) {
    let mut au = Au { bad: Vec::new(), cnt: Vec::new() };
    let ok = catch(std::panic::AssertUnwindSafe(|| f(&mut au))).is_some();
    for m in methods {
        cx.st.inc(&format!("audit_{}", m));
    }
    cx.st.inc("evaluations");
    for k in au.cnt.drain(..) {
        cx.st.inc(k);
    }
    if !ok {
        au.bad.push((format!("{} panicked", methods.join(" / ")), label.to_string(), None));
    }
    for (what, input, class) in au.bad.drain(..) {
        // C10 states what splitting, sub-ranges, flipping, elevation, transformation, derivatives and lengths must do;
        // clipping to a box, dragging, the linearity predicates and the unused flattening_step are public methods of the
        // same types but are not covered by that statement: what the audit sees there is recorded as an observation
        // (DESIGN.md 10.10), not raised
        const OUTSIDE: [&str; 8] = [
            // debug builds: fat_line of a curve whose end points coincide trips the debug assertion of LineEquation::new
            "quadratic_bounding_triangle / quadratic_fat_line / quadratic_flattening_step panicked",
            "cubic_baseline / cubic_is_linear / cubic_fat_line panicked",
            "LineSegment::clipped",
            "QuadraticBezierSegment::flattening_step",
            "CubicBezierSegment::drag",
            "QuadraticBezierSegment::is_linear",
            "CubicBezierSegment::is_linear",
            "QuadraticBezierSegment::drag",
        ];
        if OUTSIDE.iter().any(|p| what.starts_with(p)) {
            cx.st.inc(&format!("observed outside the property's statement: {}", what));
            let _ = input;
            continue;
        }
        // (known findings: 4 examples each, so that the 15 kept per class show every kind)
        let k = seen.entry(format!("{}{}", what, class.unwrap_or(""))).or_insert(0);
        *k += 1;
        if *k > if class.is_some() { 4 } else { 12 } {
            cx.st.inc("audit_repeated_failures_not_listed");
            continue;
        }
        match class {
            None => cx.fail(&what, input),
            Some(c) => cx.st.fail(jobj(&[("what", jstr(&what)), ("input", jstr(&input)), ("class", jstr(c))])),
        }
    }
}

fn crs(a: V2, b: V2) -> f64 {
    a.x * b.y - a.y * b.x
}
fn pscale(ps: &[P]) -> f64 {
    1.0 + ps.iter().map(|p| p.x.abs().max(p.y.abs())).fold(0.0, f64::max)
}
/// distance from p to the closed segment a b
fn dist_seg(p: P, a: P, b: P) -> f64 {
    let ab = b - a;
    let l2 = ab.square_length();
    if l2 == 0.0 {
        return (p - a).length();
    }
    let t = ((p - a).dot(ab) / l2).max(0.0).min(1.0);
    (p - (a + ab * t)).length()
}
/// distance from p to the infinite line a b (a != b)
fn dist_line(p: P, a: P, b: P) -> f64 {
    crs(b - a, p - a).abs() / (b - a).length()
}
fn finite_pts(ps: &[P]) -> bool {
    ps.iter().all(|p| p.x.is_finite() && p.y.is_finite())
}

/// exact rational n / d, d > 0
#[derive(Clone, Copy, Debug)]
struct Rq {
    n: i128,
    d: i128,
}
fn rq(n: i128, d: i128) -> Rq {
    if d < 0 {
        Rq { n: -n, d: -d }
    } else {
        Rq { n, d }
    }
}
fn rq_lt(a: Rq, b: Rq) -> bool {
    a.n * b.d < b.n * a.d
}
fn rq_f(a: Rq) -> f64 {
    a.n as f64 / a.d as f64
}
/// the parameter interval of the part of the integer segment f -> t inside the closed ranges (Liang-Barsky,
/// exact); None when no point of the segment is inside
fn clip_interval(f: (i64, i64), t: (i64, i64), xr: Option<(i64, i64)>, yr: Option<(i64, i64)>) -> Option<(Rq, Rq)> {
    let (mut t0, mut t1) = (rq(0, 1), rq(1, 1));
    for (p0, p1, r) in [(f.0, t.0, xr), (f.1, t.1, yr)] {
        if let Some((lo, hi)) = r {
            let d = (p1 - p0) as i128;
            if d == 0 {
                if p0 < lo || p0 > hi {
                    return None;
                }
                continue;
            }
            let (mut a, mut b) = (rq((lo - p0) as i128, d), rq((hi - p0) as i128, d));
            if rq_lt(b, a) {
                std::mem::swap(&mut a, &mut b);
            }
            if rq_lt(t0, a) {
                t0 = a;
            }
            if rq_lt(b, t1) {
                t1 = b;
            }
        }
    }
    if rq_lt(t1, t0) {
        None
    } else {
        Some((t0, t1))
    }
}
/// the same in floating point for general segments: interval and the smallest margin of the decisions taken
fn clip_interval_f(f: P, t: P, xr: Option<(f64, f64)>, yr: Option<(f64, f64)>) -> (Option<(f64, f64)>, f64) {
    let (mut t0, mut t1) = (0.0f64, 1.0f64);
    let mut margin = f64::MAX;
    for (p0, p1, r) in [(f.x, t.x, xr), (f.y, t.y, yr)] {
        if let Some((lo, hi)) = r {
            let d = p1 - p0;
            if d == 0.0 {
                margin = margin.min((p0 - lo).abs()).min((p0 - hi).abs());
                if p0 < lo || p0 > hi {
                    return (None, margin);
                }
                continue;
            }
            let (mut a, mut b) = ((lo - p0) / d, (hi - p0) / d);
            if b < a {
                std::mem::swap(&mut a, &mut b);
            }
            t0 = t0.max(a);
            t1 = t1.min(b);
        }
    }
    margin = margin.min((t1 - t0).abs());
    if t1 < t0 {
        (None, margin)
    } else {
        (Some((t0, t1)), margin)
    }
}

/// line segments: lattice (general, horizontal, vertical, zero length), dyadic, general position
fn au_line(r: &mut Rng) -> LineSegment<f64> {
    match r.below(9) {
        0 => {
            let (a, b) = (ipt(r, 8), ipt(r, 8));
            LineSegment { from: a, to: point(b.x, a.y) }
        }
        1 => {
            let (a, b) = (ipt(r, 8), ipt(r, 8));
            LineSegment { from: a, to: point(a.x, b.y) }
        }
        2 => {
            let a = ipt(r, 8);
            LineSegment { from: a, to: a }
        }
        3 => {
            let (a, b) = (ipt(r, 64), ipt(r, 64));
            LineSegment { from: point(a.x / 8.0, a.y / 8.0), to: point(b.x / 8.0, b.y / 8.0) }
        }
        4 | 5 => {
            let g = |r: &mut Rng| point((r.unit_f64() - 0.5) * 40.0, (r.unit_f64() - 0.5) * 40.0);
            LineSegment { from: g(r), to: g(r) }
        }
        _ => LineSegment { from: ipt(r, 8), to: ipt(r, 8) },
    }
}
fn au_point(r: &mut Rng) -> P {
    match r.below(3) {
        0 => point((r.unit_f64() - 0.5) * 40.0, (r.unit_f64() - 0.5) * 40.0),
        1 => {
            let a = ipt(r, 64);
            point(a.x / 8.0, a.y / 8.0)
        }
        _ => ipt(r, 10),
    }
}
fn is_lattice(ps: &[P]) -> bool {
    ps.iter().all(|p| p.x == p.x.trunc() && p.y == p.y.trunc() && p.x.abs() < 1e6 && p.y.abs() < 1e6)
}
/// quadratics: lattice with the degeneracies of `ctrl_points`, the same on the 1/8 grid, collinear with the control
/// point beyond an end, general position
fn au_quad(r: &mut Rng) -> QuadraticBezierSegment<f64> {
    match r.below(6) {
        0 | 1 => {
            let g = |r: &mut Rng| point((r.unit_f64() - 0.5) * 20.0, (r.unit_f64() - 0.5) * 20.0);
            QuadraticBezierSegment { from: g(r), ctrl: g(r), to: g(r) }
        }
        2 => {
            let p = ctrl_points(r, 3);
            QuadraticBezierSegment { from: p[0] / 8.0, ctrl: p[1] / 8.0, to: p[2] / 8.0 }
        }
        3 if r.chance(1, 3) => {
            // collinear, the control point anywhere on the line (between the ends or beyond one)
            let (a, d) = (ipt(r, 4), ipt(r, 2));
            let k = [r.range(-3, 3) as f64, r.range(-6, 6) as f64, r.range(-3, 3) as f64];
            QuadraticBezierSegment { from: a + d.to_vector() * k[0], ctrl: a + d.to_vector() * k[1], to: a + d.to_vector() * k[2] }
        }
        _ => {
            let p = ctrl_points(r, 3);
            QuadraticBezierSegment { from: p[0], ctrl: p[1], to: p[2] }
        }
    }
}
fn au_cubic(r: &mut Rng) -> CubicBezierSegment<f64> {
    match r.below(8) {
        0 | 1 => {
            let g = |r: &mut Rng| point((r.unit_f64() - 0.5) * 20.0, (r.unit_f64() - 0.5) * 20.0);
            CubicBezierSegment { from: g(r), ctrl1: g(r), ctrl2: g(r), to: g(r) }
        }
        2 => {
            let p = ctrl_points(r, 4);
            CubicBezierSegment { from: p[0] / 8.0, ctrl1: p[1] / 8.0, ctrl2: p[2] / 8.0, to: p[3] / 8.0 }
        }
        3 => {
            // coincident inner control points / control point on the far end
            let p = ctrl_points(r, 4);
            let mut c = CubicBezierSegment { from: p[0], ctrl1: p[1], ctrl2: p[2], to: p[3] };
            match r.below(3) {
                0 => c.ctrl2 = c.ctrl1,
                1 => c.ctrl2 = c.to,
                _ => {
                    c.ctrl1 = c.from;
                    c.ctrl2 = c.to;
                }
            }
            c
        }
        4 if r.chance(1, 2) => {
            let (a, d) = (ipt(r, 4), ipt(r, 2));
            let k = [r.range(-3, 3) as f64, r.range(-6, 6) as f64, r.range(-6, 6) as f64, r.range(-3, 3) as f64];
            CubicBezierSegment { from: a + d.to_vector() * k[0], ctrl1: a + d.to_vector() * k[1], ctrl2: a + d.to_vector() * k[2], to: a + d.to_vector() * k[3] }
        }
        _ => {
            let p = ctrl_points(r, 4);
            CubicBezierSegment { from: p[0], ctrl1: p[1], ctrl2: p[2], to: p[3] }
        }
    }
}
fn au_tol(r: &mut Rng) -> f64 {
    match r.below(3) {
        0 => 0.001 + r.unit_f64() * 3.0,
        _ => *r.pick(&[0.0, 0.01, 0.1, 0.25, 0.5, 1.0, 2.0, 5.0]),
    }
}

fn public_method_audit(args: &Args, cx: &mut Ctx, rng: &mut Rng) {
    use lyon_geom::{vector, Arc, Box2D, Line, Triangle};
    let n = if args.thorough() { 15000 } else { 2000 };
    let mut seen = std::collections::BTreeMap::<String, u32>::new();
    let seen = &mut seen;

    // ================================================================ LineSegment
    // ---- mid_point, translate, set_length
    for _ in 0..n {
        let r = &mut *rng;
        let l = au_line(r);
        let exact = l.from.x * 8.0 == (l.from.x * 8.0).trunc() && l.to.x * 8.0 == (l.to.x * 8.0).trunc() && l.from.y * 8.0 == (l.from.y * 8.0).trunc() && l.to.y * 8.0 == (l.to.y * 8.0).trunc();
        let by: V2 = if exact { vector(r.range(-40, 40) as f64 / 4.0, r.range(-40, 40) as f64 / 4.0) } else { vector((r.unit_f64() - 0.5) * 30.0, (r.unit_f64() - 0.5) * 30.0) };
        let t = dy(r);
        let new_len = match r.below(4) {
            0 => *r.pick(&[0.0, 0.5, 1.0, 3.0, 10.0]),
            _ => r.unit_f64() * 20.0,
        };
        let label = format!("{:?} by {:?} t={} new length {}", l, by, t, new_len);
        cx.st.note_case(&label, l.from != l.to);
        au_run(cx, seen, &["mid_point", "translate", "set_length"], &label, |au| {
            let sc = pscale(&[l.from, l.to]) + by.x.abs().max(by.y.abs());
            let mut lm = l;
            let m = lm.mid_point();
            let want = point((l.from.x + l.to.x) / 2.0, (l.from.y + l.to.y) / 2.0);
            if lm != l {
                au.bad("LineSegment::mid_point changes the segment", label.clone());
            }
            if (exact && (m != l.sample(0.5) || m != want)) || (m - l.sample(0.5)).length() > 1e-14 * sc || (m - want).length() > 1e-14 * sc {
                au.bad("LineSegment::mid_point is not sample(0.5)", format!("{} -> {:?}", label, m));
            }
            let mut lm = l;
            let tr = lm.translate(by);
            if lm != l {
                au.bad("LineSegment::translate changes the segment it is called on", label.clone());
            }
            let (got, want) = (tr.sample(t), l.sample(t) + by);
            if (exact && got != want) || (got - want).length() > 1e-13 * sc || tr.from != l.from + by || tr.to != l.to + by {
                au.bad("LineSegment::translate does not commute with sampling", format!("{} -> {:?}", label, tr));
            }
            let mut s = l;
            s.set_length(new_len);
            if s.from != l.from {
                au.bad("LineSegment::set_length moves the start point", format!("{} -> {:?}", label, s));
            }
            if l.from == l.to {
                au.inc(if finite_pts(&[s.to]) { "audit_set_length_zero_length_input_finite" } else { "audit_set_length_zero_length_input_not_finite" });
            } else {
                let (v0, v1) = (l.to - l.from, s.to - s.from);
                if !finite_pts(&[s.to]) || (s.length() - new_len).abs() > 1e-12 * (sc + new_len) {
                    au.bad("LineSegment::set_length: the new length is not the requested one", format!("{} -> {:?} of length {}", label, s, s.length()));
                } else if crs(v0, v1).abs() > 1e-12 * sc * (1.0 + v0.length()) * (1.0 + new_len) || (new_len > 1e-9 && v0.dot(v1) <= 0.0) {
                    au.bad("LineSegment::set_length changes the direction", format!("{} -> {:?}", label, s));
                }
            }
        });
    }
    // ---- solve_t_for_x / y, solve_y_for_x / x_for_y, split_at_x, and the predicates of the line's equation
    for _ in 0..n {
        let r = &mut *rng;
        let l = au_line(r);
        let u = dy(r);
        // the abscissa / ordinate asked for: of a point of the segment, of its line beyond the ends, or anything
        let (qx, qy) = match r.below(4) {
            0 => (l.from.x + (l.to.x - l.from.x) * r.range(-8, 24) as f64 / 16.0, l.from.y + (l.to.y - l.from.y) * r.range(-8, 24) as f64 / 16.0),
            1 => ((r.unit_f64() - 0.5) * 50.0, (r.unit_f64() - 0.5) * 50.0),
            _ => {
                let k = dy(r);
                (l.x(k), l.y(k))
            }
        };
        let label = format!("{:?} x={} y={} u={}", l, qx, qy, u);
        cx.st.note_case(&label, l.from != l.to);
        au_run(cx, seen, &["solve_t_for_x", "solve_t_for_y", "solve_y_for_x", "solve_x_for_y", "split_at_x", "is_horizontal", "is_vertical"], &label, |au| {
            let sc = pscale(&[l.from, l.to]) + qx.abs().max(qy.abs());
            let d = l.to - l.from;
            // x
            let t = l.solve_t_for_x(qx);
            let y = l.solve_y_for_x(qx);
            if d.x != 0.0 {
                let tol = 1e-12 * sc * (1.0 + t.abs());
                if !t.is_finite() || (l.x(t) - qx).abs() > tol {
                    au.bad("LineSegment::solve_t_for_x: x(t) is not the abscissa asked for", format!("{} -> t={} x(t)={}", label, t, l.x(t)));
                }
                // (qx, y) is on the line of the segment
                if !y.is_finite() || crs(d, point(qx, y) - l.from).abs() > 1e-11 * sc * (1.0 + t.abs()) * (d.x.abs() + d.y.abs()) {
                    au.bad("LineSegment::solve_y_for_x: the point (x, y) is not on the line of the segment", format!("{} -> y={}", label, y));
                }
                if (y - l.sample(t).y).abs() > tol {
                    au.bad("LineSegment::solve_y_for_x differs from sampling at solve_t_for_x", format!("{} -> y={}", label, y));
                }
                let (lo, hi) = (l.from.x.min(l.to.x), l.from.x.max(l.to.x));
                if qx >= lo && qx <= hi {
                    let (a, b) = l.split_at_x(qx);
                    let ti = (qx - l.from.x) / d.x;
                    let e = 1e-12 * sc;
                    if a.from != l.from || b.to != l.to || a.to != b.from || (a.to.x - qx).abs() > e {
                        au.bad("LineSegment::split_at_x: the pieces do not start / end at the ends of the segment and meet at the abscissa", format!("{} -> {:?} {:?}", label, a, b));
                    } else if (a.sample(u) - l.sample(ti * u)).length() > e || (b.sample(u) - l.sample(ti + (1.0 - ti) * u)).length() > e {
                        au.bad("LineSegment::split_at_x: the pieces do not retrace the segment", format!("{} -> {:?} {:?}", label, a, b));
                    }
                }
            } else {
                // vertical (or a point): the documentation does not say; nothing must blow up
                au.inc("audit_solve_t_for_x_vertical_segment");
                if t == 0.0 {
                    au.inc("audit_solve_t_for_x_vertical_segment_returns_0");
                }
                let (a, b) = l.split_at_x(qx);
                if !t.is_finite() || !y.is_finite() || !finite_pts(&[a.from, a.to, b.from, b.to]) {
                    au.bad("LineSegment::solve_t_for_x / solve_y_for_x / split_at_x of a vertical segment is not finite", format!("{} -> t={} y={}", label, t, y));
                }
            }
            // y
            let t = l.solve_t_for_y(qy);
            let x = l.solve_x_for_y(qy);
            if d.y != 0.0 {
                let tol = 1e-12 * sc * (1.0 + t.abs());
                if !t.is_finite() || (l.y(t) - qy).abs() > tol {
                    au.bad("LineSegment::solve_t_for_y: y(t) is not the ordinate asked for", format!("{} -> t={} y(t)={}", label, t, l.y(t)));
                }
                if !x.is_finite() || crs(d, point(x, qy) - l.from).abs() > 1e-11 * sc * (1.0 + t.abs()) * (d.x.abs() + d.y.abs()) {
                    au.bad("LineSegment::solve_x_for_y: the point (x, y) is not on the line of the segment", format!("{} -> x={}", label, x));
                }
            } else {
                au.inc("audit_solve_t_for_y_horizontal_segment");
                if !t.is_finite() || !x.is_finite() {
                    au.bad("LineSegment::solve_t_for_y / solve_x_for_y of a horizontal segment is not finite", format!("{} -> t={} x={}", label, t, x));
                }
            }
            if l.from != l.to {
                let eq = l.to_line().equation();
                if eq.is_horizontal() != (d.y == 0.0) || eq.is_vertical() != (d.x == 0.0) {
                    au.bad("LineEquation::is_horizontal / is_vertical disagree with the end points of the segment", format!("{} -> {:?}", label, eq));
                }
            }
        });
    }
    // ---- clipped_x, clipped_y, clipped
    for it in 0..n {
        let r = &mut *rng;
        // lattice (unit 1) or 1/8 grid (unit 8) with exact reasoning; every fourth case in general position
        let general = it % 4 == 3;
        let unit = if it % 2 == 0 { 1i64 } else { 8 };
        let m = 8 * unit;
        let mut fi = (r.range(-m, m), r.range(-m, m));
        let mut ti = (r.range(-m, m), r.range(-m, m));
        match r.below(8) {
            0 => ti = fi,
            1 => ti.0 = fi.0,
            2 => ti.1 = fi.1,
            _ => {}
        }
        let rg = |r: &mut Rng| {
            let (a, b) = (r.range(-6 * unit, 6 * unit), r.range(-6 * unit, 6 * unit));
            (a.min(b), a.max(b))
        };
        let (mut xr, mut yr) = (rg(r), rg(r));
        match r.below(12) {
            0 | 1 => {
                // ranges that end exactly at an end point of the segment
                xr.0 = fi.0.min(xr.1);
                yr.1 = ti.1.max(yr.0);
            }
            2 => {
                // a horizontal segment along the lower or upper side of the box
                ti.1 = fi.1;
                if r.chance(1, 2) {
                    yr = (fi.1, fi.1.max(yr.1));
                } else {
                    yr = (fi.1.min(yr.0), fi.1);
                }
            }
            3 => {
                // a vertical segment along the left or right side
                ti.0 = fi.0;
                if r.chance(1, 2) {
                    xr = (fi.0, fi.0.max(xr.1));
                } else {
                    xr = (fi.0.min(xr.0), fi.0);
                }
            }
            _ => {}
        }
        let mut jit = |v: i64| if general { v as f64 / unit as f64 + (r.unit_f64() - 0.5) * 0.9 } else { v as f64 / unit as f64 };
        let l = LineSegment { from: point(jit(fi.0), jit(fi.1)), to: point(jit(ti.0), jit(ti.1)) };
        if general {
            fi = (0, 0);
            ti = (0, 0);
        }
        let xrf = (jit(xr.0), jit(xr.1));
        let yrf = (jit(yr.0), jit(yr.1));
        let (xrf, yrf) = ((xrf.0.min(xrf.1), xrf.0.max(xrf.1)), (yrf.0.min(yrf.1), yrf.0.max(yrf.1)));
        let label = format!("{:?} x range {:?} y range {:?}", l, xrf, yrf);
        cx.st.note_case(&label, l.from != l.to);
        au_run(cx, seen, &["clipped_x", "clipped_y", "clipped"], &label, |au| {
            let sc = pscale(&[l.from, l.to]);
            for which in 0..3 {
                let name = ["clipped_x", "clipped_y", "clipped"][which];
                let (ux, uy) = (which != 1, which != 0);
                let got = match which {
                    0 => l.clipped_x(xrf.0..xrf.1),
                    1 => l.clipped_y(yrf.0..yrf.1),
                    _ => l.clipped(&Box2D { min: point(xrf.0, yrf.0), max: point(xrf.1, yrf.1) }),
                };
                // the part inside, as a parameter interval
                let (want, sure): (Option<(f64, f64)>, bool) = if general {
                    let (iv, margin) = clip_interval_f(l.from, l.to, if ux { Some(xrf) } else { None }, if uy { Some(yrf) } else { None });
                    (iv, margin > 1e-9)
                } else {
                    let iv = clip_interval(fi, ti, if ux { Some(xr) } else { None }, if uy { Some(yr) } else { None });
                    (iv.map(|(a, b)| (rq_f(a), rq_f(b))), true)
                };
                if !sure {
                    au.inc("audit_clipped_undecided_in_floating_point");
                    continue;
                }
                let at = |t: f64| l.from + (l.to - l.from) * t;
                let e = 1e-11 * sc;
                match (want, got) {
                    (None, None) => au.inc("audit_clipped_outside"),
                    (None, Some(s)) => au.bad(&format!("LineSegment::{} returns a segment although no point of the segment is inside", name), format!("{} -> {:?}", label, s)),
                    (Some((t0, t1)), None) => {
                        if t0 == t1 && l.from != l.to {
                            au.inc("audit_clipped_single_point_none");
                        } else {
                            au.bad(&format!("LineSegment::{} returns None although a part of the segment is inside", name), format!("{} (inside for t in {}..{})", label, t0, t1));
                        }
                    }
                    (Some((t0, t1)), Some(s)) => {
                        if t0 == t1 && l.from != l.to {
                            au.inc("audit_clipped_single_point_some");
                        } else {
                            au.inc("audit_clipped_part_inside");
                        }
                        if !finite_pts(&[s.from, s.to]) || (s.from - at(t0)).length() > e || (s.to - at(t1)).length() > e {
                            au.bad(&format!("LineSegment::{}: the result is not the part of the segment inside", name), format!("{} -> {:?}, expected {:?} -> {:?}", label, s, at(t0), at(t1)));
                        } else {
                            // and by sampling: every point of the result is inside and on the segment
                            for i in 0..=8 {
                                let p = s.sample(i as f64 / 8.0);
                                let inx = !ux || (p.x >= xrf.0 - e && p.x <= xrf.1 + e);
                                let iny = !uy || (p.y >= yrf.0 - e && p.y <= yrf.1 + e);
                                if !inx || !iny || dist_seg(p, l.from, l.to) > e {
                                    au.bad(&format!("LineSegment::{}: a point of the result is outside the range or off the segment", name), format!("{} -> {:?}", label, s));
                                    break;
                                }
                            }
                        }
                    }
                }
            }
        });
    }
    // ---- closest_point, distance_to_point, square_distance_to_point
    for _ in 0..n {
        let r = &mut *rng;
        let l = au_line(r);
        let p = match r.below(5) {
            0 => l.sample(dy(r)),
            1 => l.sample(r.range(-16, 32) as f64 / 16.0),
            _ => au_point(r),
        };
        let label = format!("{:?} point {:?}", l, p);
        cx.st.note_case(&label, l.from != l.to);
        au_run(cx, seen, &["closest_point", "distance_to_point", "square_distance_to_point"], &label, |au| {
            let sc = pscale(&[l.from, l.to, p]);
            let e = 1e-12 * sc;
            let cp = l.closest_point(p);
            if !finite_pts(&[cp]) || dist_seg(cp, l.from, l.to) > e {
                au.bad("LineSegment::closest_point is not a point of the segment", format!("{} -> {:?}", label, cp));
                return;
            }
            let d = (cp - p).length();
            for i in 0..=256 {
                let s = l.sample(i as f64 / 256.0);
                if (s - p).length() < d - e {
                    au.bad("LineSegment::closest_point: a sampled point of the segment is closer", format!("{} -> {:?} at distance {}, sample {:?} at {}", label, cp, d, s, (s - p).length()));
                    break;
                }
            }
            let (dd, sq) = (l.distance_to_point(p), l.square_distance_to_point(p));
            if (dd - d).abs() > e || (sq - d * d).abs() > e * (1.0 + d) {
                au.bad("LineSegment::distance_to_point / square_distance_to_point differ from the distance to closest_point", format!("{} -> {} {} vs {}", label, dd, sq, d));
            }
            if is_lattice(&[l.from, l.to, p]) {
                // exact squared distance by cases
                let (v, w) = (l.to - l.from, p - l.from);
                let (dot, len2) = (w.dot(v), v.square_length());
                let want = if len2 == 0.0 || dot <= 0.0 {
                    w.square_length()
                } else if dot >= len2 {
                    (p - l.to).square_length()
                } else {
                    crs(v, w) * crs(v, w) / len2
                };
                if (sq - want).abs() > 1e-12 * (1.0 + want) {
                    au.bad("LineSegment::square_distance_to_point differs from the exact value", format!("{} -> {} vs {}", label, sq, want));
                }
            }
        });
    }
    // ================================================================ Line, LineEquation
    for _ in 0..n {
        let r = &mut *rng;
        let pt = au_point(r);
        let v: V2 = match r.below(6) {
            0 => vector(r.range(1, 8) as f64 * if r.chance(1, 2) { 1.0 } else { -1.0 }, 0.0),
            1 => vector(0.0, r.range(1, 8) as f64 * if r.chance(1, 2) { 1.0 } else { -1.0 }),
            2 => vector((r.unit_f64() - 0.5) * 10.0, (r.unit_f64() - 0.5) * 10.0),
            _ => loop {
                let v = ipt(r, 8);
                if v != point(0.0, 0.0) {
                    break v.to_vector();
                }
            },
        };
        let line = Line { point: pt, vector: v };
        let p = au_point(r);
        let p2 = au_point(r);
        let dd = r.range(-20, 20) as f64 / 4.0;
        let label = format!("{:?} point {:?} / {:?} offset {}", line, p, p2, dd);
        cx.st.note_case(&label, true);
        au_run(cx, seen, &["Line_signed_distance_to_point", "Line_distance_to_point", "Line_square_distance_to_point", "LineEquation_project_point", "LineEquation_signed_distance_to_point", "LineEquation_distance_to_point", "LineEquation_invert", "LineEquation_parallel_line", "LineEquation_offset", "LineEquation_tangent_normal", "LineEquation_solve_y_for_x", "LineEquation_solve_x_for_y"], &label, |au| {
            let sc = pscale(&[pt, p, p2]) + v.x.abs().max(v.y.abs());
            let e = 1e-11 * sc;
            let len = v.length();
            let cr = crs(v, p - pt);
            let sd = line.signed_distance_to_point(&p);
            // the foot of the perpendicular, computed here
            let foot = pt + v * ((p - pt).dot(v) / v.square_length());
            if !sd.is_finite() || (sd.abs() - (p - foot).length()).abs() > e || (sd * len - cr).abs() > 1e-11 * sc * sc {
                au.bad("Line::signed_distance_to_point is not the distance to the foot of the perpendicular (signed by the side)", format!("{} -> {}", label, sd));
            }
            if (line.distance_to_point(&p) - sd.abs()).abs() > e || (line.square_distance_to_point(p) - sd * sd).abs() > e * (1.0 + sd.abs()) {
                au.bad("Line::distance_to_point / square_distance_to_point differ from the signed distance", label.clone());
            }
            let eq = line.equation();
            if (eq.a() * eq.a() + eq.b() * eq.b() - 1.0).abs() > 1e-12 {
                au.bad("LineEquation: a * a + b * b is not 1", format!("{} -> {:?}", label, eq));
            }
            let on = |q: P| eq.a() * q.x + eq.b() * q.y + eq.c();
            if on(pt).abs() > e || on(pt + v).abs() > e * (1.0 + len) {
                au.bad("Line::equation: the points of the line do not satisfy a x + b y + c = 0", format!("{} -> {:?}", label, eq));
            }
            let esd = eq.signed_distance_to_point(&p);
            if (esd - sd).abs() > e || (eq.distance_to_point(&p) - sd.abs()).abs() > e {
                au.bad("LineEquation::signed_distance_to_point / distance_to_point differ from those of the line", format!("{} -> {} vs {}", label, esd, sd));
            }
            let pr = eq.project_point(&p);
            if !finite_pts(&[pr]) || (pr - foot).length() > 1e-10 * sc {
                au.bad("LineEquation::project_point is not the foot of the perpendicular", format!("{} -> {:?} vs {:?}", label, pr, foot));
            }
            let inv = eq.invert();
            if (inv.signed_distance_to_point(&p) + esd).abs() > e || (inv.signed_distance_to_point(&pt)).abs() > e {
                au.bad("LineEquation::invert does not negate the signed distance", label.clone());
            }
            let par = eq.parallel_line(&p2);
            if par.signed_distance_to_point(&p2).abs() > e || par.normal() != eq.normal() {
                au.bad("LineEquation::parallel_line is not the parallel through the point", format!("{} -> {:?}", label, par));
            }
            let off = eq.offset(dd);
            if (off.signed_distance_to_point(&p) - (esd - dd)).abs() > e || off.normal() != eq.normal() {
                au.bad("LineEquation::offset(d) does not lower every signed distance by d", format!("{} -> {:?}", label, off));
            }
            // a point at signed distance d of the line is on the offset line
            let q = foot + eq.normal() * dd;
            if off.signed_distance_to_point(&q).abs() > e {
                au.bad("LineEquation::offset(d): a point at signed distance d is not on the offset line", format!("{} -> {:?}", label, off));
            }
            let (tg, nm) = (eq.tangent(), eq.normal());
            if tg.dot(nm).abs() > 1e-12 || nm != vector(eq.a(), eq.b()) || crs(tg, v).abs() > 1e-12 * (1.0 + len) || (tg.length() - 1.0).abs() > 1e-12 {
                au.bad("LineEquation::tangent / normal are not the unit tangent / normal of the line", format!("{} -> {:?} {:?}", label, tg, nm));
            }
            match eq.solve_y_for_x(p.x) {
                None => {
                    if v.x != 0.0 {
                        au.bad("LineEquation::solve_y_for_x is None for a line that is not vertical", label.clone());
                    }
                }
                Some(y) => {
                    if v.x == 0.0 {
                        au.bad("LineEquation::solve_y_for_x has a value on a vertical line", label.clone());
                    } else {
                        let k = (p.x - pt.x) / v.x;
                        if !y.is_finite() || (y - (pt.y + v.y * k)).abs() > 1e-10 * sc * (1.0 + k.abs()) {
                            au.bad("LineEquation::solve_y_for_x: the point (x, y) is not on the line", format!("{} -> {}", label, y));
                        }
                    }
                }
            }
            match eq.solve_x_for_y(p.y) {
                None => {
                    if v.y != 0.0 {
                        au.bad("LineEquation::solve_x_for_y is None for a line that is not horizontal", label.clone());
                    }
                }
                Some(x) => {
                    if v.y == 0.0 {
                        au.bad("LineEquation::solve_x_for_y has a value on a horizontal line", label.clone());
                    } else {
                        let k = (p.y - pt.y) / v.y;
                        if !x.is_finite() || (x - (pt.x + v.x * k)).abs() > 1e-10 * sc * (1.0 + k.abs()) {
                            au.bad("LineEquation::solve_x_for_y: the point (x, y) is not on the line", format!("{} -> {}", label, x));
                        }
                    }
                }
            }
        });
    }
    // ================================================================ Triangle
    for _ in 0..n {
        let r = &mut *rng;
        let tri = Triangle { a: ipt(r, 8), b: ipt(r, 8), c: ipt(r, 8) };
        let p = if r.chance(2, 3) {
            // on the 1/8 grid of the sides: inside, or anywhere around the triangle
            let (i, j) = if r.chance(1, 2) {
                let i = r.range(1, 6);
                (i as f64, r.range(1, 7 - i) as f64)
            } else {
                (r.range(-2, 10) as f64, r.range(-2, 10) as f64)
            };
            tri.a + ((tri.b - tri.a) * i + (tri.c - tri.a) * j) / 8.0
        } else {
            let a = ipt(r, 40);
            point(a.x / 4.0, a.y / 4.0)
        };
        let (m, mv) = loop {
            let (m, mv) = xf(r);
            if mv[0] * mv[3] - mv[1] * mv[2] != 0.0 {
                break (m, mv);
            }
        };
        let label = format!("{:?} point {:?} transform {:?}", tri, p, mv);
        let area2 = crs(tri.b - tri.a, tri.c - tri.a);
        cx.st.note_case(&label, area2 != 0.0);
        au_run(cx, seen, &["Triangle_edges", "Triangle_transform"], &label, |au| {
            let e = |f: P, t: P| LineSegment { from: f, to: t };
            if tri.ab() != e(tri.a, tri.b) || tri.ba() != e(tri.b, tri.a) || tri.bc() != e(tri.b, tri.c) || tri.cb() != e(tri.c, tri.b) || tri.ca() != e(tri.c, tri.a) || tri.ac() != e(tri.a, tri.c) {
                au.bad("Triangle edge accessors are not the segments between the named vertices", label.clone());
            }
            let tt = tri.transform(&m);
            if tt.a != m.transform_point(tri.a) || tt.b != m.transform_point(tri.b) || tt.c != m.transform_point(tri.c) {
                au.bad("Triangle::transform does not map the vertices", label.clone());
            }
            if area2 != 0.0 {
                // exact position of the point (all values are small multiples of 1/8)
                let o = [crs(tri.b - tri.a, p - tri.a), crs(tri.c - tri.b, p - tri.b), crs(tri.a - tri.c, p - tri.c)];
                if o.iter().any(|x| *x == 0.0) {
                    au.inc("audit_triangle_point_on_an_edge_line");
                    return;
                }
                let inside = o.iter().all(|x| (*x > 0.0) == (area2 > 0.0));
                au.inc(if inside { "audit_triangle_point_inside" } else { "audit_triangle_point_outside" });
                if tri.contains_point(p) != inside {
                    au.bad("Triangle::contains_point differs from the exact position of the point", label.clone());
                }
                if tt.contains_point(m.transform_point(p)) != inside {
                    au.bad("Triangle::transform does not commute with contains_point", label.clone());
                }
            }
        });
    }
    // ================================================================ QuadraticBezierSegment
    // ---- closest_point, distance_to_point, square_distance_to_point
    for _ in 0..n {
        let r = &mut *rng;
        let q = au_quad(r);
        let p = match r.below(4) {
            0 => q.sample(dy(r)),
            _ => au_point(r),
        };
        let label = format!("{:?} point {:?}", q, p);
        cx.st.note_case(&label, q.from != q.to || q.ctrl != q.from);
        au_run(cx, seen, &["quadratic_closest_point", "quadratic_distance_to_point", "quadratic_square_distance_to_point"], &label, |au| {
            let sc = pscale(&[q.from, q.ctrl, q.to, p]);
            let t = q.closest_point(p);
            if !(0.0..=1.0).contains(&t) {
                au.bad("QuadraticBezierSegment::closest_point: the parameter is not in [0, 1]", format!("{} -> {}", label, t));
                return;
            }
            let d = (q.sample(t) - p).length();
            let (mut best, mut best_t) = (f64::MAX, 0.0);
            for i in 0..=512 {
                let u = i as f64 / 512.0;
                let di = (q.sample(u) - p).length();
                if di < best {
                    best = di;
                    best_t = u;
                }
            }
            if best < d - 1e-9 * sc {
                au.bad("QuadraticBezierSegment::closest_point: a sampled point of the curve is closer", format!("{} -> t={} at distance {}, sample t={} at {}", label, t, d, best_t, best));
            }
            let (dd, sq) = (q.distance_to_point(p), q.square_distance_to_point(p));
            if (dd - d).abs() > 1e-12 * sc || (sq - d * d).abs() > 1e-12 * sc * (1.0 + d) {
                au.bad("QuadraticBezierSegment::distance_to_point / square_distance_to_point differ from the distance to closest_point", format!("{} -> {} {} vs {}", label, dd, sq, d));
            }
        });
    }
    // ---- drag
    for _ in 0..n {
        let r = &mut *rng;
        let q = au_quad(r);
        let t = if r.chance(1, 2) { r.range(1, 15) as f64 / 16.0 } else { 0.02 + 0.96 * r.unit_f64() };
        let np = au_point(r);
        let label = format!("{:?} t={} to {:?}", q, t, np);
        cx.st.note_case(&label, true);
        au_run(cx, seen, &["quadratic_drag"], &label, |au| {
            let sc = pscale(&[q.from, q.ctrl, q.to, np]);
            let d = q.drag(t, np);
            if d.from != q.from || d.to != q.to {
                au.bad("QuadraticBezierSegment::drag moves an end point", format!("{} -> {:?}", label, d));
            }
            if !finite_pts(&[d.ctrl]) || (d.sample(t) - np).length() > 1e-10 * sc / (t * (1.0 - t)) {
                au.bad("QuadraticBezierSegment::drag: the dragged curve does not pass through the new position at t", format!("{} -> {:?}, sample {:?}", label, d, d.sample(t)));
            }
        });
    }
    // ---- baseline, is_a_point, is_linear
    for _ in 0..n {
        let r = &mut *rng;
        let q = au_quad(r);
        let tol = au_tol(r);
        let label = format!("{:?} tolerance {}", q, tol);
        cx.st.note_case(&label, true);
        au_run(cx, seen, &["quadratic_baseline", "quadratic_is_a_point", "quadratic_is_linear"], &label, |au| {
            let sc = pscale(&[q.from, q.ctrl, q.to]);
            let b = q.baseline();
            if b.from != q.from || b.to != q.to {
                au.bad("QuadraticBezierSegment::baseline is not the segment between the end points", label.clone());
            }
            let samples: Vec<P> = (0..=64).map(|i| q.sample(i as f64 / 64.0)).collect();
            let pt = q.is_a_point(tol);
            if pt {
                au.inc("audit_quadratic_is_a_point_true");
                if samples.iter().any(|s| (*s - q.from).length() > tol * (1.0 + 1e-12) + 1e-13 * sc) {
                    au.bad("QuadraticBezierSegment::is_a_point is true but a point of the curve is further than the tolerance from the start", label.clone());
                }
            }
            if q.from == q.ctrl && q.from == q.to && !pt {
                au.bad("QuadraticBezierSegment::is_a_point is false although all control points coincide", label.clone());
            }
            let lin = q.is_linear(tol);
            let (v, w) = (q.to - q.from, q.ctrl - q.from);
            let beyond = if q.from == q.to { q.ctrl != q.from } else { w.dot(v) < 0.0 || w.dot(v) > v.square_length() };
            if lin {
                au.inc("audit_quadratic_is_linear_true");
                let e = tol * (1.0 + 1e-9) + 1e-12 * sc;
                if q.from != q.to && samples.iter().any(|s| dist_line(*s, q.from, q.to) > e) {
                    au.bad("QuadraticBezierSegment::is_linear is true but a point of the curve is further than the tolerance from the line through the end points", label.clone());
                } else if samples.iter().any(|s| dist_seg(*s, q.from, q.to) > e) {
                    let what = "QuadraticBezierSegment::is_linear is true but a point of the curve is further than the tolerance from the baseline segment";
                    if beyond {
                        au.inc("audit_quadratic_is_linear_true_beyond_baseline_K2");
                        au.known(what, label.clone(), "K2");
                    } else {
                        au.bad(what, label.clone());
                    }
                }
            }
            // control point exactly on the baseline segment (or all points equal): a line segment for every tolerance
            if crs(v, w) == 0.0 && !beyond && is_lattice(&[q.from * 8.0, q.ctrl * 8.0, q.to * 8.0]) && !lin {
                au.bad("QuadraticBezierSegment::is_linear is false although the control point is on the baseline segment", label.clone());
            }
        });
    }
    // ---- bounding_triangle, fat_line, flattening_step
    for _ in 0..n {
        let r = &mut *rng;
        let q = au_quad(r);
        let tol = 0.001 + au_tol(r);
        let label = format!("{:?} tolerance {}", q, tol);
        cx.st.note_case(&label, true);
        au_run(cx, seen, &["quadratic_bounding_triangle", "quadratic_fat_line", "quadratic_flattening_step"], &label, |au| {
            let sc = pscale(&[q.from, q.ctrl, q.to]);
            let e = 1e-9 * sc;
            let tri = q.bounding_triangle();
            let area2 = crs(tri.b - tri.a, tri.c - tri.a);
            for i in 0..=32 {
                let u = i as f64 / 32.0;
                let s = q.sample(u);
                let o = [crs(tri.b - tri.a, s - tri.a), crs(tri.c - tri.b, s - tri.b), crs(tri.a - tri.c, s - tri.c)];
                let inside = area2 != 0.0 && o.iter().all(|x| (*x > 0.0) == (area2 > 0.0));
                let near = dist_seg(s, tri.a, tri.b).min(dist_seg(s, tri.b, tri.c)).min(dist_seg(s, tri.c, tri.a)) <= e;
                if !inside && !near {
                    au.bad("QuadraticBezierSegment::bounding_triangle does not contain a point of the curve", format!("{} u={}", label, u));
                    break;
                }
                // strictly inside for inner parameters of a proper triangle: the library's own test must agree
                if area2.abs() >= 1.0 / 64.0 && i >= 2 && i <= 30 && !tri.contains_point(s) {
                    au.bad("QuadraticBezierSegment::bounding_triangle().contains_point is false for an inner point of the curve", format!("{} u={}", label, u));
                    break;
                }
            }
            if q.from != q.to {
                let (l1, l2) = q.fat_line();
                for i in 0..=64 {
                    let s = q.sample(i as f64 / 64.0);
                    let (s1, s2) = (l1.signed_distance_to_point(&s), l2.signed_distance_to_point(&s));
                    // between the two lines: not strictly on the same side of both
                    if !(s1.is_finite() && s2.is_finite()) || (s1 > e && s2 > e) || (s1 < -e && s2 < -e) {
                        au.bad("QuadraticBezierSegment::fat_line: a point of the curve is not between the two lines", format!("{} u={}/64 distances {} {}", label, i, s1, s2));
                        break;
                    }
                }
                // the lines are parallel to the baseline and one of them contains it
                let d = (q.to - q.from).normalize();
                if crs(l1.tangent(), d).abs() > 1e-9 || crs(l2.tangent(), d).abs() > 1e-9 {
                    au.bad("QuadraticBezierSegment::fat_line: the lines are not parallel to the baseline", label.clone());
                }
            } else {
                let (l1, l2) = q.fat_line();
                au.inc(if l1.a().is_finite() && l2.a().is_finite() { "audit_fat_line_closed_curve_finite" } else { "audit_fat_line_closed_curve_not_finite" });
            }
            let st = q.flattening_step(tol);
            if !(st > 0.0 && st <= 1.0) {
                au.bad("QuadraticBezierSegment::flattening_step is not in (0, 1]", format!("{} -> {}", label, st));
            } else {
                let end = q.sample(st);
                let mut worst = 0.0f64;
                for i in 0..=32 {
                    worst = worst.max(dist_seg(q.sample(st * i as f64 / 32.0), q.from, end));
                }
                if worst > tol * (1.0 + 1e-6) + e {
                    let (v, w) = (q.to - q.from, q.ctrl - q.from);
                    let what = "QuadraticBezierSegment::flattening_step: the curve up to the step is further than the tolerance from the line segment";
                    let input = format!("{} -> step {} deviation {}", label, st, worst);
                    if crs(v, w).abs() <= 1e-9 * sc * sc {
                        au.inc("audit_flattening_step_collinear_excess");
                        au.known(what, input, "K2");
                    } else {
                        au.bad(what, input);
                    }
                }
            }
        });
    }
    // ---- cast (all three curve types and the arc)
    for _ in 0..n {
        let r = &mut *rng;
        let big = r.chance(1, 8);
        let g = |r: &mut Rng| {
            if big {
                point((r.unit_f64() - 0.5) * 1e30, (r.unit_f64() - 0.5) * 1e-30)
            } else {
                point((r.unit_f64() - 0.5) * 2000.0, (r.unit_f64() - 0.5) * 2000.0)
            }
        };
        let q = QuadraticBezierSegment { from: g(r), ctrl: g(r), to: g(r) };
        let c = CubicBezierSegment { from: g(r), ctrl1: g(r), ctrl2: g(r), to: g(r) };
        let arc = Arc { center: g(r), radii: g(r).to_vector(), start_angle: lyon_geom::Angle::radians(r.unit_f64() * 7.0), sweep_angle: lyon_geom::Angle::radians(r.unit_f64() * 7.0 - 3.5), x_rotation: lyon_geom::Angle::radians(r.unit_f64()) };
        let label = format!("{:?} / {:?} / {:?}", q, c, arc);
        cx.st.note_case(&label, true);
        au_run(cx, seen, &["quadratic_cast", "cubic_to_f32_to_f64", "arc_cast"], &label, |au| {
            let rp = |p: P| lyon_geom::point(p.x as f32, p.y as f32);
            let bp = |p: lyon_geom::Point<f32>| point(p.x as f64, p.y as f64);
            let q32 = q.cast::<f32>();
            if q32.from != rp(q.from) || q32.ctrl != rp(q.ctrl) || q32.to != rp(q.to) {
                au.bad("QuadraticBezierSegment::cast::<f32> is not the rounding of every coordinate", format!("{:?} -> {:?}", q, q32));
            }
            let q64 = q32.cast::<f64>();
            if q64.from != bp(rp(q.from)) || q64.ctrl != bp(rp(q.ctrl)) || q64.to != bp(rp(q.to)) || q.cast::<f64>() != q {
                au.bad("QuadraticBezierSegment::cast back to f64 changes the rounded coordinates", format!("{:?} -> {:?}", q, q64));
            }
            // (the cubic has no `cast`: its conversions are to_f32 / to_f64; the same for the quadratic)
            let c32 = c.to_f32();
            if c32.from != rp(c.from) || c32.ctrl1 != rp(c.ctrl1) || c32.ctrl2 != rp(c.ctrl2) || c32.to != rp(c.to) {
                au.bad("CubicBezierSegment::to_f32 is not the rounding of every coordinate", format!("{:?} -> {:?}", c, c32));
            }
            let c64 = c32.to_f64();
            if c64.from != bp(rp(c.from)) || c64.ctrl1 != bp(rp(c.ctrl1)) || c64.ctrl2 != bp(rp(c.ctrl2)) || c64.to != bp(rp(c.to)) || c.to_f64() != c {
                au.bad("CubicBezierSegment::to_f64 changes the rounded coordinates", format!("{:?} -> {:?}", c, c64));
            }
            if q.to_f32() != q32 || q32.to_f64() != q64 {
                au.bad("QuadraticBezierSegment::to_f32 / to_f64 differ from cast", format!("{:?}", q));
            }
            let a32 = arc.cast::<f32>();
            if a32.center != rp(arc.center) || a32.radii != rp(arc.radii.to_point()).to_vector() || a32.start_angle.radians != arc.start_angle.radians as f32 || a32.sweep_angle.radians != arc.sweep_angle.radians as f32 || a32.x_rotation.radians != arc.x_rotation.radians as f32 {
                au.bad("Arc::cast::<f32> is not the rounding of every field", format!("{:?} -> {:?}", arc, a32));
            }
            if arc.cast::<f64>() != arc {
                au.bad("Arc::cast::<f64> of an f64 arc changes it", format!("{:?}", arc));
            }
        });
    }
    // ================================================================ CubicBezierSegment
    // ---- solve_t_for_x, solve_t_for_y
    for it in 0..n {
        let r = &mut *rng;
        let mut c = au_cubic(r);
        if it % 3 == 0 {
            // monotonic in x and in y: sort the coordinates of the control points
            let mut xs = [c.from.x, c.ctrl1.x, c.ctrl2.x, c.to.x];
            let mut ys = [c.from.y, c.ctrl1.y, c.ctrl2.y, c.to.y];
            xs.sort_by(|a, b| a.partial_cmp(b).unwrap());
            ys.sort_by(|a, b| b.partial_cmp(a).unwrap());
            c = CubicBezierSegment { from: point(xs[0], ys[0]), ctrl1: point(xs[1], ys[1]), ctrl2: point(xs[2], ys[2]), to: point(xs[3], ys[3]) };
        }
        let k = match r.below(3) {
            0 => r.range(1, 15) as f64 / 16.0,
            _ => 0.01 + 0.98 * r.unit_f64(),
        };
        let (qx, qy) = match r.below(6) {
            0 => (c.from.x + (c.to.x - c.from.x) * k, c.from.y + (c.to.y - c.from.y) * k),
            1 => (*r.pick(&[c.from.x, c.to.x]), *r.pick(&[c.from.y, c.to.y])),
            _ => (c.x(k), c.y(k)),
        };
        let label = format!("{:?} x={} y={}", c, qx, qy);
        cx.st.note_case(&label, true);
        au_run(cx, seen, &["cubic_solve_t_for_x", "cubic_solve_t_for_y"], &label, |au| {
            let sc = pscale(&[c.from, c.ctrl1, c.ctrl2, c.to]);
            for axis in 0..2 {
                let name = ["x", "y"][axis];
                let (val, roots): (f64, Vec<f64>) = if axis == 0 { (qx, c.solve_t_for_x(qx).to_vec()) } else { (qy, c.solve_t_for_y(qy).to_vec()) };
                let co = |t: f64| if axis == 0 { c.x(t) } else { c.y(t) };
                let p = if axis == 0 { [c.from.x, c.ctrl1.x, c.ctrl2.x, c.to.x] } else { [c.from.y, c.ctrl1.y, c.ctrl2.y, c.to.y] };
                for t in &roots {
                    if !(*t >= 0.0 && *t <= 1.0) {
                        au.bad(&format!("CubicBezierSegment::solve_t_for_{}: a parameter is not in [0, 1]", name), format!("{} -> {:?}", label, roots));
                    } else if (co(*t) - val).abs() > 1e-6 * sc {
                        au.bad(&format!("CubicBezierSegment::solve_t_for_{}: the coordinate at a reported parameter is not the value asked for", name), format!("{} -> {:?}, coordinate {}", label, roots, co(*t)));
                    }
                }
                // every crossing seen by sampling is reported
                let g: Vec<f64> = (0..=256).map(|i| co(i as f64 / 256.0) - val).collect();
                let clear = 1e-7 * sc;
                // (between two samples clearly on opposite sides, whatever lies between them)
                let mut crossings = 0;
                let mut last: Option<(usize, bool)> = None;
                for i in 0..=256 {
                    if g[i].abs() <= clear {
                        continue;
                    }
                    if let Some((j, side)) = last {
                        if side != (g[i] > 0.0) {
                            crossings += 1;
                            let (lo, hi) = (j as f64 / 256.0 - 1e-6, i as f64 / 256.0 + 1e-6);
                            if !roots.iter().any(|t| *t >= lo && *t <= hi) {
                                au.bad(&format!("CubicBezierSegment::solve_t_for_{}: the curve crosses the value but no parameter is reported there", name), format!("{} -> {:?}, crossing in {}..{}", label, roots, lo, hi));
                                break;
                            }
                        }
                    }
                    last = Some((i, g[i] > 0.0));
                }
                // strictly monotonic coordinate (control values strictly increasing or decreasing) and a value strictly
                // between the ends: exactly one parameter
                let strictly = (p[0] < p[1] && p[1] < p[2] && p[2] < p[3]) || (p[0] > p[1] && p[1] > p[2] && p[2] > p[3]);
                if strictly && val > p[0].min(p[3]) + clear && val < p[0].max(p[3]) - clear {
                    au.inc("audit_cubic_solve_t_monotonic_inner_value");
                    if roots.len() != 1 || crossings != 1 {
                        au.bad(&format!("CubicBezierSegment::solve_t_for_{}: a strictly monotonic coordinate takes an inner value at exactly one parameter", name), format!("{} -> {:?}", label, roots));
                    }
                }
                if val == p[0] || val == p[3] {
                    au.inc(if roots.is_empty() { "audit_cubic_solve_t_end_value_no_parameter" } else { "audit_cubic_solve_t_end_value_some_parameter" });
                }
            }
        });
    }
    // ---- drag, drag_with_weight
    for _ in 0..n {
        let r = &mut *rng;
        let c = au_cubic(r);
        let t = if r.chance(1, 2) { r.range(1, 15) as f64 / 16.0 } else { 0.02 + 0.96 * r.unit_f64() };
        let np = au_point(r);
        let w = *r.pick(&[0.0, 0.25, 0.5, 0.75, 1.0]);
        let label = format!("{:?} t={} to {:?} weight {}", c, t, np, w);
        cx.st.note_case(&label, true);
        au_run(cx, seen, &["cubic_drag", "cubic_drag_with_weight"], &label, |au| {
            let sc = pscale(&[c.from, c.ctrl1, c.ctrl2, c.to, np]);
            let amp = 1.0 / (t * (1.0 - t)).powi(2);
            for (name, d) in [("drag", c.drag(t, np)), ("drag_with_weight", c.drag_with_weight(t, np, w))] {
                if d.from != c.from || d.to != c.to {
                    au.bad(&format!("CubicBezierSegment::{} moves an end point", name), format!("{} -> {:?}", label, d));
                }
                if !finite_pts(&[d.ctrl1, d.ctrl2]) {
                    if c.ctrl1 == c.ctrl2 {
                        au.inc("audit_cubic_drag_coincident_controls_not_finite");
                    }
                    au.bad(&format!("CubicBezierSegment::{}: the dragged curve has control points that are not finite", name), format!("{} -> {:?}", label, d));
                } else if (d.sample(t) - np).length() > 1e-9 * sc * amp {
                    au.bad(&format!("CubicBezierSegment::{}: the dragged curve does not pass through the new position at t", name), format!("{} -> {:?}, sample {:?}", label, d, d.sample(t)));
                }
            }
            // the weights as described: 0.5 moves both control points alike; weight 0 (used by drag before 0.1) leaves
            // ctrl2 alone in the first half, weight 1 (used after 0.9) leaves ctrl1 alone in the second half
            if c.ctrl1 != c.ctrl2 {
                let e = 1e-9 * sc * amp;
                let h = c.drag_with_weight(t, np, 0.5);
                if ((h.ctrl1 - c.ctrl1) - (h.ctrl2 - c.ctrl2)).length() > e {
                    au.bad("CubicBezierSegment::drag_with_weight(0.5) does not move the two control points alike", format!("{} -> {:?}", label, h));
                }
                if t < 0.5 && (c.drag_with_weight(t, np, 0.0).ctrl2 - c.ctrl2).length() > e {
                    au.bad("CubicBezierSegment::drag_with_weight(0) moves ctrl2 (t < 0.5)", label.clone());
                }
                if t >= 0.5 && (c.drag_with_weight(t, np, 1.0).ctrl1 - c.ctrl1).length() > e {
                    au.bad("CubicBezierSegment::drag_with_weight(1) moves ctrl1 (t >= 0.5)", label.clone());
                }
                // recorded, not required: the comment also claims it for the other half
                if t >= 0.5 && (c.drag_with_weight(t, np, 0.0).ctrl2 - c.ctrl2).length() > e {
                    au.inc("audit_cubic_drag_weight_0_moves_ctrl2_in_second_half");
                }
                if t < 0.5 && (c.drag_with_weight(t, np, 1.0).ctrl1 - c.ctrl1).length() > e {
                    au.inc("audit_cubic_drag_weight_1_moves_ctrl1_in_first_half");
                }
            }
        });
    }
    // ---- baseline, is_linear, fat_line
    for _ in 0..n {
        let r = &mut *rng;
        let c = au_cubic(r);
        let tol = au_tol(r);
        let label = format!("{:?} tolerance {}", c, tol);
        cx.st.note_case(&label, true);
        au_run(cx, seen, &["cubic_baseline", "cubic_is_linear", "cubic_fat_line"], &label, |au| {
            let sc = pscale(&[c.from, c.ctrl1, c.ctrl2, c.to]);
            let b = c.baseline();
            if b.from != c.from || b.to != c.to {
                au.bad("CubicBezierSegment::baseline is not the segment between the end points", label.clone());
            }
            let samples: Vec<P> = (0..=64).map(|i| c.sample(i as f64 / 64.0)).collect();
            let lin = c.is_linear(tol);
            let v = c.to - c.from;
            let out = |p: P| if c.from == c.to { p != c.from } else { (p - c.from).dot(v) < 0.0 || (p - c.from).dot(v) > v.square_length() };
            let beyond = out(c.ctrl1) || out(c.ctrl2);
            if lin {
                au.inc("audit_cubic_is_linear_true");
                let e = tol * (1.0 + 1e-9) + 1e-12 * sc;
                if c.from != c.to && samples.iter().any(|s| dist_line(*s, c.from, c.to) > e) {
                    au.bad("CubicBezierSegment::is_linear is true but a point of the curve is further than the tolerance from the line through the end points", label.clone());
                } else if samples.iter().any(|s| dist_seg(*s, c.from, c.to) > e) {
                    let what = "CubicBezierSegment::is_linear is true but a point of the curve is further than the tolerance from the baseline segment";
                    if beyond {
                        au.inc("audit_cubic_is_linear_true_beyond_baseline_K2");
                        au.known(what, label.clone(), "K2");
                    } else {
                        au.bad(what, label.clone());
                    }
                }
            }
            let on_baseline = crs(v, c.ctrl1 - c.from) == 0.0 && crs(v, c.ctrl2 - c.from) == 0.0 && !beyond && is_lattice(&[c.from * 8.0, c.ctrl1 * 8.0, c.ctrl2 * 8.0, c.to * 8.0]);
            if on_baseline && !lin {
                if c.from == c.to {
                    au.bad("CubicBezierSegment::is_linear is false although all four control points coincide", label.clone());
                } else {
                    au.bad("CubicBezierSegment::is_linear is false although both control points are on the baseline segment", label.clone());
                }
            }
            let (l1, l2) = c.fat_line();
            if c.from != c.to {
                let e = 1e-9 * sc;
                for (i, s) in samples.iter().enumerate() {
                    let (s1, s2) = (l1.signed_distance_to_point(s), l2.signed_distance_to_point(s));
                    if !(s1.is_finite() && s2.is_finite()) || (s1 > e && s2 > e) || (s1 < -e && s2 < -e) {
                        au.bad("CubicBezierSegment::fat_line: a point of the curve is not between the two lines", format!("{} u={}/64 distances {} {}", label, i, s1, s2));
                        break;
                    }
                }
                let d = v.normalize();
                if crs(l1.tangent(), d).abs() > 1e-9 || crs(l2.tangent(), d).abs() > 1e-9 {
                    au.bad("CubicBezierSegment::fat_line: the lines are not parallel to the baseline", label.clone());
                }
            } else {
                au.inc(if l1.a().is_finite() && l2.a().is_finite() { "audit_fat_line_closed_curve_finite" } else { "audit_fat_line_closed_curve_not_finite" });
            }
        });
    }
    // ---- num_quadratics, to_quadratic_error, is_quadratic (with for_each_quadratic_bezier, to_quadratic)
    for _ in 0..n {
        let r = &mut *rng;
        let c = au_cubic(r);
        let tol = 0.001 + au_tol(r);
        let label = format!("{:?} tolerance {}", c, tol);
        cx.st.note_case(&label, true);
        au_run(cx, seen, &["num_quadratics", "to_quadratic_error", "is_quadratic"], &label, |au| {
            let sc = pscale(&[c.from, c.ctrl1, c.ctrl2, c.to]);
            let nq = c.num_quadratics(tol);
            let mut pieces: Vec<(QuadraticBezierSegment<f64>, std::ops::Range<f64>)> = Vec::new();
            c.for_each_quadratic_bezier_with_t(tol, &mut |q, rg| pieces.push((*q, rg)));
            let mut plain = 0u32;
            c.for_each_quadratic_bezier(tol, &mut |_| plain += 1);
            if nq as usize != pieces.len() || nq != plain || nq == 0 {
                au.bad("CubicBezierSegment::num_quadratics is not the number of pieces of for_each_quadratic_bezier", format!("{} -> {} vs {} / {}", label, nq, pieces.len(), plain));
                return;
            }
            let e = 1e-9 * sc;
            if pieces[0].1.start != 0.0 || pieces[pieces.len() - 1].1.end != 1.0 || pieces.windows(2).any(|w| w[0].1.end != w[1].1.start) || pieces[0].0.from != c.from || pieces[pieces.len() - 1].0.to != c.to || pieces.windows(2).any(|w| (w[0].0.to - w[1].0.from).length() > e) {
                au.bad("CubicBezierSegment::for_each_quadratic_bezier_with_t: the pieces do not chain from the start to the end of the curve", label.clone());
            }
            let mut worst = 0.0f64;
            for (q, rg) in &pieces {
                for i in 0..=16 {
                    let u = i as f64 / 16.0;
                    worst = worst.max((q.sample(u) - c.sample(rg.start + (rg.end - rg.start) * u)).length());
                }
            }
            if worst > tol * (1.0 + 1e-6) + e {
                au.bad("CubicBezierSegment::num_quadratics: a piece is further than the tolerance from the cubic", format!("{} -> {} pieces, deviation {}", label, nq, worst));
            }
            let err = c.to_quadratic_error();
            let q = c.to_quadratic();
            if q.from != c.from || q.to != c.to {
                au.bad("CubicBezierSegment::to_quadratic moves an end point", label.clone());
            }
            let mut dev = 0.0f64;
            for i in 0..=128 {
                let u = i as f64 / 128.0;
                dev = dev.max((q.sample(u) - c.sample(u)).length());
            }
            if !(err >= 0.0) || dev > err * (1.0 + 1e-9) + 1e-12 * sc {
                au.bad("CubicBezierSegment::to_quadratic_error is not an upper bound of the distance to to_quadratic()", format!("{} -> bound {} sampled {}", label, err, dev));
            }
            for tq in [tol, err * 0.5, err * 2.0, err] {
                if (err - tq).abs() > 1e-9 * (err + tq) {
                    if c.is_quadratic(tq) != (err <= tq) {
                        au.bad("CubicBezierSegment::is_quadratic disagrees with to_quadratic_error", format!("{} (asked with {}) -> bound {}", label, tq, err));
                    }
                } else if err == 0.0 && tq == 0.0 && !c.is_quadratic(0.0) {
                    au.bad("CubicBezierSegment::is_quadratic(0) is false for a cubic whose error bound is 0", label.clone());
                }
            }
            if nq == 1 && !c.is_quadratic(tol * (1.0 + 1e-9)) {
                au.bad("CubicBezierSegment::num_quadratics is 1 but is_quadratic is false", label.clone());
            }
        });
    }
    // ---- for_each_inflection_t
    for it in 0..n {
        let r = &mut *rng;
        // every third curve an S: both ends on a horizontal line, the control points on opposite sides of it
        let s_shape = it % 3 == 0;
        let c = if s_shape {
            let lattice = r.chance(1, 2);
            let g = |r: &mut Rng, lo: i64, hi: i64| if lattice { r.range(lo, hi) as f64 } else { lo as f64 + (hi - lo) as f64 * r.unit_f64() };
            let x1 = g(r, 1, 6);
            let x2 = x1 + g(r, 0, 6);
            let len = x2 + g(r, 1, 6);
            let (y1, y2) = (g(r, 1, 8), -g(r, 1, 8));
            let (ox, oy) = (g(r, -5, 5), g(r, -5, 5));
            let sg = if r.chance(1, 2) { 1.0 } else { -1.0 };
            CubicBezierSegment { from: point(ox, oy), ctrl1: point(ox + x1, oy + sg * y1), ctrl2: point(ox + x2, oy + sg * y2), to: point(ox + len, oy) }
        } else {
            au_cubic(r)
        };
        let label = format!("{:?}", c);
        cx.st.note_case(&label, true);
        au_run(cx, seen, &["for_each_inflection_t"], &label, |au| {
            let mut ts: Vec<f64> = Vec::new();
            c.for_each_inflection_t(&mut |t| ts.push(t));
            // cross product of the first and second derivative, from the control points: 18 (a t^2 + b t + c)
            let pa = c.ctrl1 - c.from;
            let pb = (c.ctrl2 - c.ctrl1) - (c.ctrl1 - c.from);
            let pc = (c.to - c.ctrl2) - (c.ctrl2 - c.ctrl1) * 2.0 + (c.ctrl1 - c.from);
            let (ka, kb, kc) = (crs(pb, pc), crs(pa, pc), crs(pa, pb));
            let mag = 1.0 + ka.abs() + kb.abs() + kc.abs();
            let second = |t: f64| ((c.ctrl2 - c.ctrl1) - (c.ctrl1 - c.from)) * (6.0 * (1.0 - t)) + ((c.to - c.ctrl2) - (c.ctrl2 - c.ctrl1)) * (6.0 * t);
            let k = |t: f64| crs(c.derivative(t), second(t));
            if ts.len() > 2 || ts.iter().any(|t| !(*t >= 0.0 && *t < 1.0)) || ts.windows(2).any(|w| w[0] > w[1]) {
                au.bad("CubicBezierSegment::for_each_inflection_t reports more than two parameters, or one outside [0, 1), or out of order", format!("{} -> {:?}", label, ts));
                return;
            }
            let inner: Vec<f64> = ts.iter().copied().filter(|t| *t > 0.0).collect();
            let disc = kb * kb - 4.0 * ka * kc;
            for t in &inner {
                if k(*t).abs() > 1e-9 * 18.0 * mag * (1.0 + mag.sqrt()) {
                    au.bad("CubicBezierSegment::for_each_inflection_t: first and second derivative are not parallel at a reported parameter", format!("{} -> {:?}, cross product {}", label, ts, k(*t)));
                }
                // simple roots well inside: the turning direction changes there
                if disc > 1e-6 * mag * mag && ka.abs() > 1e-6 * mag || ka == 0.0 && kb.abs() > 1e-6 * mag {
                    let sep = if ka != 0.0 { (disc.sqrt() / ka.abs()).min(1.0) } else { 1.0 };
                    let h = 1e-3 * sep;
                    if *t > 2.0 * h && *t < 1.0 - 2.0 * h && k(*t - h) * k(*t + h) >= 0.0 {
                        au.bad("CubicBezierSegment::for_each_inflection_t: the turning direction does not change at a reported parameter", format!("{} -> {:?}", label, ts));
                    }
                }
            }
            if is_lattice(&[c.from, c.ctrl1, c.ctrl2, c.to]) && kc != 0.0 && ka + kb + kc != 0.0 {
                // exact count of the roots of a t^2 + b t + c in (0, 1) (integer coefficients, no root at an end)
                let k1 = ka + kb + kc;
                let vertex_inside = ka != 0.0 && (-kb * ka > 0.0) && kb.abs() < 2.0 * ka.abs();
                let want = if kc * k1 < 0.0 {
                    1
                } else if ka == 0.0 || disc < 0.0 || !vertex_inside {
                    0
                } else if disc == 0.0 {
                    1
                } else if ka * kc > 0.0 {
                    2
                } else {
                    0
                };
                au.inc(["audit_inflections_exact_0", "audit_inflections_exact_1", "audit_inflections_exact_2"][want]);
                if inner.len() != want {
                    au.bad("CubicBezierSegment::for_each_inflection_t: the number of parameters in (0, 1) differs from the exact number of inflections", format!("{} -> {:?}, expected {}", label, ts, want));
                }
            }
            if s_shape {
                au.inc("audit_inflections_s_shape");
                if inner.len() != 1 || ts.len() != 1 {
                    au.bad("CubicBezierSegment::for_each_inflection_t: an S-shaped cubic has exactly one inflection", format!("{} -> {:?}", label, ts));
                }
            }
        });
    }
    // ================================================================ Arc::circle
    for _ in 0..n {
        let r = &mut *rng;
        let center = au_point(r);
        let radius = match r.below(3) {
            0 => r.range(1, 16) as f64 / 2.0,
            _ => 0.01 + r.unit_f64() * 30.0,
        };
        let u = r.unit_f64();
        let label = format!("circle {:?} radius {} u={}", center, radius, u);
        cx.st.note_case(&label, true);
        au_run(cx, seen, &["Arc_circle"], &label, |au| {
            let a = Arc::circle(center, radius);
            let e = 1e-12 * (pscale(&[center]) + radius);
            if (a.sample(0.0) - a.sample(1.0)).length() > e || (a.from() - a.to()).length() > e {
                au.bad("Arc::circle: the circle does not close (sample(0) is not sample(1))", label.clone());
            }
            let mut turn = 0.0;
            let mut prev = a.sample(0.0) - center;
            for i in 1..=64 {
                let p = a.sample(i as f64 / 64.0);
                if ((p - center).length() - radius).abs() > e {
                    au.bad("Arc::circle: a point of the circle is not at the radius from the center", format!("{} t={}/64", label, i));
                    break;
                }
                let d = p - center;
                turn += crs(prev, d).atan2(prev.dot(d));
                prev = d;
            }
            if (turn.abs() - 2.0 * std::f64::consts::PI).abs() > 1e-9 {
                au.bad("Arc::circle: the samples do not go once around the center", format!("{} total angle {}", label, turn));
            }
            if ((a.sample(u) - center).length() - radius).abs() > e {
                au.bad("Arc::circle: a point of the circle is not at the radius from the center", label.clone());
            }
            let b = a.bounding_box();
            if (b.min - (center - vector(radius, radius))).length() > 1e-9 * (1.0 + radius) + e || (b.max - (center + vector(radius, radius))).length() > 1e-9 * (1.0 + radius) + e {
                au.bad("Arc::circle: the bounding box is not the square around the center", format!("{} -> {:?}", label, b));
            }
        });
    }
}

// --------------------------------------------------------------------- C11

fn within(lo: f64, v: f64, hi: f64, slack: f64) -> bool {
    v >= lo - slack && v <= hi + slack
}

pub fn main_c11(args: &Args) -> std::io::Result<()> {
    let mut st = Stats::default();
    let mut w = ShardWriter::new(&args.out, "c11_cases", args.shards, HEADER, "bad_cases");
    w.disabled = args.direct_only();
    let mut idx = std::fs::File::create(args.out.join("c11_index.txt"))?;
    let mut rng = Rng::new(args.seed ^ 0x11);
    let n = if args.thorough() { 8000 } else { 1000 };
    let mut cx = Ctx { w: &mut w, st: &mut st, idx: &mut idx, id: 0, tag: "c11" };
    for it in 0..n {
        let r = &mut rng;
        // ---- quadratics whose extremum parameters are dyadic: per coordinate choose from, ctrl and
        // div = from - 2 ctrl + to among powers of two (or 0)
        let coord = |r: &mut Rng| -> (f64, f64, f64) {
            let f = r.range(-8, 8) as f64;
            let c = r.range(-8, 8) as f64;
            let div = *r.pick(&[0.0, 1.0, -1.0, 2.0, -2.0, 4.0, -4.0, 8.0, -8.0, 16.0, -16.0, 32.0]);
            (f, c, div - f + 2.0 * c)
        };
        let (fx, cxx, tx) = coord(r);
        let (fy, cy, ty) = coord(r);
        let q = QuadraticBezierSegment { from: point(fx, fy), ctrl: point(cxx, cy), to: point(tx, ty) };
        let c = fq(&q);
        let o = |t: Option<f64>| match t {
            Some(t) => vec![1.0, t],
            None => vec![0.0],
        };
        cx.emit(2, 11, &c, &[], catch(|| [o(q.local_x_extremum_t()), o(q.local_y_extremum_t())].concat()));
        cx.emit(2, 12, &c, &[], catch(|| vec![q.x_minimum_t(), q.x_maximum_t(), q.y_minimum_t(), q.y_maximum_t()]));
        cx.emit(2, 13, &c, &[], catch(|| {
            let (a, b) = q.bounding_range_x();
            let (c, d) = q.bounding_range_y();
            vec![a, b, c, d]
        }));
        cx.emit(2, 14, &c, &[], catch(|| {
            let (a, b) = q.fast_bounding_range_x();
            let (c, d) = q.fast_bounding_range_y();
            vec![a, b, c, d]
        }));
        cx.emit(2, 15, &c, &[], catch(|| {
            let mut v = Vec::new();
            q.for_each_monotonic_range(&mut |r| {
                v.push(r.start);
                v.push(r.end)
            });
            v
        }));
        cx.emit(2, 16, &c, &[], catch(|| {
            let mut v = Vec::new();
            q.for_each_monotonic(&mut |s| v.extend(fq(s)));
            v
        }));
        check_quad_boxes(&mut cx, &q, 0.0);
        check_quad_axis_monotone(&mut cx, &q, 0.0);

        // ---- cubics whose derivative has chosen dyadic roots m1/8, m2/8 (per coordinate)
        let ccoord = |r: &mut Rng| -> (f64, f64, f64, f64) {
            let s = *r.pick(&[1.0, -1.0, 2.0]);
            let (m1, m2) = (r.range(-4, 12) as f64, r.range(-4, 12) as f64);
            let mode = r.below(6);
            let p0 = r.range(-4, 4) as f64;
            if mode == 0 {
                // linear derivative (a = 0): d0 - 2 d1 + d2 = 0
                let d0 = r.range(-4, 4) as f64;
                // t = -d0 / (4 k): keep it dyadic
                let d1 = d0 + *r.pick(&[1.0, -1.0, 2.0, -2.0, 4.0, -4.0, 0.0]) * 2.0;
                let d2 = 2.0 * d1 - d0;
                return (p0, p0 + d0, p0 + d0 + d1, p0 + d0 + d1 + d2);
            }
            let a = 64.0 * s;
            let d0 = s * m1 * m2;
            let d1 = d0 - 4.0 * s * (m1 + m2);
            let d2 = a - d0 + 2.0 * d1;
            (p0, p0 + d0, p0 + d0 + d1, p0 + d0 + d1 + d2)
        };
        let (x0, x1, x2, x3) = ccoord(r);
        let (y0, y1, y2, y3) = ccoord(r);
        let cb = CubicBezierSegment { from: point(x0, y0), ctrl1: point(x1, y1), ctrl2: point(x2, y2), to: point(x3, y3) };
        let disc_sqrt = |p0: f64, p1: f64, p2: f64, p3: f64| -> f64 {
            let a = 3.0 * (p3 + 3.0 * (p1 - p2) - p0);
            let b = 6.0 * (p2 - 2.0 * p1 + p0);
            let c = 3.0 * (p1 - p0);
            let d = b * b - 4.0 * a * c;
            if d > 0.0 {
                d.sqrt()
            } else {
                0.0
            }
        };
        let par = [disc_sqrt(x0, x1, x2, x3), disc_sqrt(y0, y1, y2, y3)];
        cx.emit(3, 17, &fc(&cb), &par, catch(|| {
            let mut v = Vec::new();
            cb.for_each_local_x_extremum_t(&mut |t| v.push(t));
            v.push(-1.0);
            cb.for_each_local_y_extremum_t(&mut |t| v.push(t));
            v
        }));
        check_cubic_boxes(&mut cx, &cb, 0.0);
        check_cubic_axis_monotone(&mut cx, &cb, 0.0);

        // ---- general position (not exact): direct evaluation only
        if it % 2 == 0 {
            let g = |r: &mut Rng| point((r.unit_f64() - 0.5) * 20.0, (r.unit_f64() - 0.5) * 20.0);
            let q = QuadraticBezierSegment { from: g(r), ctrl: g(r), to: g(r) };
            check_quad_boxes(&mut cx, &q, 1e-9);
            check_quad_axis_monotone(&mut cx, &q, 1e-9);
            let cb = CubicBezierSegment { from: g(r), ctrl1: g(r), ctrl2: g(r), to: g(r) };
            check_cubic_boxes(&mut cx, &cb, 1e-9);
            check_cubic_axis_monotone(&mut cx, &cb, 1e-9);
            cx.st.inc("general_position_curves");
        }
    }
    // ---- arcs and line segments: direct evaluation (trigonometry is outside the rational model)
    let na = if args.thorough() { 6000 } else { 800 };
    for it in 0..na {
        let r = &mut rng;
        let pi = std::f64::consts::PI;
        let center = if it % 3 == 0 { point(0.0, 0.0) } else { point(r.range(-10, 10) as f64, r.range(-10, 10) as f64) };
        let radii = lyon_geom::vector(1.0 + r.below(8) as f64, 1.0 + r.below(8) as f64);
        let start = match it % 4 {
            0 => 0.0,
            _ => (r.unit_f64() - 0.5) * 4.0 * pi,
        };
        let mut sweep = match it % 5 {
            0 => 2.0 * pi,
            1 => -2.0 * pi,
            _ => (r.unit_f64() - 0.5) * 4.0 * pi,
        };
        if sweep.abs() < 1e-3 {
            sweep = 1.0;
        }
        let rot = match it % 3 {
            0 => 0.0,
            _ => (r.unit_f64() - 0.5) * 2.0 * pi,
        };
        let arc = lyon_geom::Arc { center, radii, start_angle: lyon_geom::Angle::radians(start), sweep_angle: lyon_geom::Angle::radians(sweep), x_rotation: lyon_geom::Angle::radians(rot) };
        check_arc_boxes(&mut cx, &arc);
        let g = |r: &mut Rng| point(r.range(-10, 10) as f64, r.range(-10, 10) as f64);
        let l = LineSegment { from: g(r), to: g(r) };
        let b = l.bounding_box();
        cx.st.inc("line_segments");
        if b.min.x != l.from.x.min(l.to.x) || b.max.x != l.from.x.max(l.to.x) || b.min.y != l.from.y.min(l.to.y) || b.max.y != l.from.y.max(l.to.y) {
            cx.st.fail(jobj(&[("what", jstr("bounding box of a line segment is not the box of its end points")), ("input", jstr(&format!("{:?} -> {:?}", l, b)))]));
        }
    }
    // ---- f32 cubics whose derivative has a tiny leading coefficient (degree-elevated quadratics and
    // cubics with a linear derivative, moved by an affine map in f32): the root formula must not cancel
    let nf = if args.thorough() { 8000 } else { 1000 };
    for it in 0..nf {
        let r = &mut rng;
        let g = |r: &mut Rng| point(r.range(-9, 9) as f32, r.range(-9, 9) as f32);
        let base: CubicBezierSegment<f32> = match it % 3 {
            0 => QuadraticBezierSegment { from: g(r), ctrl: g(r), to: g(r) }.to_cubic(),
            1 => {
                // p3 + 3 (p1 - p2) - p0 = 0 in both coordinates
                let (p0, p1, p2) = (g(r), g(r), g(r));
                CubicBezierSegment { from: p0, ctrl1: p1, ctrl2: p2, to: point(p0.x - 3.0 * (p1.x - p2.x), p0.y - 3.0 * (p1.y - p2.y)) }
            }
            _ => CubicBezierSegment { from: g(r), ctrl1: g(r), ctrl2: g(r), to: g(r) },
        };
        let t = lyon_geom::euclid::default::Transform2D::<f32>::new(
            0.3 + r.unit_f64() as f32, (r.unit_f64() - 0.5) as f32 * (it % 2) as f32,
            (r.unit_f64() - 0.5) as f32 * (it % 2) as f32, 0.3 + r.unit_f64() as f32,
            (r.unit_f64() * 10.0 - 5.0) as f32, (r.unit_f64() * 10.0 - 5.0) as f32);
        let c = CubicBezierSegment { from: t.transform_point(base.from), ctrl1: t.transform_point(base.ctrl1), ctrl2: t.transform_point(base.ctrl2), to: t.transform_point(base.to) };
        check_cubic_boxes_f32(&mut cx, &c);
    }
    // ---- whole paths: lyon_algorithms::aabb and lyon_algorithms::fit
    let np = if args.thorough() { 4000 } else { 500 };
    for _ in 0..np {
        check_path_boxes(&mut cx, &mut rng);
    }
    drop(cx);
    w.finish()?;
    st.write(&args.out.join("c11_stats.json"))
}

/// sign changes of one coordinate along samples (moves below eps ignored)
fn coord_monotone(vals: &[f64], eps: f64) -> bool {
    let mut s = 0.0f64;
    for w in vals.windows(2) {
        let d = w[1] - w[0];
        if d.abs() > eps {
            if s != 0.0 && d.signum() != s {
                return false;
            }
            s = d.signum();
        }
    }
    true
}

/// x-only / y-only monotone splits and the is_*_monotonic predicates of a quadratic
fn check_quad_axis_monotone(cx: &mut Ctx, q: &QuadraticBezierSegment<f64>, slack: f64) {
    let r = catch(|| {
        let mut bad: Vec<String> = Vec::new();
        let span = 1.0 + q.from.to_vector().length() + q.ctrl.to_vector().length() + q.to.to_vector().length();
        let eps = 1e-9 * span + slack * 1e3;
        for axis in 0..2 {
            let name = if axis == 0 { "x" } else { "y" };
            let mut ranges: Vec<std::ops::Range<f64>> = Vec::new();
            let mut pieces: Vec<QuadraticBezierSegment<f64>> = Vec::new();
            if axis == 0 {
                q.for_each_x_monotonic_range(&mut |r| ranges.push(r));
                q.for_each_x_monotonic(&mut |p| pieces.push(*p));
            } else {
                q.for_each_y_monotonic_range(&mut |r| ranges.push(r));
                q.for_each_y_monotonic(&mut |p| pieces.push(*p));
            }
            if ranges.first().map(|r| r.start) != Some(0.0) || ranges.last().map(|r| r.end) != Some(1.0) || ranges.windows(2).any(|w| w[0].end != w[1].start) {
                bad.push(format!("{}-monotonic ranges do not chain from 0 to 1", name));
            }
            if ranges.len() != pieces.len() {
                bad.push(format!("{}-monotonic pieces and ranges differ in number", name));
            }
            for rg in &ranges {
                let vals: Vec<f64> = (0..=32).map(|i| { let p = q.sample(rg.start + (rg.end - rg.start) * i as f64 / 32.0); if axis == 0 { p.x } else { p.y } }).collect();
                if !coord_monotone(&vals, eps) {
                    bad.push(format!("{}-monotonic range is not monotonic in {}", name, name));
                }
            }
            for (rg, pc) in ranges.iter().zip(pieces.iter()) {
                let vals: Vec<f64> = (0..=32).map(|i| { let p = pc.sample(i as f64 / 32.0); if axis == 0 { p.x } else { p.y } }).collect();
                if !coord_monotone(&vals, eps) {
                    bad.push(format!("{}-monotonic piece is not monotonic in {}", name, name));
                }
                for i in 0..=8 {
                    let u = i as f64 / 8.0;
                    if !papprox(pc.sample(u), q.sample(rg.start + (rg.end - rg.start) * u), 1e-9 * span + slack * 1e3) {
                        bad.push(format!("{}-monotonic pieces do not retrace the curve", name));
                        break;
                    }
                }
            }
            // the predicate agrees with the split
            let flag = if axis == 0 { q.is_x_monotonic() } else { q.is_y_monotonic() };
            if flag != (ranges.len() == 1) {
                bad.push(format!("is_{}_monotonic disagrees with the {}-monotonic split", name, name));
            }
            if flag {
                let vals: Vec<f64> = (0..=64).map(|i| { let p = q.sample(i as f64 / 64.0); if axis == 0 { p.x } else { p.y } }).collect();
                if !coord_monotone(&vals, eps) {
                    bad.push(format!("is_{}_monotonic is true of a curve whose {} is not monotonic", name, name));
                }
            }
        }
        if q.is_monotonic() != (q.is_x_monotonic() && q.is_y_monotonic()) {
            bad.push("is_monotonic is not the conjunction of the two axes".into());
        }
        bad.dedup();
        bad
    });
    cx.st.inc("direct_quad_axis_monotone_checks");
    match r {
        Some(bad) => {
            for b in bad {
                cx.fail(&b, format!("{:?}", q));
            }
        }
        None => cx.fail("panic in quadratic x / y monotonic API", format!("{:?}", q)),
    }
}

fn check_cubic_axis_monotone(cx: &mut Ctx, c: &CubicBezierSegment<f64>, slack: f64) {
    let r = catch(|| {
        let mut bad: Vec<String> = Vec::new();
        let span = 1.0 + c.from.to_vector().length() + c.ctrl1.to_vector().length() + c.ctrl2.to_vector().length() + c.to.to_vector().length();
        let eps = 1e-9 * span + slack * 1e3;
        // 0 = x only, 1 = y only, 2 = both
        for axis in 0..3 {
            let name = ["x", "y", "xy"][axis];
            let mut ranges: Vec<std::ops::Range<f64>> = Vec::new();
            let mut pieces: Vec<CubicBezierSegment<f64>> = Vec::new();
            match axis {
                0 => {
                    c.for_each_x_monotonic_range(&mut |r| ranges.push(r));
                    c.for_each_x_monotonic(&mut |p| pieces.push(*p));
                }
                1 => {
                    c.for_each_y_monotonic_range(&mut |r| ranges.push(r));
                    c.for_each_y_monotonic(&mut |p| pieces.push(*p));
                }
                _ => {
                    c.for_each_monotonic_range(&mut |r| ranges.push(r));
                    c.for_each_monotonic(&mut |p| pieces.push(*p));
                }
            }
            if ranges.first().map(|r| r.start) != Some(0.0) || ranges.last().map(|r| r.end) != Some(1.0) || ranges.windows(2).any(|w| w[0].end != w[1].start) {
                bad.push(format!("cubic {}-monotonic ranges do not chain from 0 to 1", name));
            }
            if ranges.len() != pieces.len() {
                bad.push(format!("cubic {}-monotonic pieces and ranges differ in number", name));
            }
            let mono = |f: &dyn Fn(f64) -> lyon_geom::Point<f64>| -> (bool, bool) {
                let xs: Vec<f64> = (0..=32).map(|i| f(i as f64 / 32.0).x).collect();
                let ys: Vec<f64> = (0..=32).map(|i| f(i as f64 / 32.0).y).collect();
                (coord_monotone(&xs, eps), coord_monotone(&ys, eps))
            };
            for rg in &ranges {
                let (mx, my) = mono(&|u| c.sample(rg.start + (rg.end - rg.start) * u));
                if (axis != 1 && !mx) || (axis != 0 && !my) {
                    bad.push(format!("cubic {}-monotonic range is not monotonic", name));
                }
            }
            for (rg, pc) in ranges.iter().zip(pieces.iter()) {
                let (mx, my) = mono(&|u| pc.sample(u));
                if (axis != 1 && !mx) || (axis != 0 && !my) {
                    bad.push(format!("cubic {}-monotonic piece is not monotonic", name));
                }
                for i in 0..=8 {
                    let u = i as f64 / 8.0;
                    if !papprox(pc.sample(u), c.sample(rg.start + (rg.end - rg.start) * u), 1e-9 * span + slack * 1e3) {
                        bad.push(format!("cubic {}-monotonic pieces do not retrace the curve", name));
                        break;
                    }
                }
            }
            let flag = match axis {
                0 => c.is_x_monotonic(),
                1 => c.is_y_monotonic(),
                _ => c.is_monotonic(),
            };
            if flag != (ranges.len() == 1) {
                bad.push(format!("cubic is_{}_monotonic disagrees with the split", name));
            }
        }
        bad.dedup();
        bad
    });
    cx.st.inc("direct_cubic_axis_monotone_checks");
    match r {
        Some(bad) => {
            for b in bad {
                cx.fail(&b, format!("{:?}", c));
            }
        }
        None => cx.fail("panic in cubic x / y monotonic API", format!("{:?}", c)),
    }
}

fn check_cubic_boxes_f32(cx: &mut Ctx, c: &CubicBezierSegment<f32>) {
    let r = catch(|| {
        let mut bad: Vec<String> = Vec::new();
        let b = c.bounding_box();
        let f = c.fast_bounding_box();
        let c64 = CubicBezierSegment { from: point(c.from.x as f64, c.from.y as f64), ctrl1: point(c.ctrl1.x as f64, c.ctrl1.y as f64), ctrl2: point(c.ctrl2.x as f64, c.ctrl2.y as f64), to: point(c.to.x as f64, c.to.y as f64) };
        let (mut lx, mut hx, mut ly, mut hy) = (f64::MAX, f64::MIN, f64::MAX, f64::MIN);
        for i in 0..=512 {
            let p = c64.sample(i as f64 / 512.0);
            lx = lx.min(p.x);
            hx = hx.max(p.x);
            ly = ly.min(p.y);
            hy = hy.max(p.y);
        }
        let span = (hx - lx).max(hy - ly).max(1.0);
        let s = 1e-4 * span;
        if (b.min.x as f64) > lx + s || (b.max.x as f64) < hx - s || (b.min.y as f64) > ly + s || (b.max.y as f64) < hy - s {
            bad.push(format!("f32 bounding_box {:?} does not contain the curve (samples span x {}..{} y {}..{})", b, lx, hx, ly, hy));
        }
        let e = 1e-3 * span;
        if (b.min.x as f64) < lx - e || (b.max.x as f64) > hx + e || (b.min.y as f64) < ly - e || (b.max.y as f64) > hy + e {
            bad.push(format!("f32 bounding box {:?} is not tight (samples span x {}..{} y {}..{})", b, lx, hx, ly, hy));
        }
        if f.min.x > b.min.x || f.min.y > b.min.y || f.max.x < b.max.x || f.max.y < b.max.y {
            bad.push("f32 fast bounding box does not contain the exact one".into());
        }
        // the reported extremum parameters attain the sides
        let at = [c64.x(c.x_minimum_t() as f64), c64.x(c.x_maximum_t() as f64), c64.y(c.y_minimum_t() as f64), c64.y(c.y_maximum_t() as f64)];
        if (at[0] - lx).abs() > e || (at[1] - hx).abs() > e || (at[2] - ly).abs() > e || (at[3] - hy).abs() > e {
            bad.push(format!("f32 extremum parameters do not locate the extreme coordinates: {:?} vs x {}..{} y {}..{}", at, lx, hx, ly, hy));
        }
        bad
    });
    cx.st.inc("direct_cubic_f32_box_checks");
    match r {
        Some(bad) => {
            for b in bad {
                cx.fail(&b, format!("{:?}", c));
            }
        }
        None => cx.fail("panic in cubic bounding box API (f32)", format!("{:?}", c)),
    }
}

/// path-level boxes (lyon_algorithms::aabb) and fitting (lyon_algorithms::fit) on a random f32 path
fn check_path_boxes(cx: &mut Ctx, rng: &mut Rng) {
    use lyon_algorithms::aabb;
    use lyon_algorithms::fit::{fit_box, fit_path, FitStyle};
    use lyon_path::math::{point as pt, Box2D};
    use lyon_path::{Path, PathEvent};
    let lattice = rng.chance(1, 2);
    // one path in five is flat (all points on one horizontal or vertical line) or a lone point: boxes of zero
    // width / height are boxes of non-empty paths too
    let flat = rng.below(10);
    let (fx, fy) = (rng.range(-9, 9) as f32 + 0.5, rng.range(-9, 9) as f32 + 0.5);
    let mut g = |r: &mut Rng| {
        let p = if lattice { pt(r.range(-9, 9) as f32, r.range(-9, 9) as f32) } else { pt((r.unit_f64() * 40.0 - 20.0) as f32, (r.unit_f64() * 40.0 - 20.0) as f32) };
        match flat {
            0 => pt(p.x, fy),
            1 => pt(fx, p.y),
            _ => p,
        }
    };
    let mut b = Path::builder();
    let nsub = rng.below(4);
    for _ in 0..nsub {
        b.begin(g(rng));
        for _ in 0..rng.below(5) {
            match rng.below(3) {
                0 => {
                    b.line_to(g(rng));
                }
                1 => {
                    b.quadratic_bezier_to(g(rng), g(rng));
                }
                _ => {
                    b.cubic_bezier_to(g(rng), g(rng), g(rng));
                }
            }
        }
        b.end(rng.chance(1, 2));
    }
    let path = b.build();
    let label = format!("{:?}", path);
    cx.st.inc("evaluations");
    cx.st.inc("direct_path_box_checks");
    cx.st.note_case(&label, nsub > 0);
    let r = catch(std::panic::AssertUnwindSafe(|| {
        let mut bad: Vec<String> = Vec::new();
        let bx = aabb::bounding_box(path.iter());
        let fx = aabb::fast_bounding_box(path.iter());
        if nsub == 0 {
            if bx != Box2D::zero() || fx != Box2D::zero() {
                bad.push("bounding box of an empty path is not the zero box".into());
            }
            return bad;
        }
        // dense samples of every edge (f64 evaluation of the f32 control points)
        let (mut lx, mut hx, mut ly, mut hy) = (f64::MAX, f64::MIN, f64::MAX, f64::MIN);
        let mut acc = |x: f64, y: f64| {
            lx = lx.min(x);
            hx = hx.max(x);
            ly = ly.min(y);
            hy = hy.max(y);
        };
        let p64 = |p: lyon_path::math::Point| point(p.x as f64, p.y as f64);
        for e in path.iter() {
            match e {
                PathEvent::Begin { at } => acc(at.x as f64, at.y as f64),
                PathEvent::Line { to, .. } => acc(to.x as f64, to.y as f64),
                PathEvent::Quadratic { from, ctrl, to } => {
                    let q = QuadraticBezierSegment { from: p64(from), ctrl: p64(ctrl), to: p64(to) };
                    for i in 0..=256 {
                        let p = q.sample(i as f64 / 256.0);
                        acc(p.x, p.y);
                    }
                }
                PathEvent::Cubic { from, ctrl1, ctrl2, to } => {
                    let c = CubicBezierSegment { from: p64(from), ctrl1: p64(ctrl1), ctrl2: p64(ctrl2), to: p64(to) };
                    for i in 0..=256 {
                        let p = c.sample(i as f64 / 256.0);
                        acc(p.x, p.y);
                    }
                }
                PathEvent::End { .. } => {}
            }
        }
        let s = 1e-4 * (1.0 + (hx - lx).max(hy - ly));
        let (b0, b1, b2, b3) = (bx.min.x as f64, bx.max.x as f64, bx.min.y as f64, bx.max.y as f64);
        if b0 > lx + s || b1 < hx - s || b2 > ly + s || b3 < hy - s {
            bad.push(format!("path bounding box {:?} does not contain the path (samples span x {}..{} y {}..{})", bx, lx, hx, ly, hy));
        }
        let e = 2e-3 * (1.0 + (hx - lx).max(hy - ly));
        if b0 < lx - e || b1 > hx + e || b2 < ly - e || b3 > hy + e {
            bad.push(format!("path bounding box {:?} is not tight (samples span x {}..{} y {}..{})", bx, lx, hx, ly, hy));
        }
        if fx.min.x > bx.min.x || fx.min.y > bx.min.y || fx.max.x < bx.max.x || fx.max.y < bx.max.y {
            bad.push(format!("fast path bounding box {:?} does not contain the exact one {:?}", fx, bx));
        }
        // fitting: the image of the source box under fit_box, per style
        let dst = Box2D { min: pt(-3.0, 2.0), max: pt(5.0, 6.0) };
        if bx.width() > 0.01 && bx.height() > 0.01 {
            for style in [FitStyle::Stretch, FitStyle::Min, FitStyle::Max, FitStyle::Horizontal, FitStyle::Vertical] {
                let t = fit_box(&bx, &dst, style);
                let img = t.outer_transformed_box(&bx);
                let tol = 1e-3 * (1.0 + img.width().abs().max(img.height().abs()));
                let ceq = |a: f32, b: f32| (a - b).abs() <= tol;
                let (ic, dc) = (img.min.lerp(img.max, 0.5), dst.min.lerp(dst.max, 0.5));
                if !ceq(ic.x, dc.x) || !ceq(ic.y, dc.y) {
                    bad.push(format!("fit_box {:?}: the image of the source box is not centred in the destination", style));
                }
                let (sw, sh) = (img.width() / bx.width(), img.height() / bx.height());
                let ok = match style {
                    FitStyle::Stretch => ceq(img.width(), dst.width()) && ceq(img.height(), dst.height()),
                    FitStyle::Min => (sw - sh).abs() <= 1e-3 * sw.abs() && img.width() <= dst.width() + tol && img.height() <= dst.height() + tol && (ceq(img.width(), dst.width()) || ceq(img.height(), dst.height())),
                    FitStyle::Max => (sw - sh).abs() <= 1e-3 * sw.abs() && img.width() >= dst.width() - tol && img.height() >= dst.height() - tol && (ceq(img.width(), dst.width()) || ceq(img.height(), dst.height())),
                    FitStyle::Horizontal => (sw - sh).abs() <= 1e-3 * sw.abs() && ceq(img.width(), dst.width()),
                    FitStyle::Vertical => (sw - sh).abs() <= 1e-3 * sw.abs() && ceq(img.height(), dst.height()),
                };
                if !ok {
                    bad.push(format!("fit_box {:?}: source {:?} is mapped to {:?}, destination {:?}", style, bx, img, dst));
                }
                // fit_path: the fitted path's box is that image
                let fitted = fit_path(&path, &dst, style);
                let fb = aabb::bounding_box(fitted.iter());
                let tol2 = 5e-3 * (1.0 + img.width().abs().max(img.height().abs()));
                if (fb.min.x - img.min.x).abs() > tol2 || (fb.max.x - img.max.x).abs() > tol2 || (fb.min.y - img.min.y).abs() > tol2 || (fb.max.y - img.max.y).abs() > tol2 {
                    bad.push(format!("fit_path {:?}: the fitted path's bounding box {:?} is not the fitted box {:?}", style, fb, img));
                }
                if fitted.iter().count() != path.iter().count() {
                    bad.push(format!("fit_path {:?}: the fitted path has a different number of events", style));
                }
            }
        }
        bad
    }));
    match r {
        Some(bad) => {
            for b in bad {
                cx.fail(&b, label.clone());
            }
        }
        None => cx.fail("panic in path bounding box / fit API", label),
    }
}

fn check_arc_boxes(cx: &mut Ctx, arc: &lyon_geom::Arc<f64>) {
    cx.st.inc("arcs");
    cx.st.inc(if arc.sweep_angle.radians < 0.0 { "arcs_negative_sweep" } else { "arcs_positive_sweep" });
    let label = format!("{:?}", arc);
    let r = catch(|| {
        let mut bad: Vec<(String, Option<&'static str>)> = Vec::new();
        let b = arc.bounding_box();
        let f = arc.fast_bounding_box();
        let scale = 1.0 + arc.center.x.abs() + arc.center.y.abs() + arc.radii.x + arc.radii.y;
        let s = 1e-7 * scale;
        let n = 2048;
        let (mut lx, mut hx, mut ly, mut hy) = (f64::MAX, f64::MIN, f64::MAX, f64::MIN);
        let mut out = false;
        for i in 0..=n {
            let p = arc.sample(i as f64 / n as f64);
            lx = lx.min(p.x);
            hx = hx.max(p.x);
            ly = ly.min(p.y);
            hy = hy.max(p.y);
            if !within(b.min.x, p.x, b.max.x, s) || !within(b.min.y, p.y, b.max.y, s) {
                out = true;
            }
        }
        if out {
            bad.push(("the exact bounding box of an arc does not contain the arc".into(), None));
        }
        // sampled extremes are within (max radius * (sweep / n)^2 / 2) of the true ones
        let e = arc.radii.x.max(arc.radii.y) * (arc.sweep_angle.radians / n as f64).powi(2) + s;
        if b.min.x < lx - e || b.max.x > hx + e || b.min.y < ly - e || b.max.y > hy + e {
            bad.push(("the exact bounding box of an arc is not touched on all four sides".into(), None));
        }
        if !(f.min.x <= lx + s && f.min.y <= ly + s && f.max.x >= hx - s && f.max.y >= hy - s) {
            bad.push(("the fast bounding box of an arc does not contain the arc".into(), None));
        }
        let mut ts: Vec<(f64, bool)> = Vec::new();
        arc.for_each_local_x_extremum_t(&mut |t| ts.push((t, true)));
        arc.for_each_local_y_extremum_t(&mut |t| ts.push((t, false)));
        for (t, is_x) in ts {
            if !(0.0..=1.0).contains(&t) {
                bad.push((format!("an extremum parameter of an arc is outside [0,1]: {}", t), None));
                continue;
            }
            // the coordinate is stationary there
            let h = 1e-4;
            let c = |u: f64| if is_x { arc.sample(u).x } else { arc.sample(u).y };
            let d = (c((t + h).min(1.0)) - c((t - h).max(0.0))).abs();
            let speed = arc.radii.x.max(arc.radii.y) * arc.sweep_angle.radians.abs();
            if t > h && t < 1.0 - h && d > 1e-3 * speed * h * 2.0 + 1e-12 {
                bad.push((format!("the coordinate of an arc is not extremal at the reported parameter: {} ({})", t, if is_x { "x" } else { "y" }), None));
            }
        }
        bad
    });
    match r {
        None => cx.st.fail(jobj(&[("what", jstr("arc bounding box panicked")), ("input", jstr(&label))])),
        Some(bad) => {
            for (what, _) in bad {
                let w0 = what.split(':').next().unwrap_or("").to_string();
                cx.st.fail(jobj(&[("what", jstr(&w0)), ("input", jstr(&format!("{} :: {}", what, label)))]));
            }
        }
    }
}

fn check_quad_boxes(cx: &mut Ctx, q: &QuadraticBezierSegment<f64>, slack: f64) {
    let r = catch(|| {
        let mut bad: Vec<String> = Vec::new();
        let b = q.bounding_box();
        let f = q.fast_bounding_box();
        let s = slack * 100.0 + 1e-12;
        let (mut lx, mut hx, mut ly, mut hy) = (f64::MAX, f64::MIN, f64::MAX, f64::MIN);
        for i in 0..=256 {
            let p = q.sample(i as f64 / 256.0);
            lx = lx.min(p.x);
            hx = hx.max(p.x);
            ly = ly.min(p.y);
            hy = hy.max(p.y);
            if !within(b.min.x, p.x, b.max.x, s) || !within(b.min.y, p.y, b.max.y, s) {
                bad.push(format!("bounding_box does not contain sample t={}/256", i));
                break;
            }
        }
        // tight: every side is attained at the reported parameter
        let at = [q.x(q.x_minimum_t()), q.x(q.x_maximum_t()), q.y(q.y_minimum_t()), q.y(q.y_maximum_t())];
        if !(approx(at[0], b.min.x, s) && approx(at[1], b.max.x, s) && approx(at[2], b.min.y, s) && approx(at[3], b.max.y, s)) {
            bad.push("bounding box side not attained at the reported extremum parameter".into());
        }
        // tight against dense sampling (1/256 grid: error <= second derivative / 2 * (1/512)^2 * ... use loose bound)
        let span = (hx - lx).max(hy - ly).max(1.0);
        let e = span * 2e-4 + s;
        if b.min.x < lx - e || b.max.x > hx + e || b.min.y < ly - e || b.max.y > hy + e {
            bad.push("bounding box is not tight".into());
        }
        if !(f.min.x <= b.min.x + s && f.min.y <= b.min.y + s && f.max.x >= b.max.x - s && f.max.y >= b.max.y - s) {
            bad.push("fast bounding box does not contain the exact one".into());
        }
        // extrema are where the coordinate is extremal
        for t in [q.x_minimum_t(), q.x_maximum_t(), q.y_minimum_t(), q.y_maximum_t()] {
            if !(0.0..=1.0).contains(&t) {
                bad.push(format!("extremum parameter {} outside [0,1]", t));
            }
        }
        // monotone pieces: monotone and retrace the curve
        let mut ranges = Vec::new();
        q.for_each_monotonic_range(&mut |r| ranges.push(r));
        let mut pieces = Vec::new();
        q.for_each_monotonic(&mut |p| pieces.push(*p));
        if ranges.first().map(|r| r.start) != Some(0.0) || ranges.last().map(|r| r.end) != Some(1.0) {
            bad.push("monotonic ranges do not span 0..1".into());
        }
        for w in ranges.windows(2) {
            if w[0].end != w[1].start {
                bad.push("monotonic ranges are not contiguous".into());
            }
        }
        for (rg, pc) in ranges.iter().zip(pieces.iter()) {
            let mut prev = pc.sample(0.0);
            let (mut sx, mut sy) = (0.0f64, 0.0f64);
            for i in 1..=32 {
                let u = i as f64 / 32.0;
                let p = pc.sample(u);
                let (dx, dy) = (p.x - prev.x, p.y - prev.y);
                if dx.abs() > s {
                    if sx != 0.0 && dx.signum() != sx {
                        bad.push("piece is not x-monotonic".into());
                    }
                    sx = dx.signum();
                }
                if dy.abs() > s {
                    if sy != 0.0 && dy.signum() != sy {
                        bad.push("piece is not y-monotonic".into());
                    }
                    sy = dy.signum();
                }
                prev = p;
                let want = q.sample(rg.start + (rg.end - rg.start) * u);
                if !papprox(p, want, 1e-9 + slack * 1e3) {
                    bad.push("monotonic pieces do not retrace the curve".into());
                }
            }
        }
        bad.dedup();
        bad
    });
    cx.st.inc("direct_quad_box_checks");
    match r {
        Some(bad) => {
            for b in bad {
                cx.fail(&b, format!("{:?}", q));
            }
        }
        None => cx.fail("panic in quadratic bounding box / monotonic API", format!("{:?}", q)),
    }
}

fn check_cubic_boxes(cx: &mut Ctx, c: &CubicBezierSegment<f64>, slack: f64) {
    let r = catch(|| {
        let mut bad: Vec<String> = Vec::new();
        let b = c.bounding_box();
        let f = c.fast_bounding_box();
        let s = slack * 100.0 + 1e-9;
        let (mut lx, mut hx, mut ly, mut hy) = (f64::MAX, f64::MIN, f64::MAX, f64::MIN);
        for i in 0..=512 {
            let p = c.sample(i as f64 / 512.0);
            lx = lx.min(p.x);
            hx = hx.max(p.x);
            ly = ly.min(p.y);
            hy = hy.max(p.y);
            if !within(b.min.x, p.x, b.max.x, s) || !within(b.min.y, p.y, b.max.y, s) {
                bad.push(format!("bounding_box does not contain sample t={}/512", i));
                break;
            }
        }
        let span = (hx - lx).max(hy - ly).max(1.0);
        let e = span * 2e-4 + s;
        if b.min.x < lx - e || b.max.x > hx + e || b.min.y < ly - e || b.max.y > hy + e {
            bad.push("bounding box is not tight".into());
        }
        if !(f.min.x <= b.min.x + s && f.min.y <= b.min.y + s && f.max.x >= b.max.x - s && f.max.y >= b.max.y - s) {
            bad.push("fast bounding box does not contain the exact one".into());
        }
        let at = [c.x(c.x_minimum_t()), c.x(c.x_maximum_t()), c.y(c.y_minimum_t()), c.y(c.y_maximum_t())];
        if !(approx(at[0], b.min.x, s) && approx(at[1], b.max.x, s) && approx(at[2], b.min.y, s) && approx(at[3], b.max.y, s)) {
            bad.push("bounding box side not attained at the reported extremum parameter".into());
        }
        // reported local extrema are roots of the derivative inside (0,1)
        let mut ts = Vec::new();
        c.for_each_local_x_extremum_t(&mut |t| ts.push((t, true)));
        c.for_each_local_y_extremum_t(&mut |t| ts.push((t, false)));
        for (t, isx) in ts {
            let d = if isx { c.dx(t) } else { c.dy(t) };
            let scale = 1.0 + c.from.to_vector().length() + c.ctrl1.to_vector().length() + c.ctrl2.to_vector().length() + c.to.to_vector().length();
            if !(t > 0.0 && t < 1.0) || d.abs() > 1e-6 * scale * 30.0 {
                bad.push(format!("reported extremum t={} is not a root of the derivative in (0,1)", t));
            }
        }
        // monotone pieces
        let mut ranges = Vec::new();
        c.for_each_monotonic_range(&mut |r| ranges.push(r));
        if ranges.first().map(|r| r.start) != Some(0.0) || ranges.last().map(|r| r.end) != Some(1.0) {
            bad.push("monotonic ranges do not span 0..1".into());
        }
        for w in ranges.windows(2) {
            if w[0].end != w[1].start {
                bad.push("monotonic ranges are not contiguous".into());
            }
        }
        for rg in &ranges {
            let (mut sx, mut sy) = (0.0f64, 0.0f64);
            let mut prev = c.sample(rg.start);
            for i in 1..=32 {
                let p = c.sample(rg.start + (rg.end - rg.start) * (i as f64 / 32.0));
                let (dx, dy) = (p.x - prev.x, p.y - prev.y);
                let eps = 1e-9 * span + slack * 1e3;
                if dx.abs() > eps {
                    if sx != 0.0 && dx.signum() != sx {
                        bad.push("range is not x-monotonic".into());
                    }
                    sx = dx.signum();
                }
                if dy.abs() > eps {
                    if sy != 0.0 && dy.signum() != sy {
                        bad.push("range is not y-monotonic".into());
                    }
                    sy = dy.signum();
                }
                prev = p;
            }
        }
        bad.dedup();
        bad
    });
    cx.st.inc("direct_cubic_box_checks");
    match r {
        Some(bad) => {
            for b in bad {
                cx.fail(&b, format!("{:?}", c));
            }
        }
        None => cx.fail("panic in cubic bounding box / monotonic API", format!("{:?}", c)),
    }
}
