//! C07: fill vertices report where they come from and interpolate attributes accordingly.
//! A recording FillGeometryBuilder reads position / sources / as_endpoint_id /
//! interpolated_attributes inside add_fill_vertex.  Every vertex goes to the Coq model
//! (Model/Sources.v: exact position of each source, bit-exact f32 model of the attribute
//! averaging) and is also checked directly here.
use crate::tess::*;
use crate::util::*;
use lyon_path::math::{point, Point};
use lyon_path::traits::PathBuilder;
use lyon_path::{AttributeStore, EndpointId, FillRule, IdEvent, Path};
use lyon_tessellation::{
    FillGeometryBuilder, FillOptions, FillTessellator, FillVertex, GeometryBuilder, GeometryBuilderError, Orientation, VertexId, VertexSource,
};
use std::collections::BTreeMap;
use std::panic::AssertUnwindSafe;

pub const HEADER: &str =
    "From Coq Require Import QArith.\nFrom LV Require Import Base.Prelude Model.Bezier Model.Sources Run.C07.\nOpen Scope Q_scope.";

#[derive(Clone, Debug)]
struct VRec {
    pos: Point,
    sources: Vec<VertexSource>,
    endpoint: Option<EndpointId>,
    attrs: Vec<f32>,
}

#[derive(Default)]
struct SrcRecorder {
    verts: Vec<VRec>,
    tris: usize,
}

impl GeometryBuilder for SrcRecorder {
    fn add_triangle(&mut self, _a: VertexId, _b: VertexId, _c: VertexId) {
        self.tris += 1;
    }
}
impl FillGeometryBuilder for SrcRecorder {
    fn add_fill_vertex(&mut self, mut v: FillVertex) -> Result<VertexId, GeometryBuilderError> {
        let pos = v.position();
        let sources: Vec<VertexSource> = v.sources().collect();
        let endpoint = v.as_endpoint_id();
        let attrs = v.interpolated_attributes().to_vec();
        self.verts.push(VRec { pos, sources, endpoint, attrs });
        Ok(VertexId(self.verts.len() as u32 - 1))
    }
}

#[derive(Clone, Debug)]
pub(crate) enum EdgeGeom {
    Line(Point, Point),
    Quad(Point, Point, Point),
    Cubic(Point, Point, Point, Point),
}

/// endpoint table (position, attributes) and edge table (from id, to id) -> geometry
#[derive(Default, Clone)]
pub(crate) struct Tables {
    pub endpoints: BTreeMap<u32, (Point, Vec<f32>)>,
    pub edges: BTreeMap<(u32, u32), Vec<EdgeGeom>>,
}

pub(crate) fn tables_from_path(p: &Path) -> Tables {
    let mut t = Tables::default();
    let na = p.num_attributes();
    let mut ep = |t: &mut Tables, id: EndpointId| {
        let a = if na > 0 { p.attributes(id).to_vec() } else { vec![] };
        t.endpoints.insert(id.0, (p[id], a));
    };
    for e in p.id_iter() {
        match e {
            IdEvent::Begin { at } => ep(&mut t, at),
            IdEvent::Line { from, to } => {
                ep(&mut t, to);
                t.edges.entry((from.0, to.0)).or_default().push(EdgeGeom::Line(p[from], p[to]));
            }
            IdEvent::Quadratic { from, ctrl, to } => {
                ep(&mut t, to);
                t.edges.entry((from.0, to.0)).or_default().push(EdgeGeom::Quad(p[from], p[ctrl], p[to]));
            }
            IdEvent::Cubic { from, ctrl1, ctrl2, to } => {
                ep(&mut t, to);
                t.edges.entry((from.0, to.0)).or_default().push(EdgeGeom::Cubic(p[from], p[ctrl1], p[ctrl2], p[to]));
            }
            IdEvent::End { last, first, .. } => {
                t.edges.entry((last.0, first.0)).or_default().push(EdgeGeom::Line(p[last], p[first]));
            }
        }
    }
    t
}


/// ids handed out one per endpoint in event order (FillBuilder, StrokeBuilder, StrokeTessellator::tessellate)
pub(crate) fn tables_sequential(spec: &PathSpec) -> Tables {
    let mut t = Tables::default();
    let mut next = 0u32;
    for s in &spec.subs {
        let first = next;
        next += 1;
        t.endpoints.insert(first, (s.start, s.start_attrs.clone()));
        let mut prev = (first, s.start);
        for g in &s.segs {
            let id = next;
            next += 1;
            match g {
                Seg::Line(p, a) => {
                    t.endpoints.insert(id, (*p, a.clone()));
                    t.edges.entry((prev.0, id)).or_default().push(EdgeGeom::Line(prev.1, *p));
                    prev = (id, *p);
                }
                Seg::Quad(c, p, a) => {
                    t.endpoints.insert(id, (*p, a.clone()));
                    t.edges.entry((prev.0, id)).or_default().push(EdgeGeom::Quad(prev.1, *c, *p));
                    prev = (id, *p);
                }
                Seg::Cubic(c1, c2, p, a) => {
                    t.endpoints.insert(id, (*p, a.clone()));
                    t.edges.entry((prev.0, id)).or_default().push(EdgeGeom::Cubic(prev.1, *c1, *c2, *p));
                    prev = (id, *p);
                }
            }
        }
        t.edges.entry((prev.0, first)).or_default().push(EdgeGeom::Line(prev.1, s.start));
    }
    t
}

/// replay on a FillBuilder capturing the ids it hands out
fn run_builder(spec: &PathSpec, tess: &mut FillTessellator, o: &FillOptions, out: &mut SrcRecorder) -> (lyon_tessellation::TessellationResult, Tables) {
    let mut t = Tables::default();
    let mut b = tess.builder_with_attributes(spec.n_attr, o, out);
    for s in &spec.subs {
        let first = PathBuilder::begin(&mut b, s.start, &s.start_attrs);
        t.endpoints.insert(first.0, (s.start, s.start_attrs.clone()));
        let mut prev = (first, s.start);
        for g in &s.segs {
            match g {
                Seg::Line(p, a) => {
                    let id = PathBuilder::line_to(&mut b, *p, a);
                    t.endpoints.insert(id.0, (*p, a.clone()));
                    t.edges.entry((prev.0 .0, id.0)).or_default().push(EdgeGeom::Line(prev.1, *p));
                    prev = (id, *p);
                }
                Seg::Quad(c, p, a) => {
                    let id = PathBuilder::quadratic_bezier_to(&mut b, *c, *p, a);
                    t.endpoints.insert(id.0, (*p, a.clone()));
                    t.edges.entry((prev.0 .0, id.0)).or_default().push(EdgeGeom::Quad(prev.1, *c, *p));
                    prev = (id, *p);
                }
                Seg::Cubic(c1, c2, p, a) => {
                    let id = PathBuilder::cubic_bezier_to(&mut b, *c1, *c2, *p, a);
                    t.endpoints.insert(id.0, (*p, a.clone()));
                    t.edges.entry((prev.0 .0, id.0)).or_default().push(EdgeGeom::Cubic(prev.1, *c1, *c2, *p));
                    prev = (id, *p);
                }
            }
        }
        PathBuilder::end(&mut b, s.close);
        t.edges.entry((prev.0 .0, first.0)).or_default().push(EdgeGeom::Line(prev.1, s.start));
    }
    (b.build(), t)
}

pub(crate) fn sample(g: &EdgeGeom, t: f64) -> (f64, f64) {
    let f = |p: &Point| (p.x as f64, p.y as f64);
    let u = 1.0 - t;
    match g {
        EdgeGeom::Line(a, b) => {
            let (a, b) = (f(a), f(b));
            (a.0 * u + b.0 * t, a.1 * u + b.1 * t)
        }
        EdgeGeom::Quad(a, c, b) => {
            let (a, c, b) = (f(a), f(c), f(b));
            (a.0 * u * u + 2.0 * c.0 * u * t + b.0 * t * t, a.1 * u * u + 2.0 * c.1 * u * t + b.1 * t * t)
        }
        EdgeGeom::Cubic(a, c1, c2, b) => {
            let (a, c1, c2, b) = (f(a), f(c1), f(c2), f(b));
            (
                a.0 * u * u * u + 3.0 * c1.0 * u * u * t + 3.0 * c2.0 * u * t * t + b.0 * t * t * t,
                a.1 * u * u * u + 3.0 * c1.1 * u * u * t + 3.0 * c2.1 * u * t * t + b.1 * t * t * t,
            )
        }
    }
}

fn gpt(p: &Point) -> String {
    format!("({}, {})", gq32(p.x), gq32(p.y))
}
fn gattrs(a: &[f32]) -> String {
    glist(a.iter().map(|x| gq32(*x)))
}

/// distance from p to the closed segment a-b (f64)
pub(crate) fn seg_dist(p: (f64, f64), a: (f64, f64), b: (f64, f64)) -> f64 {
    let (dx, dy) = (b.0 - a.0, b.1 - a.1);
    let l2 = dx * dx + dy * dy;
    let t = if l2 == 0.0 { 0.0 } else { (((p.0 - a.0) * dx + (p.1 - a.1) * dy) / l2).clamp(0.0, 1.0) };
    let (qx, qy) = (a.0 + t * dx, a.1 + t * dy);
    ((p.0 - qx).powi(2) + (p.1 - qy).powi(2)).sqrt()
}


/// the chords lyon flattens a curve into (either direction: which one is used depends on the sweep
/// orientation), with parameters expressed along the original curve
pub(crate) fn chords(g: &EdgeGeom, tol: f32) -> Vec<((f64, f64), (f64, f64), f64, f64)> {
    use lyon_path::geom::{CubicBezierSegment, QuadraticBezierSegment};
    let mut out = Vec::new();
    let f = |p: Point| (p.x as f64, p.y as f64);
    match g {
        EdgeGeom::Line(..) => {}
        EdgeGeom::Quad(a, c, b) => {
            QuadraticBezierSegment { from: *a, ctrl: *c, to: *b }.for_each_flattened_with_t(tol, &mut |l, t| out.push((f(l.from), f(l.to), t.start as f64, t.end as f64)));
            QuadraticBezierSegment { from: *b, ctrl: *c, to: *a }.for_each_flattened_with_t(tol, &mut |l, t| out.push((f(l.from), f(l.to), 1.0 - t.start as f64, 1.0 - t.end as f64)));
        }
        EdgeGeom::Cubic(a, c1, c2, b) => {
            CubicBezierSegment { from: *a, ctrl1: *c1, ctrl2: *c2, to: *b }.for_each_flattened_with_t(tol, &mut |l, t| out.push((f(l.from), f(l.to), t.start as f64, t.end as f64)));
            CubicBezierSegment { from: *b, ctrl1: *c2, ctrl2: *c1, to: *a }.for_each_flattened_with_t(tol, &mut |l, t| out.push((f(l.from), f(l.to), 1.0 - t.start as f64, 1.0 - t.end as f64)));
        }
    }
    out
}

/// K11: the vertex lies on one of the chords lyon flattens the curve into (within the sweep's snapping
/// threshold, half the tolerance) and the reported parameter lies in that chord's parameter range: right
/// curve, right chord, parameter interpolated linearly along the chord, so that the curve point at that
/// parameter can be farther than the tolerance from the vertex.
fn classify_curve(g: &EdgeGeom, tol: f32, pos: Point, t: f32) -> Option<&'static str> {
    let p = (pos.x as f64, pos.y as f64);
    let eps = 2e-3;
    for (a, b, t0, t1) in chords(g, tol) {
        if seg_dist(p, a, b) > 0.5 * tol as f64 + eps {
            continue;
        }
        let (lo, hi) = (t0.min(t1) - eps, t0.max(t1) + eps);
        if (t as f64) >= lo && (t as f64) <= hi {
            return Some("K11");
        }
    }
    None
}

struct Gen {
    affine: Option<Vec<[f32; 3]>>, // attr_k = c0 + c1 x + c2 y
}

fn with_affine_attrs(mut spec: PathSpec, r: &mut Rng, n_attr: usize) -> (PathSpec, Gen) {
    let coef: Vec<[f32; 3]> = (0..n_attr).map(|_| [r.range(-4, 4) as f32, r.range(-3, 3) as f32, r.range(-3, 3) as f32]).collect();
    let f = |p: &Point| -> Vec<f32> { coef.iter().map(|c| c[0] + c[1] * p.x + c[2] * p.y).collect() };
    spec.n_attr = n_attr;
    for s in &mut spec.subs {
        s.start_attrs = f(&s.start);
        for g in &mut s.segs {
            match g {
                Seg::Line(p, a) => *a = f(p),
                Seg::Quad(_, p, a) => *a = f(p),
                Seg::Cubic(_, _, p, a) => *a = f(p),
            }
        }
    }
    (spec, Gen { affine: Some(coef) })
}

fn crafted(k: u64) -> PathSpec {
    match k % 6 {
        // the shape of the property's example: a long vertical edge, a vertex of another sub-path lying on it,
        // and a crossing on the lower part
        0 => PathSpec::from_polylines(&[vec![(0.0, 0.0), (0.0, 10.0), (-6.0, 5.0)], vec![(0.0, 5.0), (4.0, 3.0), (4.0, 6.0)], vec![(-3.0, 7.0), (3.0, 8.0), (3.0, 9.0)]], &[true, true, true]),
        // two rectangles sharing part of an edge (coincident edges)
        1 => PathSpec::from_polylines(&[vec![(0.0, 0.0), (4.0, 0.0), (4.0, 6.0), (0.0, 6.0)], vec![(4.0, 2.0), (8.0, 2.0), (8.0, 8.0), (4.0, 8.0)]], &[true, true]),
        // shared vertex of four edges
        2 => PathSpec::from_polylines(&[vec![(0.0, 0.0), (4.0, 4.0), (0.0, 8.0)], vec![(8.0, 0.0), (4.0, 4.0), (8.0, 8.0)]], &[true, true]),
        // bow-tie
        3 => PathSpec::from_polylines(&[vec![(0.0, 0.0), (6.0, 6.0), (6.0, 0.0), (0.0, 6.0)]], &[true]),
        // vertex on a slanted edge then crossing below
        4 => PathSpec::from_polylines(&[vec![(0.0, 0.0), (8.0, 8.0), (0.0, 8.0)], vec![(4.0, 4.0), (7.0, 2.0), (7.0, 4.0)], vec![(8.0, 5.0), (2.0, 7.0), (8.0, 7.0)]], &[true, true, true]),
        // three edges through one interior point (intersection of intersections)
        _ => PathSpec::from_polylines(&[vec![(0.0, 0.0), (8.0, 8.0), (8.0, 0.0), (0.0, 8.0)], vec![(4.0, 0.0), (4.0, 8.0), (5.0, 8.0), (5.0, 0.0)]], &[true, true]),
    }
}

/// An active edge A that (1) is cut by a crossing the sweep has already found, (2) has a vertex of another sub-path lying
/// exactly on it above that crossing, (3) where an edge starts that is coincident with A and ends before the crossing: the
/// split parameter computed by `merge_coincident_edges` must be remapped into the range A has *now* (its end was shortened
/// by the intersection), not into the range recorded when A was pushed.  Parameters are decoded from `k` (no random draw);
/// all points are multiples of 1/4 on the diagonal, optionally mirrored / transposed.
fn cut_then_coincident(k: u64) -> PathSpec {
    let c = 5.0 + (k % 3) as f32; // crossing at (c, c)
    let j = 1.0 + ((k / 3) % 2) as f32; // vertex on A at v = c - 1 + j/4
    let len = 1.0 + ((k / 6) % 2) as f32; // coincident edge of length len/4 (stays above the crossing: j + len <= 3)
    let mirror = (k / 12) % 2 == 1;
    let transpose = (k / 24) % 2 == 1;
    let v = c - 1.0 + j / 4.0;
    let w = v + len / 4.0;
    let m = |p: (f32, f32)| -> (f32, f32) {
        let p = if mirror { (-p.0, p.1) } else { p };
        if transpose { (p.1, p.0) } else { p }
    };
    let polys: Vec<Vec<(f32, f32)>> = vec![
        vec![m((0.0, 0.0)), m((8.0, 8.0)), m((-8.0, 8.0))],
        vec![m((c + 1.0, c - 1.0)), m((c - 1.0, c + 1.0)), m((c + 1.5, c + 1.0))],
        vec![m((v, v)), m((w, w)), m((v - 1.5, v + 1.0))],
    ];
    PathSpec::from_polylines(&polys, &[true, true, true])
}

/// curved paths kept from earlier failures (run first, with every orientation / rule)
fn corpus() -> Vec<PathSpec> {
    let q = |c: (f32, f32), p: (f32, f32)| Seg::Quad(point(c.0, c.1), point(p.0, p.1), vec![]);
    let c = |a: (f32, f32), b: (f32, f32), p: (f32, f32)| Seg::Cubic(point(a.0, a.1), point(b.0, b.1), point(p.0, p.1), vec![]);
    let l = |p: (f32, f32)| Seg::Line(point(p.0, p.1), vec![]);
    let sub = |s: (f32, f32), segs: Vec<Seg>, close: bool| Sub { start: point(s.0, s.1), start_attrs: vec![], segs, close };
    vec![
        // straight-line cubic whose flattened points wobble by an ulp: near-horizontal edges in opposite directions
        PathSpec { n_attr: 0, subs: vec![sub((8.0, 0.0), vec![q((5.0, 2.0), (6.0, 9.0)), c((6.0, 0.0), (6.0, 3.0), (6.0, 0.0))], false)] },
        // curves going upwards (flattened in reverse)
        PathSpec { n_attr: 0, subs: vec![sub((4.0, 4.0), vec![q((4.0, 6.0), (10.0, 3.0)), l((6.0, 8.0)), c((4.0, 0.0), (3.0, 10.0), (1.0, 1.0)), q((10.0, 8.0), (8.0, 4.0))], true)] },
        // collinear hairpin cubic on a horizontal line
        PathSpec { n_attr: 0, subs: vec![sub((9.0, 7.0), vec![q((0.0, 4.0), (2.0, 2.0)), l((10.0, 1.0)), c((0.0, 1.0), (2.0, 1.0), (5.0, 1.0))], true)] },
    ]
}

pub fn main(args: &Args) -> std::io::Result<()> {
    use std::io::Write;
    let mut st = Stats::default();
    let mut w = ShardWriter::new(&args.out, "c07_cases", args.shards, HEADER, "bad_cases");
    w.disabled = args.direct_only();
    let mut idx = std::fs::File::create(args.out.join("c07_index.txt"))?;
    let mut rng = Rng::new(args.seed ^ 0x07);
    let n = if args.thorough() { 6000 } else { 700 };
    let coq_cap = if args.thorough() { 40000 } else { 6000 };
    let mut id = 0usize;
    let corpus = corpus();
    let n_corpus = corpus.len() * 12;
    for it0 in 0..n + n_corpus {
        let from_corpus = it0 < n_corpus;
        let it = if from_corpus { 3 } else { it0 - n_corpus };
        let n_attr = rng.below(4) as usize;
        let (spec, gen) = match it % 5 {
            _ if from_corpus => {
                let mut s = corpus[it0 % corpus.len()].clone();
                s.n_attr = n_attr;
                for sub in &mut s.subs {
                    sub.start_attrs = (0..n_attr).map(|_| rng.range(-50, 50) as f32).collect();
                    for g in &mut sub.segs {
                        let a: Vec<f32> = (0..n_attr).map(|_| rng.range(-50, 50) as f32).collect();
                        match g {
                            Seg::Line(_, x) | Seg::Quad(_, _, x) | Seg::Cubic(_, _, _, x) => *x = a,
                        }
                    }
                }
                (s, Gen { affine: None })
            }
            0 => {
                let k = rng.below(6);
                // every third crafted case is the cut-then-coincident family (decoded from the iteration number, so the
                // random stream of all other cases is unchanged)
                let s = if (it / 5) % 3 == 2 { cut_then_coincident((it / 15) as u64) } else { crafted(k) };
                with_affine_attrs(s, &mut rng, n_attr)
            }
            1 | 2 => {
                let s = random_polygonal(&mut rng, 3, 6, 8);
                with_affine_attrs(s, &mut rng, n_attr)
            }
            3 => (random_curved(&mut rng, n_attr, 2, 4, 10), Gen { affine: None }),
            _ => {
                let s = random_polygonal(&mut rng, 4, 5, 5);
                if rng.chance(1, 2) {
                    with_affine_attrs(s, &mut rng, n_attr)
                } else {
                    let mut s = s;
                    // arbitrary attributes
                    s.n_attr = n_attr;
                    for sub in &mut s.subs {
                        sub.start_attrs = (0..n_attr).map(|_| rng.range(-50, 50) as f32 / 4.0).collect();
                        for g in &mut sub.segs {
                            if let Seg::Line(_, a) = g {
                                *a = (0..n_attr).map(|_| rng.range(-50, 50) as f32 / 4.0).collect();
                            }
                        }
                    }
                    (s, Gen { affine: None })
                }
            }
        };
        let mut rule = if rng.chance(1, 2) { FillRule::EvenOdd } else { FillRule::NonZero };
        let mut orient = if rng.chance(1, 2) { Orientation::Vertical } else { Orientation::Horizontal };
        let mut tol = *rng.pick(&[0.01f32, 0.05, 0.2]);
        if from_corpus {
            let k = it0 / corpus.len();
            rule = if k % 2 == 0 { FillRule::EvenOdd } else { FillRule::NonZero };
            orient = if (k / 2) % 2 == 0 { Orientation::Horizontal } else { Orientation::Vertical };
            tol = [0.01f32, 0.05, 0.2][(k / 4) % 3];
        }
        let o = FillOptions::tolerance(tol).with_fill_rule(rule).with_sweep_orientation(orient);
        let entry = *rng.pick(&[Entry::WithIds, Entry::TessellatePath, Entry::BuilderWithAttributes]);
        let label = format!("{:?} {:?} {:?} tol {} :: {}", entry, rule, orient, tol, spec.text());
        st.inc("evaluations");
        st.inc(&format!("entry_{:?}", entry));
        st.inc(&format!("attrs_{}", spec.n_attr));
        st.note_case(&label, spec.subs.len() > 1);
        let mut rec = SrcRecorder::default();
        let mut tess = FillTessellator::new();
        let r = catch(AssertUnwindSafe(|| match entry {
            Entry::BuilderWithAttributes => {
                let (res, t) = run_builder(&spec, &mut tess, &o, &mut rec);
                (res.is_ok(), t)
            }
            Entry::TessellatePath if spec.n_attr > 0 => {
                let p = spec.build();
                (tess.tessellate_path(&p, &o, &mut rec).is_ok(), tables_from_path(&p))
            }
            _ => {
                let p = spec.build();
                let t = tables_from_path(&p);
                let res = if spec.n_attr > 0 {
                    tess.tessellate_with_ids(p.id_iter(), &p, Some(&p), &o, &mut rec)
                } else {
                    tess.tessellate_with_ids(p.id_iter(), &p, None, &o, &mut rec)
                };
                (res.is_ok(), t)
            }
        }));
        let (ok, tables) = match r {
            Some(x) => x,
            None => {
                st.fail(jobj(&[("what", jstr("fill panicked while the builder read sources / attributes")), ("input", jstr(&label))]));
                continue;
            }
        };
        if !ok {
            st.inc("fill_returned_error");
            continue;
        }
        let extent = 12.0f64;
        let slack = tol as f64 + 1e-4 * extent;
        for (vi, v) in rec.verts.iter().enumerate() {
            st.inc("vertices");
            let vlabel = format!("vertex {} at {:?} sources {:?} attrs {:?} :: {}", vi, v.pos, v.sources, v.attrs, label);
            if v.sources.is_empty() {
                st.fail(jobj(&[("what", jstr("a fill vertex has no source")), ("input", jstr(&vlabel))]));
                continue;
            }
            st.inc(if v.sources.len() == 1 { "single_source" } else { "multi_source" });
            let p = (v.pos.x as f64, v.pos.y as f64);
            let mut coq_srcs: Vec<String> = Vec::new();
            let mut all_sound = true;
            let mut all_lines = true;
            let mut unknown = false;
            for s in &v.sources {
                match s {
                    VertexSource::Endpoint { id } => {
                        st.inc("endpoint_sources");
                        match tables.endpoints.get(&id.0) {
                            Some((q, a)) => {
                                if *q != v.pos {
                                    all_sound = false;
                                    let fields = vec![("what", jstr("an endpoint source does not have the vertex's position")), ("input", jstr(&vlabel))];
                                    st.fail(jobj(&fields));
                                }
                                coq_srcs.push(format!("(SEnd {} {})", gpt(q), gattrs(a)));
                            }
                            None => {
                                unknown = true;
                                st.fail(jobj(&[("what", jstr("an endpoint source names an id that is not an endpoint of the input")), ("input", jstr(&vlabel))]));
                            }
                        }
                    }
                    VertexSource::Edge { from, to, t } => {
                        st.inc("edge_sources");
                        // lyon skips zero-length segments without advancing the endpoint id: an edge may be named by
                        // the id of an earlier endpoint at the same position
                        let by_pos = || -> Option<&EdgeGeom> {
                            let (pf, pt) = (tables.endpoints.get(&from.0)?.0, tables.endpoints.get(&to.0)?.0);
                            tables.edges.values().flatten().find(|g| match g {
                                EdgeGeom::Line(a, b) => *a == pf && *b == pt,
                                EdgeGeom::Quad(a, _, b) => *a == pf && *b == pt,
                                EdgeGeom::Cubic(a, _, _, b) => *a == pf && *b == pt,
                            })
                        };
                        let g = tables.edges.get(&(from.0, to.0)).and_then(|v| v.first()).or_else(by_pos);
                        let (fa, ta) = match (tables.endpoints.get(&from.0), tables.endpoints.get(&to.0)) {
                            (Some(a), Some(b)) => (a.1.clone(), b.1.clone()),
                            _ => (vec![], vec![]),
                        };
                        match g {
                            None => {
                                unknown = true;
                                st.fail(jobj(&[("what", jstr("an edge source names a pair of ids that is not an edge of the input")), ("input", jstr(&vlabel))]));
                            }
                            Some(g) => {
                                if !(*t > 0.0 && *t < 1.0) {
                                    all_sound = false;
                                    st.fail(jobj(&[("what", jstr("an edge source has a parameter outside (0,1)")), ("input", jstr(&vlabel))]));
                                }
                                let q = sample(g, *t as f64);
                                let d = ((q.0 - p.0).powi(2) + (q.1 - p.1).powi(2)).sqrt();
                                st.add("max_source_error_1e6", 0);
                                if d > slack {
                                    all_sound = false;
                                    let mut class = None;
                                    if !matches!(g, EdgeGeom::Line(..)) {
                                        class = classify_curve(g, tol, v.pos, *t);
                                    }
                                    let mut fields = vec![
                                        ("what", jstr("an edge source's parameter does not give the vertex's position")),
                                        ("input", jstr(&format!("off by {:.4} (slack {:.4}) :: {}", d, slack, vlabel))),
                                    ];
                                    if let Some(c) = class {
                                        fields.push(("class", jstr(c)));
                                    }
                                    st.fail(jobj(&fields));
                                }
                                match g {
                                    EdgeGeom::Line(a, b) => coq_srcs.push(format!("(SLine {} {} {} {} {})", gpt(a), gpt(b), gq32(*t), gattrs(&fa), gattrs(&ta))),
                                    EdgeGeom::Quad(a, c, b) => {
                                        all_lines = false;
                                        coq_srcs.push(format!("(SQuad {} {} {} {} {} {})", gpt(a), gpt(c), gpt(b), gq32(*t), gattrs(&fa), gattrs(&ta)))
                                    }
                                    EdgeGeom::Cubic(a, c1, c2, b) => {
                                        all_lines = false;
                                        coq_srcs.push(format!("(SCubic {} {} {} {} {} {} {})", gpt(a), gpt(c1), gpt(c2), gpt(b), gq32(*t), gattrs(&fa), gattrs(&ta)))
                                    }
                                }
                            }
                        }
                    }
                }
            }
            // as_endpoint_id: the first endpoint source, if any
            let first_ep = v.sources.iter().find_map(|s| if let VertexSource::Endpoint { id } = s { Some(*id) } else { None });
            if v.endpoint != first_ep {
                // as_endpoint_id walks the raw sibling list, sources() removes consecutive duplicates: both must
                // name an endpoint at this position, and agree on whether there is one
                let same_pos = match (v.endpoint, first_ep) {
                    (Some(a), Some(b)) => tables.endpoints.get(&a.0).map(|x| x.0) == tables.endpoints.get(&b.0).map(|x| x.0),
                    _ => false,
                };
                if !same_pos {
                    st.fail(jobj(&[("what", jstr("as_endpoint_id disagrees with the sources")), ("input", jstr(&format!("{:?} :: {}", v.endpoint, vlabel)))]));
                }
            }
            // attributes: count, and the affine reproduction on polygonal input
            if v.attrs.len() != spec.n_attr {
                st.fail(jobj(&[("what", jstr("wrong number of interpolated attributes")), ("input", jstr(&vlabel))]));
                continue;
            }
            if let (Some(coef), true, true) = (&gen.affine, all_sound, all_lines) {
                for (k, c) in coef.iter().enumerate() {
                    let want = c[0] as f64 + c[1] as f64 * p.0 + c[2] as f64 * p.1;
                    let tolerance = (c[1].abs() + c[2].abs()) as f64 * slack + 1e-4 * (1.0 + want.abs());
                    if (v.attrs[k] as f64 - want).abs() > tolerance {
                        st.fail(jobj(&[("what", jstr("an attribute that is an affine function of position is not reproduced")), ("input", jstr(&format!("attribute {} is {} expected {} :: {}", k, v.attrs[k], want, vlabel)))]));
                    }
                }
                st.inc("affine_attribute_vertices");
            }
            if unknown {
                continue;
            }
            // the model: all interesting vertices, and a share of the single-endpoint ones
            let interesting = v.sources.len() > 1 || !matches!(v.sources[0], VertexSource::Endpoint { .. });
            if (interesting || vi % 4 == 0) && id < coq_cap && v.attrs.iter().all(|a| a.is_finite()) {
                let slack_q = gq64(slack * slack);
                writeln!(idx, "{}\t{}", id, vlabel).ok();
                w.push(format!("(mkVc {} {} {} {} {})", id, gpt(&v.pos), glist(coq_srcs.into_iter()), gattrs(&v.attrs), slack_q));
                id += 1;
            }
        }
        if it0 % 50 == 0 {
            st.sample(label);
        }
    }
    // remap_t_in_range (hook): increasing and decreasing ranges, end values, bit-exact against the f32 model
    let nr = if args.thorough() { 4000 } else { 600 };
    for k in 0..nr {
        let q = |r: &mut Rng| -> f32 {
            match r.below(6) {
                0 => 0.0,
                1 => 1.0,
                2 => r.below(1 << 10) as f32 / (1 << 10) as f32,
                _ => (r.unit_f64() as f32).min(1.0),
            }
        };
        let (val, s0, e0) = (q(&mut rng), q(&mut rng), q(&mut rng));
        let got = lyon_tessellation::verif::verif_remap_t_in_range(val, s0..e0);
        st.inc("remap_evaluations");
        st.inc(if e0 > s0 { "remap_increasing" } else { "remap_decreasing_or_empty" });
        let exact = s0 as f64 + val as f64 * (e0 as f64 - s0 as f64);
        if (got as f64 - exact).abs() > 1e-6 {
            st.fail(jobj(&[("what", jstr("remap_t_in_range is not start + val * (end - start)")), ("input", jstr(&format!("val {} range {}..{} -> {}", val, s0, e0, got)))]));
        }
        writeln!(idx, "{}\tremap val {} range {}..{} -> {}", 1_000_000 + k, val, s0, e0, got).ok();
        w.push(format!("(mkR {} {} {} {} {})", 1_000_000 + k, gq32(val), gq32(s0), gq32(e0), gq32(got)));
    }
    w.finish()?;
    st.write(&args.out.join("c07_stats.json"))
}
