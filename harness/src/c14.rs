//! C14: every view of a stored path tells the same story.
//! Runs builder programs against lyon_path, prints program + every observation
//! as Gallina literals for the Coq model, and evaluates the property directly
//! (independent Rust oracle computed from the program itself).
use crate::util::*;
use lyon_path::math::{point, Point};
use lyon_path::{Attributes, ControlPointId, EndpointId, Event, IdEvent, Path, PathEvent};
use std::panic::AssertUnwindSafe;

#[derive(Clone, Debug, PartialEq)]
pub enum Op {
    Begin(Point, Vec<f32>),
    Line(Point, Vec<f32>),
    Quad(Point, Point, Vec<f32>),
    Cubic(Point, Point, Point, Vec<f32>),
    End(bool),
}

pub type Ep = (Point, Vec<f32>);
pub type AEvent = Event<Ep, Point>;

fn gp(p: Point) -> String {
    format!("({}, {})", gzf(p.x), gzf(p.y))
}
fn gattrs(a: &[f32]) -> String {
    glist(a.iter().map(|v| gzf(*v)))
}
fn gep(e: &Ep) -> String {
    format!("({}, {})", gp(e.0), gattrs(&e.1))
}

pub fn gop(o: &Op) -> String {
    match o {
        Op::Begin(p, a) => format!("OBegin {} {}", gp(*p), gattrs(a)),
        Op::Line(p, a) => format!("OLine {} {}", gp(*p), gattrs(a)),
        Op::Quad(c, p, a) => format!("OQuad {} {} {}", gp(*c), gp(*p), gattrs(a)),
        Op::Cubic(c1, c2, p, a) => {
            format!("OCubic {} {} {} {}", gp(*c1), gp(*c2), gp(*p), gattrs(a))
        }
        Op::End(c) => format!("OEnd {}", gbool(*c)),
    }
}

pub fn gevent<E, C>(e: &Event<E, C>, fe: &dyn Fn(&E) -> String, fc: &dyn Fn(&C) -> String) -> String {
    match e {
        Event::Begin { at } => format!("EvBegin {}", fe(at)),
        Event::Line { from, to } => format!("EvLine {} {}", fe(from), fe(to)),
        Event::Quadratic { from, ctrl, to } => {
            format!("EvQuad {} {} {}", fe(from), fc(ctrl), fe(to))
        }
        Event::Cubic { from, ctrl1, ctrl2, to } => {
            format!("EvCubic {} {} {} {}", fe(from), fc(ctrl1), fc(ctrl2), fe(to))
        }
        Event::End { last, first, close } => {
            format!("EvEnd {} {} {}", fe(last), fe(first), gbool(*close))
        }
    }
}

fn gevents<E, C>(
    l: &Option<Vec<Event<E, C>>>,
    fe: &dyn Fn(&E) -> String,
    fc: &dyn Fn(&C) -> String,
) -> String {
    gopt(l.as_ref().map(|v| glist(v.iter().map(|e| gevent(e, fe, fc)))))
}

fn own(e: Event<(Point, Attributes), Point>) -> AEvent {
    let f = |x: (Point, Attributes)| (x.0, x.1.to_vec());
    match e {
        Event::Begin { at } => Event::Begin { at: f(at) },
        Event::Line { from, to } => Event::Line { from: f(from), to: f(to) },
        Event::Quadratic { from, ctrl, to } => Event::Quadratic { from: f(from), ctrl, to: f(to) },
        Event::Cubic { from, ctrl1, ctrl2, to } => {
            Event::Cubic { from: f(from), ctrl1, ctrl2, to: f(to) }
        }
        Event::End { last, first, close } => Event::End { last: f(last), first: f(first), close },
    }
}

/// The specification, computed from the program alone.
pub fn spec_events(ops: &[Op]) -> Vec<AEvent> {
    let mut out = Vec::new();
    let mut first: Ep = (point(0.0, 0.0), vec![]);
    let mut cur: Ep = first.clone();
    for o in ops {
        match o {
            Op::Begin(p, a) => {
                first = (*p, a.clone());
                cur = first.clone();
                out.push(Event::Begin { at: first.clone() });
            }
            Op::Line(p, a) => {
                let to = (*p, a.clone());
                out.push(Event::Line { from: cur.clone(), to: to.clone() });
                cur = to;
            }
            Op::Quad(c, p, a) => {
                let to = (*p, a.clone());
                out.push(Event::Quadratic { from: cur.clone(), ctrl: *c, to: to.clone() });
                cur = to;
            }
            Op::Cubic(c1, c2, p, a) => {
                let to = (*p, a.clone());
                out.push(Event::Cubic { from: cur.clone(), ctrl1: *c1, ctrl2: *c2, to: to.clone() });
                cur = to;
            }
            Op::End(close) => {
                out.push(Event::End { last: cur.clone(), first: first.clone(), close: *close });
            }
        }
    }
    out
}

/// Reversed program semantics (sub-paths in reverse order, each traversed backwards).
pub fn spec_reversed(ops: &[Op]) -> Vec<AEvent> {
    let evs = spec_events(ops);
    // split into sub-paths
    let mut subs: Vec<Vec<AEvent>> = Vec::new();
    for e in evs {
        if let Event::Begin { .. } = e {
            subs.push(Vec::new());
        }
        subs.last_mut().unwrap().push(e);
    }
    let mut out = Vec::new();
    for s in subs.iter().rev() {
        let (last, close) = match s.last().unwrap() {
            Event::End { last, close, .. } => (last.clone(), *close),
            _ => unreachable!(),
        };
        out.push(Event::Begin { at: last.clone() });
        let mut end_at = last.clone();
        for e in s[1..s.len() - 1].iter().rev() {
            match e {
                Event::Line { from, to } => {
                    out.push(Event::Line { from: to.clone(), to: from.clone() });
                    end_at = from.clone();
                }
                Event::Quadratic { from, ctrl, to } => {
                    out.push(Event::Quadratic { from: to.clone(), ctrl: *ctrl, to: from.clone() });
                    end_at = from.clone();
                }
                Event::Cubic { from, ctrl1, ctrl2, to } => {
                    out.push(Event::Cubic {
                        from: to.clone(),
                        ctrl1: *ctrl2,
                        ctrl2: *ctrl1,
                        to: from.clone(),
                    });
                    end_at = from.clone();
                }
                _ => unreachable!(),
            }
        }
        out.push(Event::End { last: end_at, first: last, close });
    }
    out
}

pub struct Obs {
    pub ids: Vec<u32>,
    pub iter: Option<Vec<PathEvent>>,
    pub id_iter: Option<Vec<IdEvent>>,
    pub iter_attr: Option<Vec<AEvent>>,
    pub resolved: Option<Vec<AEvent>>,
    pub reversed: Option<Vec<AEvent>>,
    pub first: Option<Option<Ep>>,
    pub last: Option<Option<Ep>>,
}

pub fn build_path(n: usize, ops: &[Op], ids: &mut Vec<u32>) -> Path {
    let mut b = Path::builder_with_attributes(n);
    for o in ops {
        match o {
            Op::Begin(p, a) => ids.push(b.begin(*p, a).0),
            Op::Line(p, a) => ids.push(b.line_to(*p, a).0),
            Op::Quad(c, p, a) => ids.push(b.quadratic_bezier_to(*c, *p, a).0),
            Op::Cubic(c1, c2, p, a) => ids.push(b.cubic_bezier_to(*c1, *c2, *p, a).0),
            Op::End(c) => {
                b.end(*c);
                ids.push(0)
            }
        }
    }
    b.build()
}

fn build_path_noattr(ops: &[Op]) -> Path {
    let mut b = Path::builder();
    for o in ops {
        match o {
            Op::Begin(p, _) => {
                b.begin(*p);
            }
            Op::Line(p, _) => {
                b.line_to(*p);
            }
            Op::Quad(c, p, _) => {
                b.quadratic_bezier_to(*c, *p);
            }
            Op::Cubic(c1, c2, p, _) => {
                b.cubic_bezier_to(*c1, *c2, *p);
            }
            Op::End(c) => b.end(*c),
        }
    }
    b.build()
}

fn resolve(path: &Path, e: &IdEvent) -> AEvent {
    let ep = |id: EndpointId| (path[id], path.attributes(id).to_vec());
    let cp = |id: ControlPointId| path[id];
    match *e {
        Event::Begin { at } => Event::Begin { at: ep(at) },
        Event::Line { from, to } => Event::Line { from: ep(from), to: ep(to) },
        Event::Quadratic { from, ctrl, to } => {
            Event::Quadratic { from: ep(from), ctrl: cp(ctrl), to: ep(to) }
        }
        Event::Cubic { from, ctrl1, ctrl2, to } => {
            Event::Cubic { from: ep(from), ctrl1: cp(ctrl1), ctrl2: cp(ctrl2), to: ep(to) }
        }
        Event::End { last, first, close } => Event::End { last: ep(last), first: ep(first), close },
    }
}

pub fn observe(path: &Path, ids: Vec<u32>) -> Obs {
    let p = AssertUnwindSafe(path);
    Obs {
        ids,
        iter: catch(|| p.iter().collect()),
        id_iter: catch(|| p.id_iter().collect()),
        iter_attr: catch(|| p.iter_with_attributes().map(own).collect()),
        resolved: catch(|| p.id_iter().map(|e| resolve(&p, &e)).collect()),
        reversed: catch(|| p.reversed().with_attributes().map(own).collect()),
        first: catch(|| p.first_endpoint().map(|(q, a)| (q, a.to_vec()))),
        last: catch(|| p.last_endpoint().map(|(q, a)| (q, a.to_vec()))),
    }
}

fn gobs(o: &Obs) -> String {
    let fid = |i: &EndpointId| gz(i.0 as i64);
    let fcid = |i: &ControlPointId| gz(i.0 as i64);
    let fp = |p: &Point| gp(*p);
    format!(
        "(mkObs {} {} {} {} {} {} {} {})",
        glist(o.ids.iter().map(|i| gz(*i as i64))),
        gevents(&o.iter, &fp, &fp),
        gevents(&o.id_iter, &fid, &fcid),
        gevents(&o.iter_attr, &gep, &fp),
        gevents(&o.resolved, &gep, &fp),
        gevents(&o.reversed, &gep, &fp),
        gopt(o.first.as_ref().map(|x| gopt(x.as_ref().map(gep)))),
        gopt(o.last.as_ref().map(|x| gopt(x.as_ref().map(gep)))),
    )
}

fn strip(e: &AEvent) -> PathEvent {
    match e {
        Event::Begin { at } => Event::Begin { at: at.0 },
        Event::Line { from, to } => Event::Line { from: from.0, to: to.0 },
        Event::Quadratic { from, ctrl, to } => Event::Quadratic { from: from.0, ctrl: *ctrl, to: to.0 },
        Event::Cubic { from, ctrl1, ctrl2, to } => {
            Event::Cubic { from: from.0, ctrl1: *ctrl1, ctrl2: *ctrl2, to: to.0 }
        }
        Event::End { last, first, close } => Event::End { last: last.0, first: first.0, close: *close },
    }
}

/// Direct evaluation of the property on the implementation's answers.
pub fn direct_check(n: usize, ops: &[Op], path: &Path, o: &Obs) -> Vec<String> {
    let mut bad = Vec::new();
    let spec = spec_events(ops);
    let spec_pos: Vec<PathEvent> = spec.iter().map(strip).collect();
    if o.iter.as_ref() != Some(&spec_pos) {
        bad.push("iter differs from the program's events".to_string());
    }
    if o.iter_attr.as_ref() != Some(&spec) {
        bad.push("iter_with_attributes differs from the program's events".to_string());
    }
    if o.resolved.as_ref() != Some(&spec) {
        bad.push("id_iter resolved through the stores differs from the program's events".to_string());
    }
    if o.reversed.as_ref() != Some(&spec_reversed(ops)) {
        bad.push("reversed differs from the reversed program".to_string());
    }
    // ids returned by the builder name the endpoint just added
    let mut k = 0;
    for (op, id) in ops.iter().zip(o.ids.iter()) {
        let want = match op {
            Op::Begin(p, a) | Op::Line(p, a) | Op::Quad(_, p, a) | Op::Cubic(_, _, p, a) => {
                Some((*p, a.clone()))
            }
            Op::End(_) => None,
        };
        if let Some(w) = want {
            let got = catch(AssertUnwindSafe(|| {
                (path[EndpointId(*id)], path.attributes(EndpointId(*id)).to_vec())
            }));
            if got.as_ref() != Some(&w) {
                bad.push(format!("builder call {} returned id {} which does not resolve to its endpoint", k, id));
            }
        }
        k += 1;
    }
    // the slice view gives the same answers
    let sl = path.as_slice();
    let s_iter: Option<Vec<PathEvent>> = catch(AssertUnwindSafe(|| sl.iter().collect()));
    if s_iter != o.iter {
        bad.push("PathSlice::iter differs from Path::iter".to_string());
    }
    let s_ids: Option<Vec<IdEvent>> = catch(AssertUnwindSafe(|| sl.id_iter().collect()));
    if s_ids != o.id_iter {
        bad.push("PathSlice::id_iter differs from Path::id_iter".to_string());
    }
    let s_attr: Option<Vec<AEvent>> =
        catch(AssertUnwindSafe(|| sl.iter_with_attributes().map(own).collect()));
    if s_attr != o.iter_attr {
        bad.push("PathSlice::iter_with_attributes differs".to_string());
    }
    // first / last endpoint
    let want_first = spec.first().map(|e| match e {
        Event::Begin { at } => at.clone(),
        _ => unreachable!(),
    });
    if o.first != Some(want_first) {
        bad.push("first_endpoint is not the first Begin".to_string());
    }
    // reversing twice gives the original
    let twice: Option<Vec<AEvent>> = catch(AssertUnwindSafe(|| {
        let r = path.reversed().with_attributes().into_path();
        let rr = r.reversed().with_attributes().into_path();
        rr.iter_with_attributes().map(own).collect()
    }));
    if twice.as_ref() != Some(&spec) {
        bad.push("reversing twice does not give the original".to_string());
    }
    // ---- concatenation: a builder extended with [this path, a second one, this path again] yields the events one
    // after the other (with the attributes), through the plain builder (n = 0) and the attribute builder
    {
        let got: Option<Vec<AEvent>> = catch(AssertUnwindSafe(|| {
            let other = {
                let mut b = Path::builder_with_attributes(n);
                let a: Vec<f32> = (0..n).map(|k| 70.0 + k as f32).collect();
                b.begin(point(50.0, 51.0), &a);
                b.quadratic_bezier_to(point(52.0, 53.0), point(54.0, 55.0), &a);
                b.end(false);
                b.build()
            };
            let mut b = Path::builder_with_attributes(n);
            b.extend_from_paths(&[path.as_slice(), other.as_slice(), path.as_slice()]);
            let joined = b.build();
            joined.iter_with_attributes().map(own).collect()
        }));
        let a: Vec<f32> = (0..n).map(|k| 70.0 + k as f32).collect();
        let other_events: Vec<AEvent> = vec![
            Event::Begin { at: (point(50.0, 51.0), a.clone()) },
            Event::Quadratic { from: (point(50.0, 51.0), a.clone()), ctrl: point(52.0, 53.0), to: (point(54.0, 55.0), a.clone()) },
            Event::End { last: (point(54.0, 55.0), a.clone()), first: (point(50.0, 51.0), a.clone()), close: false },
        ];
        let mut want = spec.clone();
        want.extend(other_events);
        want.extend(spec.clone());
        if got.as_ref() != Some(&want) {
            bad.push("extend_from_paths: the concatenation does not yield the paths' events one after the other".to_string());
        }
        if n == 0 {
            let got0: Option<Vec<PathEvent>> = catch(AssertUnwindSafe(|| {
                let mut b = Path::builder();
                b.extend_from_paths(&[path.as_slice(), path.as_slice()]);
                b.build().iter().collect()
            }));
            let mut want0 = spec_pos.clone();
            want0.extend(spec_pos.clone());
            if got0.as_ref() != Some(&want0) {
                bad.push("extend_from_paths on the plain builder does not yield the paths' events one after the other".to_string());
            }
        }
    }
    // ---- an entry of a path buffer holding several paths
    {
        let got: Option<(Vec<AEvent>, Vec<AEvent>)> = catch(AssertUnwindSafe(|| {
            let mut buf = lyon_path::PathBuffer::new();
            // a filler path first, so that offsets are not zero
            {
                let mut b = buf.builder();
                b.begin(point(100.0, 100.0));
                b.line_to(point(101.0, 100.0));
                b.quadratic_bezier_to(point(102.0, 103.0), point(104.0, 105.0));
                b.end(true);
                b.build();
            }
            let idx = {
                let mut b = buf.builder().with_attributes(n);
                for o in ops {
                    match o {
                        Op::Begin(p, a) => {
                            b.begin(*p, a);
                        }
                        Op::Line(p, a) => {
                            b.line_to(*p, a);
                        }
                        Op::Quad(c, p, a) => {
                            b.quadratic_bezier_to(*c, *p, a);
                        }
                        Op::Cubic(c1, c2, p, a) => {
                            b.cubic_bezier_to(*c1, *c2, *p, a);
                        }
                        Op::End(c) => b.end(*c),
                    }
                }
                b.build()
            };
            // and one after it
            {
                let mut b = buf.builder();
                b.begin(point(-7.0, -7.0));
                b.end(false);
                b.build();
            }
            let sl = buf.get(idx);
            let with_attr: Vec<AEvent> = sl.iter_with_attributes().map(own).collect();
            let resolved: Vec<AEvent> = sl
                .id_iter()
                .map(|e| {
                    let ep = |id: EndpointId| (sl[id], sl.attributes(id).to_vec());
                    match e {
                        IdEvent::Begin { at } => Event::Begin { at: ep(at) },
                        IdEvent::Line { from, to } => Event::Line { from: ep(from), to: ep(to) },
                        IdEvent::Quadratic { from, ctrl, to } => Event::Quadratic { from: ep(from), ctrl: sl[ctrl], to: ep(to) },
                        IdEvent::Cubic { from, ctrl1, ctrl2, to } => Event::Cubic { from: ep(from), ctrl1: sl[ctrl1], ctrl2: sl[ctrl2], to: ep(to) },
                        IdEvent::End { last, first, close } => Event::End { last: ep(last), first: ep(first), close },
                    }
                })
                .collect();
            (with_attr, resolved)
        }));
        match got {
            None => bad.push("reading the path back from a PathBuffer panicked".to_string()),
            Some((a, r)) => {
                if a != spec {
                    bad.push("PathBuffer entry: iter_with_attributes differs from the program's events".to_string());
                }
                if r != spec {
                    bad.push("PathBuffer entry: id_iter resolved through the slice differs from the program's events".to_string());
                }
            }
        }
    }
    // ---- a command buffer with external storage
    {
        let got: Option<(Vec<PathEvent>, Vec<PathEvent>, bool)> = catch(AssertUnwindSafe(|| {
            let mut endpoints: Vec<Point> = Vec::new();
            let mut ctrls: Vec<Point> = Vec::new();
            let mut b = lyon_path::commands::PathCommands::builder();
            let mut ep = |p: Point, v: &mut Vec<Point>| -> u32 {
                v.push(p);
                v.len() as u32 - 1
            };
            for o in ops {
                match o {
                    Op::Begin(p, _) => {
                        let i = ep(*p, &mut endpoints);
                        b.begin(EndpointId(i));
                    }
                    Op::Line(p, _) => {
                        let i = ep(*p, &mut endpoints);
                        b.line_to(EndpointId(i));
                    }
                    Op::Quad(c, p, _) => {
                        let ci = ep(*c, &mut ctrls);
                        let i = ep(*p, &mut endpoints);
                        b.quadratic_bezier_to(ControlPointId(ci), EndpointId(i));
                    }
                    Op::Cubic(c1, c2, p, _) => {
                        let c1i = ep(*c1, &mut ctrls);
                        let c2i = ep(*c2, &mut ctrls);
                        let i = ep(*p, &mut endpoints);
                        b.cubic_bezier_to(ControlPointId(c1i), ControlPointId(c2i), EndpointId(i));
                    }
                    Op::End(c) => {
                        b.end(*c);
                    }
                }
            }
            let cmds = b.build();
            let via_events: Vec<PathEvent> = cmds
                .events(&endpoints, &ctrls)
                .map(|e| match e {
                    Event::Begin { at } => Event::Begin { at: *at },
                    Event::Line { from, to } => Event::Line { from: *from, to: *to },
                    Event::Quadratic { from, ctrl, to } => Event::Quadratic { from: *from, ctrl: *ctrl, to: *to },
                    Event::Cubic { from, ctrl1, ctrl2, to } => Event::Cubic { from: *from, ctrl1: *ctrl1, ctrl2: *ctrl2, to: *to },
                    Event::End { last, first, close } => Event::End { last: *last, first: *first, close },
                })
                .collect();
            let res = |e: IdEvent| -> PathEvent {
                match e {
                    IdEvent::Begin { at } => Event::Begin { at: endpoints[at.to_usize()] },
                    IdEvent::Line { from, to } => Event::Line { from: endpoints[from.to_usize()], to: endpoints[to.to_usize()] },
                    IdEvent::Quadratic { from, ctrl, to } => Event::Quadratic { from: endpoints[from.to_usize()], ctrl: ctrls[ctrl.to_usize()], to: endpoints[to.to_usize()] },
                    IdEvent::Cubic { from, ctrl1, ctrl2, to } => Event::Cubic { from: endpoints[from.to_usize()], ctrl1: ctrls[ctrl1.to_usize()], ctrl2: ctrls[ctrl2.to_usize()], to: endpoints[to.to_usize()] },
                    IdEvent::End { last, first, close } => Event::End { last: endpoints[last.to_usize()], first: endpoints[first.to_usize()], close },
                }
            };
            let via_ids: Vec<PathEvent> = cmds.iter().map(res).collect();
            // random access by event id agrees with iteration
            let mut random_access_ok = true;
            let mut id = if via_ids.is_empty() { None } else { Some(lyon_path::EventId(0)) };
            let mut k = 0;
            while let Some(i) = id {
                if k >= via_ids.len() || res(cmds.event(i)) != via_ids[k] {
                    random_access_ok = false;
                    break;
                }
                k += 1;
                id = cmds.next_event_id_in_path(i);
            }
            if k != via_ids.len() {
                random_access_ok = false;
            }
            // next_event_id_in_sub_path: the successor inside a sub-path, looping from End back to its Begin
            {
                let mut id = if via_ids.is_empty() { None } else { Some(lyon_path::EventId(0)) };
                let mut begin = lyon_path::EventId(0);
                while let Some(i) = id {
                    let next_in_path = cmds.next_event_id_in_path(i);
                    let next_in_sub = cmds.next_event_id_in_sub_path(i);
                    match cmds.event(i) {
                        IdEvent::Begin { .. } => {
                            begin = i;
                            if Some(next_in_sub) != next_in_path {
                                random_access_ok = false;
                            }
                        }
                        IdEvent::End { .. } => {
                            if next_in_sub != begin {
                                random_access_ok = false;
                            }
                        }
                        _ => {
                            if Some(next_in_sub) != next_in_path {
                                random_access_ok = false;
                            }
                        }
                    }
                    id = next_in_path;
                }
            }
            // the slice views: PathCommandsSlice and CommandsPathSlice (commands + the two external stores)
            {
                let sl = cmds.as_slice();
                let via_slice: Vec<PathEvent> = sl.iter().map(res).collect();
                if via_slice != via_ids {
                    random_access_ok = false;
                }
                let ps = cmds.path_slice(&endpoints, &ctrls);
                let via_ps: Vec<PathEvent> = ps.iter().map(res).collect();
                let via_ps_events: Vec<PathEvent> = ps
                    .events()
                    .map(|e| match e {
                        Event::Begin { at } => Event::Begin { at: *at },
                        Event::Line { from, to } => Event::Line { from: *from, to: *to },
                        Event::Quadratic { from, ctrl, to } => Event::Quadratic { from: *from, ctrl: *ctrl, to: *to },
                        Event::Cubic { from, ctrl1, ctrl2, to } => Event::Cubic { from: *from, ctrl1: *ctrl1, ctrl2: *ctrl2, to: *to },
                        Event::End { last, first, close } => Event::End { last: *last, first: *first, close },
                    })
                    .collect();
                if via_ps != via_ids || via_ps_events != via_events {
                    random_access_ok = false;
                }
                for (k, p) in endpoints.iter().enumerate() {
                    if ps[EndpointId(k as u32)] != *p {
                        random_access_ok = false;
                    }
                }
                for (k, p) in ctrls.iter().enumerate() {
                    if ps[ControlPointId(k as u32)] != *p {
                        random_access_ok = false;
                    }
                }
                let mut id = if via_ids.is_empty() { None } else { Some(lyon_path::EventId(0)) };
                while let Some(i) = id {
                    if sl.event(i) != cmds.event(i) || sl.next_event_id_in_path(i) != cmds.next_event_id_in_path(i) || sl.next_event_id_in_sub_path(i) != cmds.next_event_id_in_sub_path(i) {
                        random_access_ok = false;
                    }
                    id = cmds.next_event_id_in_path(i);
                }
            }
            (via_events, via_ids, random_access_ok)
        }));
        match got {
            None => bad.push("reading the path back from a command buffer panicked".to_string()),
            Some((ev, ids, ra)) => {
                if ev != spec_pos {
                    bad.push("PathCommands::events differs from the program's events".to_string());
                }
                if ids != spec_pos {
                    bad.push("PathCommands id events resolved through the external storage differ from the program's events".to_string());
                }
                if !ra {
                    bad.push("PathCommands random access by event id (event, next_event_id_in_path / _in_sub_path, slice views) disagrees with iteration".to_string());
                }
            }
        }
    }
    // ---- other ways of building the same path: replaying its events through PathBuilder::path_event,
    // extending a builder with them, and the shape helpers add_point / add_line_segment / add_polygon
    if n == 0 {
        use lyon_path::traits::PathBuilder as _;
        let got = catch(AssertUnwindSafe(|| {
            let mut b = Path::builder();
            for e in path.iter() {
                b.path_event(e);
            }
            let via_path_event: Vec<PathEvent> = b.build().iter().collect();
            // attribute-carrying replay: PathBuilder::event on a builder with attributes
            // sub-path by sub-path through the helpers, when the sub-path has the helper's shape
            let mut b = Path::builder();
            let mut it = ops.iter().peekable();
            let mut cur: Vec<&Op> = Vec::new();
            while let Some(o) = it.next() {
                cur.push(o);
                if let Op::End(close) = o {
                    let pts: Vec<Point> = cur.iter().filter_map(|o| match o { Op::Begin(p, _) | Op::Line(p, _) => Some(*p), _ => None }).collect();
                    let polygonal = cur.iter().all(|o| matches!(o, Op::Begin(..) | Op::Line(..) | Op::End(_)));
                    if polygonal && pts.len() == 1 && !*close {
                        b.add_point(pts[0]);
                    } else if polygonal && pts.len() == 2 && !*close {
                        b.add_line_segment(&lyon_path::geom::LineSegment { from: pts[0], to: pts[1] });
                    } else if polygonal {
                        b.add_polygon(lyon_path::Polygon { points: &pts, closed: *close });
                    } else {
                        for o in &cur {
                            match o {
                                Op::Begin(p, _) => { b.begin(*p); }
                                Op::Line(p, _) => { b.line_to(*p); }
                                Op::Quad(c, p, _) => { b.quadratic_bezier_to(*c, *p); }
                                Op::Cubic(c1, c2, p, _) => { b.cubic_bezier_to(*c1, *c2, *p); }
                                Op::End(c) => { b.end(*c); }
                            }
                        }
                    }
                    cur.clear();
                }
            }
            let via_extend: Vec<PathEvent> = b.build().iter().collect();
            (via_path_event, via_extend)
        }));
        match got {
            None => bad.push("replaying the path's events through path_event / extend panicked".to_string()),
            Some((a, b)) => {
                if a != spec_pos {
                    bad.push("a path rebuilt by PathBuilder::path_event from its own events differs".to_string());
                }
                if b != spec_pos {
                    bad.push("a path rebuilt sub-path by sub-path through add_point / add_line_segment / add_polygon differs".to_string());
                }
            }
        }
    }
    // ---- polygon views of a polygonal single sub-path (and of the empty program)
    let poly: Option<(Vec<Point>, bool)> = {
        let mut pts = Vec::new();
        let mut ok = true;
        let mut closed = false;
        let mut ends = 0;
        for o in ops {
            match o {
                Op::Begin(p, _) | Op::Line(p, _) => pts.push(*p),
                Op::End(c) => {
                    closed = *c;
                    ends += 1;
                }
                _ => ok = false,
            }
        }
        if ok && ends <= 1 { Some((pts, closed)) } else { None }
    };
    if let Some((pts, closed)) = poly {
        let got = catch(AssertUnwindSafe(|| {
            let pg = lyon_path::Polygon { points: &pts[..], closed };
            let via_path_events: Vec<PathEvent> = pg.path_events().collect();
            let via_iter: Vec<PathEvent> = pg
                .iter()
                .map(|e| match e {
                    Event::Begin { at } => Event::Begin { at: *at },
                    Event::Line { from, to } => Event::Line { from: *from, to: *to },
                    Event::End { last, first, close } => Event::End { last: *last, first: *first, close },
                    _ => unreachable!(),
                })
                .collect();
            let via_ids: Vec<PathEvent> = pg
                .id_iter()
                .map(|e| match e {
                    IdEvent::Begin { at } => Event::Begin { at: pg[at] },
                    IdEvent::Line { from, to } => Event::Line { from: pg[from], to: pg[to] },
                    IdEvent::End { last, first, close } => Event::End { last: pg[last], first: pg[first], close },
                    _ => unreachable!(),
                })
                .collect();
            (via_path_events, via_iter, via_ids)
        }));
        match got {
            None => bad.push("iterating a Polygon panicked".to_string()),
            Some((pe, it, ids)) => {
                if pe != spec_pos {
                    bad.push("Polygon::path_events differs from the program's events".to_string());
                }
                if it != spec_pos {
                    bad.push("Polygon::iter differs from the program's events".to_string());
                }
                if ids != spec_pos {
                    bad.push("Polygon::id_iter resolved through the polygon differs from the program's events".to_string());
                }
            }
        }
        // random access: event(i) is the i-th event of the iteration
        for (i, want) in spec_pos.iter().enumerate() {
            let got = catch(AssertUnwindSafe(|| {
                let pg = lyon_path::Polygon { points: &pts[..], closed };
                match pg.event(lyon_path::EventId(i as u32)) {
                    Event::Begin { at } => Event::Begin { at: *at },
                    Event::Line { from, to } => Event::Line { from: *from, to: *to },
                    Event::End { last, first, close } => Event::End { last: *last, first: *first, close },
                    _ => unreachable!(),
                }
            }));
            if got.as_ref() != Some(want) {
                bad.push("Polygon::event(id) disagrees with the id-th event of the iteration".to_string());
                break;
            }
        }
    }
    // n = 0: the attribute-less builder stores the same path
    if n == 0 {
        let q = catch(AssertUnwindSafe(|| {
            let q = build_path_noattr(ops);
            q.iter_with_attributes().map(own).collect::<Vec<_>>()
        }));
        if q.as_ref() != Some(&spec) {
            bad.push("Path::builder() result differs".to_string());
        }
    }
    bad
}

// ------------------------------------------------------------------ generators

#[derive(Clone, Copy, PartialEq, Debug)]
enum K {
    Begin,
    Line,
    Quad,
    Cubic,
    End,
    Close,
}

/// all well-nested kind sequences with exactly `len` ops
fn enum_kinds(len: usize, out: &mut Vec<Vec<K>>) {
    fn go(len: usize, cur: &mut Vec<K>, open: bool, out: &mut Vec<Vec<K>>) {
        if cur.len() == len {
            if !open {
                out.push(cur.clone());
            }
            return;
        }
        if open {
            for k in [K::Line, K::Quad, K::Cubic, K::End, K::Close] {
                cur.push(k);
                go(len, cur, !(k == K::End || k == K::Close), out);
                cur.pop();
            }
        } else {
            cur.push(K::Begin);
            go(len, cur, true, out);
            cur.pop();
        }
    }
    go(len, &mut Vec::new(), false, out);
}

/// assign operands: distinct coordinates (so that any mix-up is visible) or, with
/// `rng`, small random ones with repeats
fn instantiate(kinds: &[K], n: usize, rng: Option<&mut Rng>) -> Vec<Op> {
    let mut ctr = 0i64;
    let mut r = rng;
    let mut pt = |r: &mut Option<&mut Rng>| -> Point {
        match r {
            Some(g) => point(g.range(-3, 3) as f32, g.range(-3, 3) as f32),
            None => {
                ctr += 1;
                point((ctr * 10 + 1) as f32, (ctr * 10 + 2) as f32)
            }
        }
    };
    let mut actr = 0i64;
    let mut ops = Vec::new();
    for k in kinds {
        let mut attrs = |r: &mut Option<&mut Rng>| -> Vec<f32> {
            actr += 1;
            (0..n)
                .map(|i| match r {
                    Some(g) => g.range(-5, 5) as f32,
                    None => (1000 * actr + i as i64) as f32,
                })
                .collect()
        };
        match k {
            K::Begin => {
                let p = pt(&mut r);
                ops.push(Op::Begin(p, attrs(&mut r)))
            }
            K::Line => {
                let p = pt(&mut r);
                ops.push(Op::Line(p, attrs(&mut r)))
            }
            K::Quad => {
                let c = pt(&mut r);
                let p = pt(&mut r);
                ops.push(Op::Quad(c, p, attrs(&mut r)))
            }
            K::Cubic => {
                let c1 = pt(&mut r);
                let c2 = pt(&mut r);
                let p = pt(&mut r);
                ops.push(Op::Cubic(c1, c2, p, attrs(&mut r)))
            }
            K::End => ops.push(Op::End(false)),
            K::Close => ops.push(Op::End(true)),
        }
    }
    ops
}

fn random_kinds(rng: &mut Rng, max_ops: usize) -> Vec<K> {
    let target = 1 + rng.below(max_ops as u64) as usize;
    let mut v = Vec::new();
    while v.len() < target {
        v.push(K::Begin);
        // sub-path length distribution: many short (0..2 edges), some long
        let edges = if rng.chance(1, 4) { rng.below(12) } else { rng.below(3) };
        for _ in 0..edges {
            v.push(*rng.pick(&[K::Line, K::Line, K::Quad, K::Cubic]));
        }
        v.push(if rng.chance(1, 2) { K::Close } else { K::End });
    }
    v
}

pub fn ops_text(n: usize, ops: &[Op]) -> String {
    format!("n={} {}", n, ops.iter().map(gop).collect::<Vec<_>>().join("; "))
}

pub const HEADER_CMD: &str = "From LV Require Import Base.Prelude Model.PathStore Model.Commands Run.C14.\nOpen Scope Z_scope.";
pub const HEADER: &str = "From LV Require Import Base.Prelude Model.PathStore Run.C14.\nOpen Scope Z_scope.";

pub fn run_one(id: usize, n: usize, ops: &[Op], w: &mut ShardWriter, st: &mut Stats, origin: &str) {
    let mut ids = Vec::new();
    let built = catch(AssertUnwindSafe(|| build_path(n, ops, &mut ids)));
    st.inc("evaluations");
    st.inc(&format!("origin_{}", origin));
    st.inc(&format!("nattr_{}", n));
    let nontrivial = ops.len() >= 3;
    st.note_case(&ops_text(n, ops), nontrivial);
    let path = match built {
        Some(p) => p,
        None => {
            st.fail(jobj(&[
                ("case", format!("{}", id)),
                ("program", jstr(&ops_text(n, ops))),
                ("what", jstr("builder panicked on a well-nested program")),
            ]));
            return;
        }
    };
    let obs = observe(&path, ids);
    let bad = direct_check(n, ops, &path, &obs);
    for b in &bad {
        st.fail(jobj(&[
            ("case", format!("{}", id)),
            ("program", jstr(&ops_text(n, ops))),
            ("what", jstr(b)),
        ]));
    }
    st.sample(ops_text(n, ops));
    w.push(format!(
        "(mkCase {} {} {} {})",
        id,
        n,
        glist(ops.iter().map(gop)),
        gobs(&obs)
    ));
}

/// the program as a command buffer over external storage: the EventIds the builder calls return, the ids visited
/// by event() / next_event_id_in_path from EventId(0), and next_event_id_in_sub_path at each of them - for the Coq
/// model of commands.rs (Model/Commands.v), whose EventIds are positions in the modelled buffer
fn cmd_case_literal(id: usize, ops: &[Op]) -> Option<String> {
    catch(AssertUnwindSafe(|| {
        let mut b = lyon_path::commands::PathCommands::builder();
        let (mut ne, mut nc) = (0u32, 0u32);
        let mut cops: Vec<String> = Vec::new();
        let mut ids: Vec<i64> = Vec::new();
        for o in ops {
            match o {
                Op::Begin(..) => {
                    ids.push(b.begin(EndpointId(ne)).0 as i64);
                    cops.push(format!("CBegin {}", ne));
                    ne += 1;
                }
                Op::Line(..) => {
                    ids.push(b.line_to(EndpointId(ne)).0 as i64);
                    cops.push(format!("CLine {}", ne));
                    ne += 1;
                }
                Op::Quad(..) => {
                    ids.push(b.quadratic_bezier_to(ControlPointId(nc), EndpointId(ne)).0 as i64);
                    cops.push(format!("CQuad {} {}", nc, ne));
                    nc += 1;
                    ne += 1;
                }
                Op::Cubic(..) => {
                    ids.push(b.cubic_bezier_to(ControlPointId(nc), ControlPointId(nc + 1), EndpointId(ne)).0 as i64);
                    cops.push(format!("CCubic {} {} {}", nc, nc + 1, ne));
                    nc += 2;
                    ne += 1;
                }
                Op::End(c) => {
                    ids.push(b.end(*c).map_or(-1, |e| e.0 as i64));
                    cops.push(format!("CEnd {}", gbool(*c)));
                }
            }
        }
        let cmds = b.build();
        let mut walk: Vec<i64> = Vec::new();
        let mut subs: Vec<i64> = Vec::new();
        let mut cur = if ops.is_empty() { None } else { Some(lyon_path::EventId(0)) };
        while let Some(i) = cur {
            walk.push(i.0 as i64);
            subs.push(cmds.next_event_id_in_sub_path(i).0 as i64);
            cur = cmds.next_event_id_in_path(i);
        }
        let gl = |v: &[i64]| glist(v.iter().map(|x| gz(*x)));
        format!("(mkCmd {} {} {} {} {})", id, glist(cops.iter().map(|c| format!("({})", c))), gl(&ids), gl(&walk), gl(&subs))
    }))
}

pub fn main(args: &Args) -> std::io::Result<()> {
    let mut st = Stats::default();
    let mut w = ShardWriter::new(&args.out, "c14_cases", args.shards, HEADER, "bad_cases");
    w.disabled = args.direct_only();
    let mut cw = ShardWriter::new(&args.out, "c14cmd_cases", 4, HEADER_CMD, "cmd_bad_cases");
    cw.disabled = args.direct_only();
    let mut index = std::fs::File::create(args.out.join("c14_index.txt"))?;
    use std::io::Write;
    let mut id = 0usize;
    let max_len = if args.thorough() { 8 } else { 6 };
    // 1. bounded-exhaustive well-nested programs x attribute counts 0..3
    let mut all = Vec::new();
    for len in 0..=max_len {
        enum_kinds(len, &mut all);
    }
    for kinds in &all {
        for n in 0..4usize {
            let ops = instantiate(kinds, n, None);
            writeln!(index, "{}\t{}", id, ops_text(n, &ops))?;
            run_one(id, n, &ops, &mut w, &mut st, "exhaustive");
            if n == 0 {
                match cmd_case_literal(id, &ops) {
                    Some(c) => {
                        cw.push(c);
                        st.inc("command_buffer_model_cases");
                    }
                    None => st.fail(jobj(&[("what", jstr("building / walking a command buffer panicked")), ("input", jstr(&ops_text(n, &ops)))])),
                }
            }
            id += 1;
        }
    }
    st.add("exhaustive_max_ops", max_len as u64);
    // 2. random longer programs, distinct and repeated coordinates
    let mut rng = Rng::new(args.seed);
    let n_random = if args.thorough() { 6000 } else { 600 };
    for i in 0..n_random {
        let max_ops = if i % 10 == 0 { 200 } else { 30 };
        let kinds = random_kinds(&mut rng, max_ops);
        let n = rng.below(6) as usize;
        let ops = if rng.chance(1, 2) {
            instantiate(&kinds, n, None)
        } else {
            let mut r2 = Rng::new(rng.next_u64());
            instantiate(&kinds, n, Some(&mut r2))
        };
        writeln!(index, "{}\t{}", id, ops_text(n, &ops))?;
        run_one(id, n, &ops, &mut w, &mut st, "random");
        match cmd_case_literal(id, &ops) {
            Some(c) => {
                cw.push(c);
                st.inc("command_buffer_model_cases");
            }
            None => st.fail(jobj(&[("what", jstr("building / walking a command buffer panicked")), ("input", jstr(&ops_text(n, &ops)))])),
        }
        id += 1;
    }
    w.finish()?;
    cw.finish()?;
    // polygon views: every point list up to 4 points on a 2x2 lattice, longer random ones; closed and open
    {
        let mut pw = ShardWriter::new(&args.out, "c14poly_cases", 4, HEADER, "poly_bad_cases");
        pw.disabled = args.direct_only();
        let ev = |e: PathEvent| -> String {
            match e {
                Event::Begin { at } => format!("(EvBegin {})", gp(at)),
                Event::Line { from, to } => format!("(EvLine {} {})", gp(from), gp(to)),
                Event::End { last, first, close } => format!("(EvEnd {} {} {})", gp(last), gp(first), gbool(close)),
                _ => unreachable!(),
            }
        };
        let mut lists: Vec<Vec<Point>> = vec![vec![]];
        let lattice = [point(0.0, 0.0), point(1.0, 0.0), point(0.0, 1.0), point(1.0, 1.0)];
        for len in 1..=4usize {
            for code in 0..4usize.pow(len as u32) {
                let mut c = code;
                lists.push((0..len).map(|_| { let p = lattice[c % 4]; c /= 4; p }).collect());
            }
        }
        for _ in 0..(if args.thorough() { 2000 } else { 300 }) {
            let len = 5 + rng.below(20) as usize;
            lists.push((0..len).map(|_| point(rng.range(-9, 9) as f32, rng.range(-9, 9) as f32)).collect());
        }
        let mut pid = 0usize;
        for pts in &lists {
            for closed in [false, true] {
                st.inc("polygon_evaluations");
                let r = catch(AssertUnwindSafe(|| {
                    let pg = lyon_path::Polygon { points: &pts[..], closed };
                    let res = |e: IdEvent| -> PathEvent {
                        match e {
                            IdEvent::Begin { at } => Event::Begin { at: pg[at] },
                            IdEvent::Line { from, to } => Event::Line { from: pg[from], to: pg[to] },
                            IdEvent::End { last, first, close } => Event::End { last: pg[last], first: pg[first], close },
                            _ => unreachable!(),
                        }
                    };
                    let own = |e: Event<&Point, ()>| -> PathEvent {
                        match e {
                            Event::Begin { at } => Event::Begin { at: *at },
                            Event::Line { from, to } => Event::Line { from: *from, to: *to },
                            Event::End { last, first, close } => Event::End { last: *last, first: *first, close },
                            _ => unreachable!(),
                        }
                    };
                    let it: Vec<PathEvent> = pg.path_events().collect();
                    let ids: Vec<PathEvent> = pg.id_iter().map(res).collect();
                    let ra: Vec<PathEvent> = if pts.is_empty() { vec![] } else { (0..=pts.len()).map(|i| own(pg.event(lyon_path::EventId(i as u32)))).collect() };
                    (it, ids, ra)
                }));
                let text = format!("polygon {:?} closed {}", pts, closed);
                match r {
                    None => st.fail(jobj(&[("case", format!("{}", pid)), ("program", jstr(&text)), ("what", jstr("a Polygon view panicked"))])),
                    Some((it, ids, ra)) => {
                        writeln!(index, "poly{}\t{}", pid, text)?;
                        pw.push(format!(
                            "(mkPoly {} {} {} {} {} {})",
                            pid,
                            glist(pts.iter().map(|p| gp(*p))),
                            gbool(closed),
                            glist(it.into_iter().map(&ev)),
                            glist(ids.into_iter().map(&ev)),
                            glist(ra.into_iter().map(&ev))
                        ));
                    }
                }
                pid += 1;
            }
        }
        pw.finish()?;
    }
    st.write(&args.out.join("c14_stats.json"))
}
