//! C14: every view of a stored path tells the same story.
//! Runs builder programs against lyon_path, prints program + every observation
//! as Gallina literals for the Coq model, and evaluates the property directly
//! (independent Rust oracle computed from the program itself).
use crate::util::*;
use lyon_path::math::{point, Point};
use lyon_path::{Attributes, ControlPointId, EndpointId, Event, IdEvent, Path, PathEvent};
use std::panic::AssertUnwindSafe;

#[derive(Clone, Debug, PartialEq)]
pub enum Op {
    Begin(Point, Vec<f32>),
    Line(Point, Vec<f32>),
    Quad(Point, Point, Vec<f32>),
    Cubic(Point, Point, Point, Vec<f32>),
    End(bool),
}

pub type Ep = (Point, Vec<f32>);
pub type AEvent = Event<Ep, Point>;

fn gp(p: Point) -> String {
    format!("({}, {})", gzf(p.x), gzf(p.y))
}
fn gattrs(a: &[f32]) -> String {
    glist(a.iter().map(|v| gzf(*v)))
}
fn gep(e: &Ep) -> String {
    format!("({}, {})", gp(e.0), gattrs(&e.1))
}

pub fn gop(o: &Op) -> String {
    match o {
        Op::Begin(p, a) => format!("OBegin {} {}", gp(*p), gattrs(a)),
        Op::Line(p, a) => format!("OLine {} {}", gp(*p), gattrs(a)),
        Op::Quad(c, p, a) => format!("OQuad {} {} {}", gp(*c), gp(*p), gattrs(a)),
        Op::Cubic(c1, c2, p, a) => {
            format!("OCubic {} {} {} {}", gp(*c1), gp(*c2), gp(*p), gattrs(a))
        }
        Op::End(c) => format!("OEnd {}", gbool(*c)),
    }
}

pub fn gevent<E, C>(e: &Event<E, C>, fe: &dyn Fn(&E) -> String, fc: &dyn Fn(&C) -> String) -> String {
    match e {
        Event::Begin { at } => format!("EvBegin {}", fe(at)),
        Event::Line { from, to } => format!("EvLine {} {}", fe(from), fe(to)),
        Event::Quadratic { from, ctrl, to } => {
            format!("EvQuad {} {} {}", fe(from), fc(ctrl), fe(to))
        }
        Event::Cubic { from, ctrl1, ctrl2, to } => {
            format!("EvCubic {} {} {} {}", fe(from), fc(ctrl1), fc(ctrl2), fe(to))
        }
        Event::End { last, first, close } => {
            format!("EvEnd {} {} {}", fe(last), fe(first), gbool(*close))
        }
    }
}

fn gevents<E, C>(
    l: &Option<Vec<Event<E, C>>>,
    fe: &dyn Fn(&E) -> String,
    fc: &dyn Fn(&C) -> String,
) -> String {
    gopt(l.as_ref().map(|v| glist(v.iter().map(|e| gevent(e, fe, fc)))))
}

fn own(e: Event<(Point, Attributes), Point>) -> AEvent {
    let f = |x: (Point, Attributes)| (x.0, x.1.to_vec());
    match e {
        Event::Begin { at } => Event::Begin { at: f(at) },
        Event::Line { from, to } => Event::Line { from: f(from), to: f(to) },
        Event::Quadratic { from, ctrl, to } => Event::Quadratic { from: f(from), ctrl, to: f(to) },
        Event::Cubic { from, ctrl1, ctrl2, to } => {
            Event::Cubic { from: f(from), ctrl1, ctrl2, to: f(to) }
        }
        Event::End { last, first, close } => Event::End { last: f(last), first: f(first), close },
    }
}

/// The specification, computed from the program alone.
pub fn spec_events(ops: &[Op]) -> Vec<AEvent> {
    let mut out = Vec::new();
    let mut first: Ep = (point(0.0, 0.0), vec![]);
    let mut cur: Ep = first.clone();
    for o in ops {
        match o {
            Op::Begin(p, a) => {
                first = (*p, a.clone());
                cur = first.clone();
                out.push(Event::Begin { at: first.clone() });
            }
            Op::Line(p, a) => {
                let to = (*p, a.clone());
                out.push(Event::Line { from: cur.clone(), to: to.clone() });
                cur = to;
            }
            Op::Quad(c, p, a) => {
                let to = (*p, a.clone());
                out.push(Event::Quadratic { from: cur.clone(), ctrl: *c, to: to.clone() });
                cur = to;
            }
            Op::Cubic(c1, c2, p, a) => {
                let to = (*p, a.clone());
                out.push(Event::Cubic { from: cur.clone(), ctrl1: *c1, ctrl2: *c2, to: to.clone() });
                cur = to;
            }
            Op::End(close) => {
                out.push(Event::End { last: cur.clone(), first: first.clone(), close: *close });
            }
        }
    }
    out
}

/// Reversed program semantics (sub-paths in reverse order, each traversed backwards).
pub fn spec_reversed(ops: &[Op]) -> Vec<AEvent> {
    let evs = spec_events(ops);
    // split into sub-paths
    let mut subs: Vec<Vec<AEvent>> = Vec::new();
    for e in evs {
        if let Event::Begin { .. } = e {
            subs.push(Vec::new());
        }
        subs.last_mut().unwrap().push(e);
    }
    let mut out = Vec::new();
    for s in subs.iter().rev() {
        let (last, close) = match s.last().unwrap() {
            Event::End { last, close, .. } => (last.clone(), *close),
            _ => unreachable!(),
        };
        out.push(Event::Begin { at: last.clone() });
        let mut end_at = last.clone();
        for e in s[1..s.len() - 1].iter().rev() {
            match e {
                Event::Line { from, to } => {
                    out.push(Event::Line { from: to.clone(), to: from.clone() });
                    end_at = from.clone();
                }
                Event::Quadratic { from, ctrl, to } => {
                    out.push(Event::Quadratic { from: to.clone(), ctrl: *ctrl, to: from.clone() });
                    end_at = from.clone();
                }
                Event::Cubic { from, ctrl1, ctrl2, to } => {
                    out.push(Event::Cubic {
                        from: to.clone(),
                        ctrl1: *ctrl2,
                        ctrl2: *ctrl1,
                        to: from.clone(),
                    });
                    end_at = from.clone();
                }
                _ => unreachable!(),
            }
        }
        out.push(Event::End { last: end_at, first: last, close });
    }
    out
}

pub struct Obs {
    pub ids: Vec<u32>,
    pub iter: Option<Vec<PathEvent>>,
    pub id_iter: Option<Vec<IdEvent>>,
    pub iter_attr: Option<Vec<AEvent>>,
    pub resolved: Option<Vec<AEvent>>,
    pub reversed: Option<Vec<AEvent>>,
    pub first: Option<Option<Ep>>,
    pub last: Option<Option<Ep>>,
}

pub fn build_path(n: usize, ops: &[Op], ids: &mut Vec<u32>) -> Path {
    let mut b = Path::builder_with_attributes(n);
    for o in ops {
        match o {
            Op::Begin(p, a) => ids.push(b.begin(*p, a).0),
            Op::Line(p, a) => ids.push(b.line_to(*p, a).0),
            Op::Quad(c, p, a) => ids.push(b.quadratic_bezier_to(*c, *p, a).0),
            Op::Cubic(c1, c2, p, a) => ids.push(b.cubic_bezier_to(*c1, *c2, *p, a).0),
            Op::End(c) => {
                b.end(*c);
                ids.push(0)
            }
        }
    }
    b.build()
}

fn build_path_noattr(ops: &[Op]) -> Path {
    let mut b = Path::builder();
    for o in ops {
        match o {
            Op::Begin(p, _) => {
                b.begin(*p);
            }
            Op::Line(p, _) => {
                b.line_to(*p);
            }
            Op::Quad(c, p, _) => {
                b.quadratic_bezier_to(*c, *p);
            }
            Op::Cubic(c1, c2, p, _) => {
                b.cubic_bezier_to(*c1, *c2, *p);
            }
            Op::End(c) => b.end(*c),
        }
    }
    b.build()
}

fn resolve(path: &Path, e: &IdEvent) -> AEvent {
    let ep = |id: EndpointId| (path[id], path.attributes(id).to_vec());
    let cp = |id: ControlPointId| path[id];
    match *e {
        Event::Begin { at } => Event::Begin { at: ep(at) },
        Event::Line { from, to } => Event::Line { from: ep(from), to: ep(to) },
        Event::Quadratic { from, ctrl, to } => {
            Event::Quadratic { from: ep(from), ctrl: cp(ctrl), to: ep(to) }
        }
        Event::Cubic { from, ctrl1, ctrl2, to } => {
            Event::Cubic { from: ep(from), ctrl1: cp(ctrl1), ctrl2: cp(ctrl2), to: ep(to) }
        }
        Event::End { last, first, close } => Event::End { last: ep(last), first: ep(first), close },
    }
}

pub fn observe(path: &Path, ids: Vec<u32>) -> Obs {
    let p = AssertUnwindSafe(path);
    Obs {
        ids,
        iter: catch(|| p.iter().collect()),
        id_iter: catch(|| p.id_iter().collect()),
        iter_attr: catch(|| p.iter_with_attributes().map(own).collect()),
        resolved: catch(|| p.id_iter().map(|e| resolve(&p, &e)).collect()),
        reversed: catch(|| p.reversed().with_attributes().map(own).collect()),
        first: catch(|| p.first_endpoint().map(|(q, a)| (q, a.to_vec()))),
        last: catch(|| p.last_endpoint().map(|(q, a)| (q, a.to_vec()))),
    }
}

fn gobs(o: &Obs) -> String {
    let fid = |i: &EndpointId| gz(i.0 as i64);
    let fcid = |i: &ControlPointId| gz(i.0 as i64);
    let fp = |p: &Point| gp(*p);
    format!(
        "(mkObs {} {} {} {} {} {} {} {})",
        glist(o.ids.iter().map(|i| gz(*i as i64))),
        gevents(&o.iter, &fp, &fp),
        gevents(&o.id_iter, &fid, &fcid),
        gevents(&o.iter_attr, &gep, &fp),
        gevents(&o.resolved, &gep, &fp),
        gevents(&o.reversed, &gep, &fp),
        gopt(o.first.as_ref().map(|x| gopt(x.as_ref().map(gep)))),
        gopt(o.last.as_ref().map(|x| gopt(x.as_ref().map(gep)))),
    )
}

fn strip(e: &AEvent) -> PathEvent {
    match e {
        Event::Begin { at } => Event::Begin { at: at.0 },
        Event::Line { from, to } => Event::Line { from: from.0, to: to.0 },
        Event::Quadratic { from, ctrl, to } => Event::Quadratic { from: from.0, ctrl: *ctrl, to: to.0 },
        Event::Cubic { from, ctrl1, ctrl2, to } => {
            Event::Cubic { from: from.0, ctrl1: *ctrl1, ctrl2: *ctrl2, to: to.0 }
        }
        Event::End { last, first, close } => Event::End { last: last.0, first: first.0, close: *close },
    }
}

/// Direct evaluation of the property on the implementation's answers.
pub fn direct_check(n: usize, ops: &[Op], path: &Path, o: &Obs) -> Vec<String> {
    let mut bad = Vec::new();
    let spec = spec_events(ops);
    let spec_pos: Vec<PathEvent> = spec.iter().map(strip).collect();
    if o.iter.as_ref() != Some(&spec_pos) {
        bad.push("iter differs from the program's events".to_string());
    }
    if o.iter_attr.as_ref() != Some(&spec) {
        bad.push("iter_with_attributes differs from the program's events".to_string());
    }
    if o.resolved.as_ref() != Some(&spec) {
        bad.push("id_iter resolved through the stores differs from the program's events".to_string());
    }
    if o.reversed.as_ref() != Some(&spec_reversed(ops)) {
        bad.push("reversed differs from the reversed program".to_string());
    }
    // ids returned by the builder name the endpoint just added
    let mut k = 0;
    for (op, id) in ops.iter().zip(o.ids.iter()) {
        let want = match op {
            Op::Begin(p, a) | Op::Line(p, a) | Op::Quad(_, p, a) | Op::Cubic(_, _, p, a) => {
                Some((*p, a.clone()))
            }
            Op::End(_) => None,
        };
        if let Some(w) = want {
            let got = catch(AssertUnwindSafe(|| {
                (path[EndpointId(*id)], path.attributes(EndpointId(*id)).to_vec())
            }));
            if got.as_ref() != Some(&w) {
                bad.push(format!("builder call {} returned id {} which does not resolve to its endpoint", k, id));
            }
        }
        k += 1;
    }
    // the slice view gives the same answers
    let sl = path.as_slice();
    let s_iter: Option<Vec<PathEvent>> = catch(AssertUnwindSafe(|| sl.iter().collect()));
    if s_iter != o.iter {
        bad.push("PathSlice::iter differs from Path::iter".to_string());
    }
    let s_ids: Option<Vec<IdEvent>> = catch(AssertUnwindSafe(|| sl.id_iter().collect()));
    if s_ids != o.id_iter {
        bad.push("PathSlice::id_iter differs from Path::id_iter".to_string());
    }
    let s_attr: Option<Vec<AEvent>> =
        catch(AssertUnwindSafe(|| sl.iter_with_attributes().map(own).collect()));
    if s_attr != o.iter_attr {
        bad.push("PathSlice::iter_with_attributes differs".to_string());
    }
    // first / last endpoint
    let want_first = spec.first().map(|e| match e {
        Event::Begin { at } => at.clone(),
        _ => unreachable!(),
    });
    if o.first != Some(want_first) {
        bad.push("first_endpoint is not the first Begin".to_string());
    }
    // reversing twice gives the original
    let twice: Option<Vec<AEvent>> = catch(AssertUnwindSafe(|| {
        let r = path.reversed().with_attributes().into_path();
        let rr = r.reversed().with_attributes().into_path();
        rr.iter_with_attributes().map(own).collect()
    }));
    if twice.as_ref() != Some(&spec) {
        bad.push("reversing twice does not give the original".to_string());
    }
    // n = 0: the attribute-less builder stores the same path
    if n == 0 {
        let q = catch(AssertUnwindSafe(|| {
            let q = build_path_noattr(ops);
            q.iter_with_attributes().map(own).collect::<Vec<_>>()
        }));
        if q.as_ref() != Some(&spec) {
            bad.push("Path::builder() result differs".to_string());
        }
    }
    bad
}

// ------------------------------------------------------------------ generators

#[derive(Clone, Copy, PartialEq, Debug)]
enum K {
    Begin,
    Line,
    Quad,
    Cubic,
    End,
    Close,
}

/// all well-nested kind sequences with exactly `len` ops
fn enum_kinds(len: usize, out: &mut Vec<Vec<K>>) {
    fn go(len: usize, cur: &mut Vec<K>, open: bool, out: &mut Vec<Vec<K>>) {
        if cur.len() == len {
            if !open {
                out.push(cur.clone());
            }
            return;
        }
        if open {
            for k in [K::Line, K::Quad, K::Cubic, K::End, K::Close] {
                cur.push(k);
                go(len, cur, !(k == K::End || k == K::Close), out);
                cur.pop();
            }
        } else {
            cur.push(K::Begin);
            go(len, cur, true, out);
            cur.pop();
        }
    }
    go(len, &mut Vec::new(), false, out);
}

/// assign operands: distinct coordinates (so that any mix-up is visible) or, with
/// `rng`, small random ones with repeats
fn instantiate(kinds: &[K], n: usize, rng: Option<&mut Rng>) -> Vec<Op> {
    let mut ctr = 0i64;
    let mut r = rng;
    let mut pt = |r: &mut Option<&mut Rng>| -> Point {
        match r {
            Some(g) => point(g.range(-3, 3) as f32, g.range(-3, 3) as f32),
            None => {
                ctr += 1;
                point((ctr * 10 + 1) as f32, (ctr * 10 + 2) as f32)
            }
        }
    };
    let mut actr = 0i64;
    let mut ops = Vec::new();
    for k in kinds {
        let mut attrs = |r: &mut Option<&mut Rng>| -> Vec<f32> {
            actr += 1;
            (0..n)
                .map(|i| match r {
                    Some(g) => g.range(-5, 5) as f32,
                    None => (1000 * actr + i as i64) as f32,
                })
                .collect()
        };
        match k {
            K::Begin => {
                let p = pt(&mut r);
                ops.push(Op::Begin(p, attrs(&mut r)))
            }
            K::Line => {
                let p = pt(&mut r);
                ops.push(Op::Line(p, attrs(&mut r)))
            }
            K::Quad => {
                let c = pt(&mut r);
                let p = pt(&mut r);
                ops.push(Op::Quad(c, p, attrs(&mut r)))
            }
            K::Cubic => {
                let c1 = pt(&mut r);
                let c2 = pt(&mut r);
                let p = pt(&mut r);
                ops.push(Op::Cubic(c1, c2, p, attrs(&mut r)))
            }
            K::End => ops.push(Op::End(false)),
            K::Close => ops.push(Op::End(true)),
        }
    }
    ops
}

fn random_kinds(rng: &mut Rng, max_ops: usize) -> Vec<K> {
    let target = 1 + rng.below(max_ops as u64) as usize;
    let mut v = Vec::new();
    while v.len() < target {
        v.push(K::Begin);
        // sub-path length distribution: many short (0..2 edges), some long
        let edges = if rng.chance(1, 4) { rng.below(12) } else { rng.below(3) };
        for _ in 0..edges {
            v.push(*rng.pick(&[K::Line, K::Line, K::Quad, K::Cubic]));
        }
        v.push(if rng.chance(1, 2) { K::Close } else { K::End });
    }
    v
}

pub fn ops_text(n: usize, ops: &[Op]) -> String {
    format!("n={} {}", n, ops.iter().map(gop).collect::<Vec<_>>().join("; "))
}

pub const HEADER: &str = "From LV Require Import Base.Prelude Model.PathStore Run.C14.\nOpen Scope Z_scope.";

pub fn run_one(id: usize, n: usize, ops: &[Op], w: &mut ShardWriter, st: &mut Stats, origin: &str) {
    let mut ids = Vec::new();
    let built = catch(AssertUnwindSafe(|| build_path(n, ops, &mut ids)));
    st.inc("evaluations");
    st.inc(&format!("origin_{}", origin));
    st.inc(&format!("nattr_{}", n));
    let nontrivial = ops.len() >= 3;
    st.note_case(&ops_text(n, ops), nontrivial);
    let path = match built {
        Some(p) => p,
        None => {
            st.fail(jobj(&[
                ("case", format!("{}", id)),
                ("program", jstr(&ops_text(n, ops))),
                ("what", jstr("builder panicked on a well-nested program")),
            ]));
            return;
        }
    };
    let obs = observe(&path, ids);
    let bad = direct_check(n, ops, &path, &obs);
    for b in &bad {
        st.fail(jobj(&[
            ("case", format!("{}", id)),
            ("program", jstr(&ops_text(n, ops))),
            ("what", jstr(b)),
        ]));
    }
    st.sample(ops_text(n, ops));
    w.push(format!(
        "(mkCase {} {} {} {})",
        id,
        n,
        glist(ops.iter().map(gop)),
        gobs(&obs)
    ));
}

pub fn main(args: &Args) -> std::io::Result<()> {
    let mut st = Stats::default();
    let mut w = ShardWriter::new(&args.out, "c14_cases", args.shards, HEADER, "bad_cases");
    w.disabled = args.direct_only();
    let mut index = std::fs::File::create(args.out.join("c14_index.txt"))?;
    use std::io::Write;
    let mut id = 0usize;
    let max_len = if args.thorough() { 8 } else { 6 };
    // 1. bounded-exhaustive well-nested programs x attribute counts 0..3
    let mut all = Vec::new();
    for len in 0..=max_len {
        enum_kinds(len, &mut all);
    }
    for kinds in &all {
        for n in 0..4usize {
            let ops = instantiate(kinds, n, None);
            writeln!(index, "{}\t{}", id, ops_text(n, &ops))?;
            run_one(id, n, &ops, &mut w, &mut st, "exhaustive");
            id += 1;
        }
    }
    st.add("exhaustive_max_ops", max_len as u64);
    // 2. random longer programs, distinct and repeated coordinates
    let mut rng = Rng::new(args.seed);
    let n_random = if args.thorough() { 6000 } else { 600 };
    for i in 0..n_random {
        let max_ops = if i % 10 == 0 { 200 } else { 30 };
        let kinds = random_kinds(&mut rng, max_ops);
        let n = rng.below(6) as usize;
        let ops = if rng.chance(1, 2) {
            instantiate(&kinds, n, None)
        } else {
            let mut r2 = Rng::new(rng.next_u64());
            instantiate(&kinds, n, Some(&mut r2))
        };
        writeln!(index, "{}\t{}", id, ops_text(n, &ops))?;
        run_one(id, n, &ops, &mut w, &mut st, "random");
        id += 1;
    }
    w.finish()?;
    st.write(&args.out.join("c14_stats.json"))
}
