//! C14: every view of a stored path tells the same story.
//! Runs builder programs against lyon_path, prints program + every observation
//! as Gallina literals for the Coq model, and evaluates the property directly
//! (independent Rust oracle computed from the program itself).
use crate::util::*;
use lyon_path::math::{point, Point};
use lyon_path::{Attributes, ControlPointId, EndpointId, Event, IdEvent, Path, PathEvent};
use std::panic::AssertUnwindSafe;

#[derive(Clone, Debug, PartialEq)]
pub enum Op {
    Begin(Point, Vec<f32>),
    Line(Point, Vec<f32>),
    Quad(Point, Point, Vec<f32>),
    Cubic(Point, Point, Point, Vec<f32>),
    End(bool),
}

pub type Ep = (Point, Vec<f32>);
pub type AEvent = Event<Ep, Point>;

fn gp(p: Point) -> String {
    format!("({}, {})", gzf(p.x), gzf(p.y))
}
fn gattrs(a: &[f32]) -> String {
    glist(a.iter().map(|v| gzf(*v)))
}
fn gep(e: &Ep) -> String {
    format!("({}, {})", gp(e.0), gattrs(&e.1))
}

pub fn gop(o: &Op) -> String {
    match o {
        Op::Begin(p, a) => format!("OBegin {} {}", gp(*p), gattrs(a)),
        Op::Line(p, a) => format!("OLine {} {}", gp(*p), gattrs(a)),
        Op::Quad(c, p, a) => format!("OQuad {} {} {}", gp(*c), gp(*p), gattrs(a)),
        Op::Cubic(c1, c2, p, a) => {
            format!("OCubic {} {} {} {}", gp(*c1), gp(*c2), gp(*p), gattrs(a))
        }
        Op::End(c) => format!("OEnd {}", gbool(*c)),
    }
}

pub fn gevent<E, C>(e: &Event<E, C>, fe: &dyn Fn(&E) -> String, fc: &dyn Fn(&C) -> String) -> String {
    match e {
        Event::Begin { at } => format!("EvBegin {}", fe(at)),
        Event::Line { from, to } => format!("EvLine {} {}", fe(from), fe(to)),
        Event::Quadratic { from, ctrl, to } => {
            format!("EvQuad {} {} {}", fe(from), fc(ctrl), fe(to))
        }
        Event::Cubic { from, ctrl1, ctrl2, to } => {
            format!("EvCubic {} {} {} {}", fe(from), fc(ctrl1), fc(ctrl2), fe(to))
        }
        Event::End { last, first, close } => {
            format!("EvEnd {} {} {}", fe(last), fe(first), gbool(*close))
        }
    }
}

fn gevents<E, C>(
    l: &Option<Vec<Event<E, C>>>,
    fe: &dyn Fn(&E) -> String,
    fc: &dyn Fn(&C) -> String,
) -> String {
    gopt(l.as_ref().map(|v| glist(v.iter().map(|e| gevent(e, fe, fc)))))
}

fn own(e: Event<(Point, Attributes), Point>) -> AEvent {
    let f = |x: (Point, Attributes)| (x.0, x.1.to_vec());
    match e {
        Event::Begin { at } => Event::Begin { at: f(at) },
        Event::Line { from, to } => Event::Line { from: f(from), to: f(to) },
        Event::Quadratic { from, ctrl, to } => Event::Quadratic { from: f(from), ctrl, to: f(to) },
        Event::Cubic { from, ctrl1, ctrl2, to } => {
            Event::Cubic { from: f(from), ctrl1, ctrl2, to: f(to) }
        }
        Event::End { last, first, close } => Event::End { last: f(last), first: f(first), close },
    }
}

/// The specification, computed from the program alone.
pub fn spec_events(ops: &[Op]) -> Vec<AEvent> {
    let mut out = Vec::new();
    let mut first: Ep = (point(0.0, 0.0), vec![]);
    let mut cur: Ep = first.clone();
    for o in ops {
        match o {
            Op::Begin(p, a) => {
                first = (*p, a.clone());
                cur = first.clone();
                out.push(Event::Begin { at: first.clone() });
            }
            Op::Line(p, a) => {
                let to = (*p, a.clone());
                out.push(Event::Line { from: cur.clone(), to: to.clone() });
                cur = to;
            }
            Op::Quad(c, p, a) => {
                let to = (*p, a.clone());
                out.push(Event::Quadratic { from: cur.clone(), ctrl: *c, to: to.clone() });
                cur = to;
            }
            Op::Cubic(c1, c2, p, a) => {
                let to = (*p, a.clone());
                out.push(Event::Cubic { from: cur.clone(), ctrl1: *c1, ctrl2: *c2, to: to.clone() });
                cur = to;
            }
            Op::End(close) => {
                out.push(Event::End { last: cur.clone(), first: first.clone(), close: *close });
            }
        }
    }
    out
}

/// Reversed program semantics (sub-paths in reverse order, each traversed backwards).
pub fn spec_reversed(ops: &[Op]) -> Vec<AEvent> {
    let evs = spec_events(ops);
    // split into sub-paths
    let mut subs: Vec<Vec<AEvent>> = Vec::new();
    for e in evs {
        if let Event::Begin { .. } = e {
            subs.push(Vec::new());
        }
        subs.last_mut().unwrap().push(e);
    }
    let mut out = Vec::new();
    for s in subs.iter().rev() {
        let (last, close) = match s.last().unwrap() {
            Event::End { last, close, .. } => (last.clone(), *close),
            _ => unreachable!(),
        };
        out.push(Event::Begin { at: last.clone() });
        let mut end_at = last.clone();
        for e in s[1..s.len() - 1].iter().rev() {
            match e {
                Event::Line { from, to } => {
                    out.push(Event::Line { from: to.clone(), to: from.clone() });
                    end_at = from.clone();
                }
                Event::Quadratic { from, ctrl, to } => {
                    out.push(Event::Quadratic { from: to.clone(), ctrl: *ctrl, to: from.clone() });
                    end_at = from.clone();
                }
                Event::Cubic { from, ctrl1, ctrl2, to } => {
                    out.push(Event::Cubic {
                        from: to.clone(),
                        ctrl1: *ctrl2,
                        ctrl2: *ctrl1,
                        to: from.clone(),
                    });
                    end_at = from.clone();
                }
                _ => unreachable!(),
            }
        }
        out.push(Event::End { last: end_at, first: last, close });
    }
    out
}

pub struct Obs {
    pub ids: Vec<u32>,
    pub iter: Option<Vec<PathEvent>>,
    pub id_iter: Option<Vec<IdEvent>>,
    pub iter_attr: Option<Vec<AEvent>>,
    pub resolved: Option<Vec<AEvent>>,
    pub reversed: Option<Vec<AEvent>>,
    pub first: Option<Option<Ep>>,
    pub last: Option<Option<Ep>>,
}

pub fn build_path(n: usize, ops: &[Op], ids: &mut Vec<u32>) -> Path {
    let mut b = Path::builder_with_attributes(n);
    for o in ops {
        match o {
            Op::Begin(p, a) => ids.push(b.begin(*p, a).0),
            Op::Line(p, a) => ids.push(b.line_to(*p, a).0),
            Op::Quad(c, p, a) => ids.push(b.quadratic_bezier_to(*c, *p, a).0),
            Op::Cubic(c1, c2, p, a) => ids.push(b.cubic_bezier_to(*c1, *c2, *p, a).0),
            Op::End(c) => {
                b.end(*c);
                ids.push(0)
            }
        }
    }
    b.build()
}

fn build_path_noattr(ops: &[Op]) -> Path {
    let mut b = Path::builder();
    for o in ops {
        match o {
            Op::Begin(p, _) => {
                b.begin(*p);
            }
            Op::Line(p, _) => {
                b.line_to(*p);
            }
            Op::Quad(c, p, _) => {
                b.quadratic_bezier_to(*c, *p);
            }
            Op::Cubic(c1, c2, p, _) => {
                b.cubic_bezier_to(*c1, *c2, *p);
            }
            Op::End(c) => b.end(*c),
        }
    }
    b.build()
}

fn resolve(path: &Path, e: &IdEvent) -> AEvent {
    let ep = |id: EndpointId| (path[id], path.attributes(id).to_vec());
    let cp = |id: ControlPointId| path[id];
    match *e {
        Event::Begin { at } => Event::Begin { at: ep(at) },
        Event::Line { from, to } => Event::Line { from: ep(from), to: ep(to) },
        Event::Quadratic { from, ctrl, to } => {
            Event::Quadratic { from: ep(from), ctrl: cp(ctrl), to: ep(to) }
        }
        Event::Cubic { from, ctrl1, ctrl2, to } => {
            Event::Cubic { from: ep(from), ctrl1: cp(ctrl1), ctrl2: cp(ctrl2), to: ep(to) }
        }
        Event::End { last, first, close } => Event::End { last: ep(last), first: ep(first), close },
    }
}

pub fn observe(path: &Path, ids: Vec<u32>) -> Obs {
    let p = AssertUnwindSafe(path);
    Obs {
        ids,
        iter: catch(|| p.iter().collect()),
        id_iter: catch(|| p.id_iter().collect()),
        iter_attr: catch(|| p.iter_with_attributes().map(own).collect()),
        resolved: catch(|| p.id_iter().map(|e| resolve(&p, &e)).collect()),
        reversed: catch(|| p.reversed().with_attributes().map(own).collect()),
        first: catch(|| p.first_endpoint().map(|(q, a)| (q, a.to_vec()))),
        last: catch(|| p.last_endpoint().map(|(q, a)| (q, a.to_vec()))),
    }
}

fn gobs(o: &Obs) -> String {
    let fid = |i: &EndpointId| gz(i.0 as i64);
    let fcid = |i: &ControlPointId| gz(i.0 as i64);
    let fp = |p: &Point| gp(*p);
    format!(
        "(mkObs {} {} {} {} {} {} {} {})",
        glist(o.ids.iter().map(|i| gz(*i as i64))),
        gevents(&o.iter, &fp, &fp),
        gevents(&o.id_iter, &fid, &fcid),
        gevents(&o.iter_attr, &gep, &fp),
        gevents(&o.resolved, &gep, &fp),
        gevents(&o.reversed, &gep, &fp),
        gopt(o.first.as_ref().map(|x| gopt(x.as_ref().map(gep)))),
        gopt(o.last.as_ref().map(|x| gopt(x.as_ref().map(gep)))),
    )
}

fn strip(e: &AEvent) -> PathEvent {
    match e {
        Event::Begin { at } => Event::Begin { at: at.0 },
        Event::Line { from, to } => Event::Line { from: from.0, to: to.0 },
        Event::Quadratic { from, ctrl, to } => Event::Quadratic { from: from.0, ctrl: *ctrl, to: to.0 },
        Event::Cubic { from, ctrl1, ctrl2, to } => {
            Event::Cubic { from: from.0, ctrl1: *ctrl1, ctrl2: *ctrl2, to: to.0 }
        }
        Event::End { last, first, close } => Event::End { last: last.0, first: first.0, close: *close },
    }
}

/// Direct evaluation of the property on the implementation's answers.
pub fn direct_check(n: usize, ops: &[Op], path: &Path, o: &Obs) -> Vec<String> {
    let mut bad = Vec::new();
    let spec = spec_events(ops);
    let spec_pos: Vec<PathEvent> = spec.iter().map(strip).collect();
    if o.iter.as_ref() != Some(&spec_pos) {
        bad.push("iter differs from the program's events".to_string());
    }
    if o.iter_attr.as_ref() != Some(&spec) {
        bad.push("iter_with_attributes differs from the program's events".to_string());
    }
    if o.resolved.as_ref() != Some(&spec) {
        bad.push("id_iter resolved through the stores differs from the program's events".to_string());
    }
    if o.reversed.as_ref() != Some(&spec_reversed(ops)) {
        bad.push("reversed differs from the reversed program".to_string());
    }
    // ids returned by the builder name the endpoint just added
    let mut k = 0;
    for (op, id) in ops.iter().zip(o.ids.iter()) {
        let want = match op {
            Op::Begin(p, a) | Op::Line(p, a) | Op::Quad(_, p, a) | Op::Cubic(_, _, p, a) => {
                Some((*p, a.clone()))
            }
            Op::End(_) => None,
        };
        if let Some(w) = want {
            let got = catch(AssertUnwindSafe(|| {
                (path[EndpointId(*id)], path.attributes(EndpointId(*id)).to_vec())
            }));
            if got.as_ref() != Some(&w) {
                bad.push(format!("builder call {} returned id {} which does not resolve to its endpoint", k, id));
            }
        }
        k += 1;
    }
    // the slice view gives the same answers
    let sl = path.as_slice();
    let s_iter: Option<Vec<PathEvent>> = catch(AssertUnwindSafe(|| sl.iter().collect()));
    if s_iter != o.iter {
        bad.push("PathSlice::iter differs from Path::iter".to_string());
    }
    let s_ids: Option<Vec<IdEvent>> = catch(AssertUnwindSafe(|| sl.id_iter().collect()));
    if s_ids != o.id_iter {
        bad.push("PathSlice::id_iter differs from Path::id_iter".to_string());
    }
    let s_attr: Option<Vec<AEvent>> =
        catch(AssertUnwindSafe(|| sl.iter_with_attributes().map(own).collect()));
    if s_attr != o.iter_attr {
        bad.push("PathSlice::iter_with_attributes differs".to_string());
    }
    // first / last endpoint
    let want_first = spec.first().map(|e| match e {
        Event::Begin { at } => at.clone(),
        _ => unreachable!(),
    });
    if o.first != Some(want_first) {
        bad.push("first_endpoint is not the first Begin".to_string());
    }
    // reversing twice gives the original
    let twice: Option<Vec<AEvent>> = catch(AssertUnwindSafe(|| {
        let r = path.reversed().with_attributes().into_path();
        let rr = r.reversed().with_attributes().into_path();
        rr.iter_with_attributes().map(own).collect()
    }));
    if twice.as_ref() != Some(&spec) {
        bad.push("reversing twice does not give the original".to_string());
    }
    // ---- concatenation: a builder extended with [this path, a second one, this path again] yields the events one
    // after the other (with the attributes), through the plain builder (n = 0) and the attribute builder
    {
        let got: Option<Vec<AEvent>> = catch(AssertUnwindSafe(|| {
            let other = {
                let mut b = Path::builder_with_attributes(n);
                let a: Vec<f32> = (0..n).map(|k| 70.0 + k as f32).collect();
                b.begin(point(50.0, 51.0), &a);
                b.quadratic_bezier_to(point(52.0, 53.0), point(54.0, 55.0), &a);
                b.end(false);
                b.build()
            };
            let mut b = Path::builder_with_attributes(n);
            b.extend_from_paths(&[path.as_slice(), other.as_slice(), path.as_slice()]);
            let joined = b.build();
            joined.iter_with_attributes().map(own).collect()
        }));
        let a: Vec<f32> = (0..n).map(|k| 70.0 + k as f32).collect();
        let other_events: Vec<AEvent> = vec![
            Event::Begin { at: (point(50.0, 51.0), a.clone()) },
            Event::Quadratic { from: (point(50.0, 51.0), a.clone()), ctrl: point(52.0, 53.0), to: (point(54.0, 55.0), a.clone()) },
            Event::End { last: (point(54.0, 55.0), a.clone()), first: (point(50.0, 51.0), a.clone()), close: false },
        ];
        let mut want = spec.clone();
        want.extend(other_events);
        want.extend(spec.clone());
        if got.as_ref() != Some(&want) {
            bad.push("extend_from_paths: the concatenation does not yield the paths' events one after the other".to_string());
        }
        if n == 0 {
            let got0: Option<Vec<PathEvent>> = catch(AssertUnwindSafe(|| {
                let mut b = Path::builder();
                b.extend_from_paths(&[path.as_slice(), path.as_slice()]);
                b.build().iter().collect()
            }));
            let mut want0 = spec_pos.clone();
            want0.extend(spec_pos.clone());
            if got0.as_ref() != Some(&want0) {
                bad.push("extend_from_paths on the plain builder does not yield the paths' events one after the other".to_string());
            }
        }
    }
    // ---- an entry of a path buffer holding several paths
    {
        let got: Option<(Vec<AEvent>, Vec<AEvent>)> = catch(AssertUnwindSafe(|| {
            let mut buf = lyon_path::PathBuffer::new();
            // a filler path first, so that offsets are not zero
            {
                let mut b = buf.builder();
                b.begin(point(100.0, 100.0));
                b.line_to(point(101.0, 100.0));
                b.quadratic_bezier_to(point(102.0, 103.0), point(104.0, 105.0));
                b.end(true);
                b.build();
            }
            let idx = {
                let mut b = buf.builder().with_attributes(n);
                for o in ops {
                    match o {
                        Op::Begin(p, a) => {
                            b.begin(*p, a);
                        }
                        Op::Line(p, a) => {
                            b.line_to(*p, a);
                        }
                        Op::Quad(c, p, a) => {
                            b.quadratic_bezier_to(*c, *p, a);
                        }
                        Op::Cubic(c1, c2, p, a) => {
                            b.cubic_bezier_to(*c1, *c2, *p, a);
                        }
                        Op::End(c) => b.end(*c),
                    }
                }
                b.build()
            };
            // and one after it
            {
                let mut b = buf.builder();
                b.begin(point(-7.0, -7.0));
                b.end(false);
                b.build();
            }
            let sl = buf.get(idx);
            let with_attr: Vec<AEvent> = sl.iter_with_attributes().map(own).collect();
            let resolved: Vec<AEvent> = sl
                .id_iter()
                .map(|e| {
                    let ep = |id: EndpointId| (sl[id], sl.attributes(id).to_vec());
                    match e {
                        IdEvent::Begin { at } => Event::Begin { at: ep(at) },
                        IdEvent::Line { from, to } => Event::Line { from: ep(from), to: ep(to) },
                        IdEvent::Quadratic { from, ctrl, to } => Event::Quadratic { from: ep(from), ctrl: sl[ctrl], to: ep(to) },
                        IdEvent::Cubic { from, ctrl1, ctrl2, to } => Event::Cubic { from: ep(from), ctrl1: sl[ctrl1], ctrl2: sl[ctrl2], to: ep(to) },
                        IdEvent::End { last, first, close } => Event::End { last: ep(last), first: ep(first), close },
                    }
                })
                .collect();
            (with_attr, resolved)
        }));
        match got {
            None => bad.push("reading the path back from a PathBuffer panicked".to_string()),
            Some((a, r)) => {
                if a != spec {
                    bad.push("PathBuffer entry: iter_with_attributes differs from the program's events".to_string());
                }
                if r != spec {
                    bad.push("PathBuffer entry: id_iter resolved through the slice differs from the program's events".to_string());
                }
            }
        }
    }
    // ---- a command buffer with external storage
    {
        let got: Option<(Vec<PathEvent>, Vec<PathEvent>, bool)> = catch(AssertUnwindSafe(|| {
            let mut endpoints: Vec<Point> = Vec::new();
            let mut ctrls: Vec<Point> = Vec::new();
            let mut b = lyon_path::commands::PathCommands::builder();
            let mut ep = |p: Point, v: &mut Vec<Point>| -> u32 {
                v.push(p);
                v.len() as u32 - 1
            };
            for o in ops {
                match o {
                    Op::Begin(p, _) => {
                        let i = ep(*p, &mut endpoints);
                        b.begin(EndpointId(i));
                    }
                    Op::Line(p, _) => {
                        let i = ep(*p, &mut endpoints);
                        b.line_to(EndpointId(i));
                    }
                    Op::Quad(c, p, _) => {
                        let ci = ep(*c, &mut ctrls);
                        let i = ep(*p, &mut endpoints);
                        b.quadratic_bezier_to(ControlPointId(ci), EndpointId(i));
                    }
                    Op::Cubic(c1, c2, p, _) => {
                        let c1i = ep(*c1, &mut ctrls);
                        let c2i = ep(*c2, &mut ctrls);
                        let i = ep(*p, &mut endpoints);
                        b.cubic_bezier_to(ControlPointId(c1i), ControlPointId(c2i), EndpointId(i));
                    }
                    Op::End(c) => {
                        b.end(*c);
                    }
                }
            }
            let cmds = b.build();
            let via_events: Vec<PathEvent> = cmds
                .events(&endpoints, &ctrls)
                .map(|e| match e {
                    Event::Begin { at } => Event::Begin { at: *at },
                    Event::Line { from, to } => Event::Line { from: *from, to: *to },
                    Event::Quadratic { from, ctrl, to } => Event::Quadratic { from: *from, ctrl: *ctrl, to: *to },
                    Event::Cubic { from, ctrl1, ctrl2, to } => Event::Cubic { from: *from, ctrl1: *ctrl1, ctrl2: *ctrl2, to: *to },
                    Event::End { last, first, close } => Event::End { last: *last, first: *first, close },
                })
                .collect();
            let res = |e: IdEvent| -> PathEvent {
                match e {
                    IdEvent::Begin { at } => Event::Begin { at: endpoints[at.to_usize()] },
                    IdEvent::Line { from, to } => Event::Line { from: endpoints[from.to_usize()], to: endpoints[to.to_usize()] },
                    IdEvent::Quadratic { from, ctrl, to } => Event::Quadratic { from: endpoints[from.to_usize()], ctrl: ctrls[ctrl.to_usize()], to: endpoints[to.to_usize()] },
                    IdEvent::Cubic { from, ctrl1, ctrl2, to } => Event::Cubic { from: endpoints[from.to_usize()], ctrl1: ctrls[ctrl1.to_usize()], ctrl2: ctrls[ctrl2.to_usize()], to: endpoints[to.to_usize()] },
                    IdEvent::End { last, first, close } => Event::End { last: endpoints[last.to_usize()], first: endpoints[first.to_usize()], close },
                }
            };
            let via_ids: Vec<PathEvent> = cmds.iter().map(res).collect();
            // random access by event id agrees with iteration
            let mut random_access_ok = true;
            let mut id = if via_ids.is_empty() { None } else { Some(lyon_path::EventId(0)) };
            let mut k = 0;
            while let Some(i) = id {
                if k >= via_ids.len() || res(cmds.event(i)) != via_ids[k] {
                    random_access_ok = false;
                    break;
                }
                k += 1;
                id = cmds.next_event_id_in_path(i);
            }
            if k != via_ids.len() {
                random_access_ok = false;
            }
            // next_event_id_in_sub_path: the successor inside a sub-path, looping from End back to its Begin
            {
                let mut id = if via_ids.is_empty() { None } else { Some(lyon_path::EventId(0)) };
                let mut begin = lyon_path::EventId(0);
                while let Some(i) = id {
                    let next_in_path = cmds.next_event_id_in_path(i);
                    let next_in_sub = cmds.next_event_id_in_sub_path(i);
                    match cmds.event(i) {
                        IdEvent::Begin { .. } => {
                            begin = i;
                            if Some(next_in_sub) != next_in_path {
                                random_access_ok = false;
                            }
                        }
                        IdEvent::End { .. } => {
                            if next_in_sub != begin {
                                random_access_ok = false;
                            }
                        }
                        _ => {
                            if Some(next_in_sub) != next_in_path {
                                random_access_ok = false;
                            }
                        }
                    }
                    id = next_in_path;
                }
            }
            // the slice views: PathCommandsSlice and CommandsPathSlice (commands + the two external stores)
            {
                let sl = cmds.as_slice();
                let via_slice: Vec<PathEvent> = sl.iter().map(res).collect();
                if via_slice != via_ids {
                    random_access_ok = false;
                }
                let ps = cmds.path_slice(&endpoints, &ctrls);
                let via_ps: Vec<PathEvent> = ps.iter().map(res).collect();
                let via_ps_events: Vec<PathEvent> = ps
                    .events()
                    .map(|e| match e {
                        Event::Begin { at } => Event::Begin { at: *at },
                        Event::Line { from, to } => Event::Line { from: *from, to: *to },
                        Event::Quadratic { from, ctrl, to } => Event::Quadratic { from: *from, ctrl: *ctrl, to: *to },
                        Event::Cubic { from, ctrl1, ctrl2, to } => Event::Cubic { from: *from, ctrl1: *ctrl1, ctrl2: *ctrl2, to: *to },
                        Event::End { last, first, close } => Event::End { last: *last, first: *first, close },
                    })
                    .collect();
                if via_ps != via_ids || via_ps_events != via_events {
                    random_access_ok = false;
                }
                for (k, p) in endpoints.iter().enumerate() {
                    if ps[EndpointId(k as u32)] != *p {
                        random_access_ok = false;
                    }
                }
                for (k, p) in ctrls.iter().enumerate() {
                    if ps[ControlPointId(k as u32)] != *p {
                        random_access_ok = false;
                    }
                }
                let mut id = if via_ids.is_empty() { None } else { Some(lyon_path::EventId(0)) };
                while let Some(i) = id {
                    if sl.event(i) != cmds.event(i) || sl.next_event_id_in_path(i) != cmds.next_event_id_in_path(i) || sl.next_event_id_in_sub_path(i) != cmds.next_event_id_in_sub_path(i) {
                        random_access_ok = false;
                    }
                    id = cmds.next_event_id_in_path(i);
                }
            }
            (via_events, via_ids, random_access_ok)
        }));
        match got {
            None => bad.push("reading the path back from a command buffer panicked".to_string()),
            Some((ev, ids, ra)) => {
                if ev != spec_pos {
                    bad.push("PathCommands::events differs from the program's events".to_string());
                }
                if ids != spec_pos {
                    bad.push("PathCommands id events resolved through the external storage differ from the program's events".to_string());
                }
                if !ra {
                    bad.push("PathCommands random access by event id (event, next_event_id_in_path / _in_sub_path, slice views) disagrees with iteration".to_string());
                }
            }
        }
    }
    // ---- other ways of building the same path: replaying its events through PathBuilder::path_event,
    // extending a builder with them, and the shape helpers add_point / add_line_segment / add_polygon
    if n == 0 {
        use lyon_path::traits::PathBuilder as _;
        let got = catch(AssertUnwindSafe(|| {
            let mut b = Path::builder();
            for e in path.iter() {
                b.path_event(e);
            }
            let via_path_event: Vec<PathEvent> = b.build().iter().collect();
            // attribute-carrying replay: PathBuilder::event on a builder with attributes
            // sub-path by sub-path through the helpers, when the sub-path has the helper's shape
            let mut b = Path::builder();
            let mut it = ops.iter().peekable();
            let mut cur: Vec<&Op> = Vec::new();
            while let Some(o) = it.next() {
                cur.push(o);
                if let Op::End(close) = o {
                    let pts: Vec<Point> = cur.iter().filter_map(|o| match o { Op::Begin(p, _) | Op::Line(p, _) => Some(*p), _ => None }).collect();
                    let polygonal = cur.iter().all(|o| matches!(o, Op::Begin(..) | Op::Line(..) | Op::End(_)));
                    if polygonal && pts.len() == 1 && !*close {
                        b.add_point(pts[0]);
                    } else if polygonal && pts.len() == 2 && !*close {
                        b.add_line_segment(&lyon_path::geom::LineSegment { from: pts[0], to: pts[1] });
                    } else if polygonal {
                        b.add_polygon(lyon_path::Polygon { points: &pts, closed: *close });
                    } else {
                        for o in &cur {
                            match o {
                                Op::Begin(p, _) => { b.begin(*p); }
                                Op::Line(p, _) => { b.line_to(*p); }
                                Op::Quad(c, p, _) => { b.quadratic_bezier_to(*c, *p); }
                                Op::Cubic(c1, c2, p, _) => { b.cubic_bezier_to(*c1, *c2, *p); }
                                Op::End(c) => { b.end(*c); }
                            }
                        }
                    }
                    cur.clear();
                }
            }
            let via_extend: Vec<PathEvent> = b.build().iter().collect();
            (via_path_event, via_extend)
        }));
        match got {
            None => bad.push("replaying the path's events through path_event / extend panicked".to_string()),
            Some((a, b)) => {
                if a != spec_pos {
                    bad.push("a path rebuilt by PathBuilder::path_event from its own events differs".to_string());
                }
                if b != spec_pos {
                    bad.push("a path rebuilt sub-path by sub-path through add_point / add_line_segment / add_polygon differs".to_string());
                }
            }
        }
    }
    // ---- polygon views of a polygonal single sub-path (and of the empty program)
    let poly: Option<(Vec<Point>, bool)> = {
        let mut pts = Vec::new();
        let mut ok = true;
        let mut closed = false;
        let mut ends = 0;
        for o in ops {
            match o {
                Op::Begin(p, _) | Op::Line(p, _) => pts.push(*p),
                Op::End(c) => {
                    closed = *c;
                    ends += 1;
                }
                _ => ok = false,
            }
        }
        if ok && ends <= 1 { Some((pts, closed)) } else { None }
    };
    if let Some((pts, closed)) = poly {
        let got = catch(AssertUnwindSafe(|| {
            let pg = lyon_path::Polygon { points: &pts[..], closed };
            let via_path_events: Vec<PathEvent> = pg.path_events().collect();
            let via_iter: Vec<PathEvent> = pg
                .iter()
                .map(|e| match e {
                    Event::Begin { at } => Event::Begin { at: *at },
                    Event::Line { from, to } => Event::Line { from: *from, to: *to },
                    Event::End { last, first, close } => Event::End { last: *last, first: *first, close },
                    _ => unreachable!(),
                })
                .collect();
            let via_ids: Vec<PathEvent> = pg
                .id_iter()
                .map(|e| match e {
                    IdEvent::Begin { at } => Event::Begin { at: pg[at] },
                    IdEvent::Line { from, to } => Event::Line { from: pg[from], to: pg[to] },
                    IdEvent::End { last, first, close } => Event::End { last: pg[last], first: pg[first], close },
                    _ => unreachable!(),
                })
                .collect();
            (via_path_events, via_iter, via_ids)
        }));
        match got {
            None => bad.push("iterating a Polygon panicked".to_string()),
            Some((pe, it, ids)) => {
                if pe != spec_pos {
                    bad.push("Polygon::path_events differs from the program's events".to_string());
                }
                if it != spec_pos {
                    bad.push("Polygon::iter differs from the program's events".to_string());
                }
                if ids != spec_pos {
                    bad.push("Polygon::id_iter resolved through the polygon differs from the program's events".to_string());
                }
            }
        }
        // random access: event(i) is the i-th event of the iteration
        for (i, want) in spec_pos.iter().enumerate() {
            let got = catch(AssertUnwindSafe(|| {
                let pg = lyon_path::Polygon { points: &pts[..], closed };
                match pg.event(lyon_path::EventId(i as u32)) {
                    Event::Begin { at } => Event::Begin { at: *at },
                    Event::Line { from, to } => Event::Line { from: *from, to: *to },
                    Event::End { last, first, close } => Event::End { last: *last, first: *first, close },
                    _ => unreachable!(),
                }
            }));
            if got.as_ref() != Some(want) {
                bad.push("Polygon::event(id) disagrees with the id-th event of the iteration".to_string());
                break;
            }
        }
    }
    // n = 0: the attribute-less builder stores the same path
    if n == 0 {
        let q = catch(AssertUnwindSafe(|| {
            let q = build_path_noattr(ops);
            q.iter_with_attributes().map(own).collect::<Vec<_>>()
        }));
        if q.as_ref() != Some(&spec) {
            bad.push("Path::builder() result differs".to_string());
        }
    }
    bad
}

// ------------------------------------------------------------------ generators

#[derive(Clone, Copy, PartialEq, Debug)]
enum K {
    Begin,
    Line,
    Quad,
    Cubic,
    End,
    Close,
}

/// all well-nested kind sequences with exactly `len` ops
fn enum_kinds(len: usize, out: &mut Vec<Vec<K>>) {
    fn go(len: usize, cur: &mut Vec<K>, open: bool, out: &mut Vec<Vec<K>>) {
        if cur.len() == len {
            if !open {
                out.push(cur.clone());
            }
            return;
        }
        if open {
            for k in [K::Line, K::Quad, K::Cubic, K::End, K::Close] {
                cur.push(k);
                go(len, cur, !(k == K::End || k == K::Close), out);
                cur.pop();
            }
        } else {
            cur.push(K::Begin);
            go(len, cur, true, out);
            cur.pop();
        }
    }
    go(len, &mut Vec::new(), false, out);
}

/// assign operands: distinct coordinates (so that any mix-up is visible) or, with
/// `rng`, small random ones with repeats
fn instantiate(kinds: &[K], n: usize, rng: Option<&mut Rng>) -> Vec<Op> {
    let mut ctr = 0i64;
    let mut r = rng;
    let mut pt = |r: &mut Option<&mut Rng>| -> Point {
        match r {
            Some(g) => point(g.range(-3, 3) as f32, g.range(-3, 3) as f32),
            None => {
                ctr += 1;
                point((ctr * 10 + 1) as f32, (ctr * 10 + 2) as f32)
            }
        }
    };
    let mut actr = 0i64;
    let mut ops = Vec::new();
    for k in kinds {
        let mut attrs = |r: &mut Option<&mut Rng>| -> Vec<f32> {
            actr += 1;
            (0..n)
                .map(|i| match r {
                    Some(g) => g.range(-5, 5) as f32,
                    None => (1000 * actr + i as i64) as f32,
                })
                .collect()
        };
        match k {
            K::Begin => {
                let p = pt(&mut r);
                ops.push(Op::Begin(p, attrs(&mut r)))
            }
            K::Line => {
                let p = pt(&mut r);
                ops.push(Op::Line(p, attrs(&mut r)))
            }
            K::Quad => {
                let c = pt(&mut r);
                let p = pt(&mut r);
                ops.push(Op::Quad(c, p, attrs(&mut r)))
            }
            K::Cubic => {
                let c1 = pt(&mut r);
                let c2 = pt(&mut r);
                let p = pt(&mut r);
                ops.push(Op::Cubic(c1, c2, p, attrs(&mut r)))
            }
            K::End => ops.push(Op::End(false)),
            K::Close => ops.push(Op::End(true)),
        }
    }
    ops
}

fn random_kinds(rng: &mut Rng, max_ops: usize) -> Vec<K> {
    let target = 1 + rng.below(max_ops as u64) as usize;
    let mut v = Vec::new();
    while v.len() < target {
        v.push(K::Begin);
        // sub-path length distribution: many short (0..2 edges), some long
        let edges = if rng.chance(1, 4) { rng.below(12) } else { rng.below(3) };
        for _ in 0..edges {
            v.push(*rng.pick(&[K::Line, K::Line, K::Quad, K::Cubic]));
        }
        v.push(if rng.chance(1, 2) { K::Close } else { K::End });
    }
    v
}

pub fn ops_text(n: usize, ops: &[Op]) -> String {
    format!("n={} {}", n, ops.iter().map(gop).collect::<Vec<_>>().join("; "))
}

pub const HEADER_CMD: &str = "From LV Require Import Base.Prelude Model.PathStore Model.Commands Run.C14.\nOpen Scope Z_scope.";
pub const HEADER: &str = "From LV Require Import Base.Prelude Model.PathStore Run.C14.\nOpen Scope Z_scope.";

pub fn run_one(id: usize, n: usize, ops: &[Op], w: &mut ShardWriter, st: &mut Stats, origin: &str) {
    let mut ids = Vec::new();
    let built = catch(AssertUnwindSafe(|| build_path(n, ops, &mut ids)));
    st.inc("evaluations");
    st.inc(&format!("origin_{}", origin));
    st.inc(&format!("nattr_{}", n));
    let nontrivial = ops.len() >= 3;
    st.note_case(&ops_text(n, ops), nontrivial);
    let path = match built {
        Some(p) => p,
        None => {
            st.fail(jobj(&[
                ("case", format!("{}", id)),
                ("program", jstr(&ops_text(n, ops))),
                ("what", jstr("builder panicked on a well-nested program")),
            ]));
            return;
        }
    };
    let obs = observe(&path, ids);
    let bad = direct_check(n, ops, &path, &obs);
    for b in &bad {
        st.fail(jobj(&[
            ("case", format!("{}", id)),
            ("program", jstr(&ops_text(n, ops))),
            ("what", jstr(b)),
        ]));
    }
    st.sample(ops_text(n, ops));
    w.push(format!(
        "(mkCase {} {} {} {})",
        id,
        n,
        glist(ops.iter().map(gop)),
        gobs(&obs)
    ));
}

/// the program as a command buffer over external storage: the EventIds the builder calls return, the ids visited
/// by event() / next_event_id_in_path from EventId(0), and next_event_id_in_sub_path at each of them - for the Coq
/// model of commands.rs (Model/Commands.v), whose EventIds are positions in the modelled buffer
fn cmd_case_literal(id: usize, ops: &[Op]) -> Option<String> {
    catch(AssertUnwindSafe(|| {
        let mut b = lyon_path::commands::PathCommands::builder();
        let (mut ne, mut nc) = (0u32, 0u32);
        let mut cops: Vec<String> = Vec::new();
        let mut ids: Vec<i64> = Vec::new();
        for o in ops {
            match o {
                Op::Begin(..) => {
                    ids.push(b.begin(EndpointId(ne)).0 as i64);
                    cops.push(format!("CBegin {}", ne));
                    ne += 1;
                }
                Op::Line(..) => {
                    ids.push(b.line_to(EndpointId(ne)).0 as i64);
                    cops.push(format!("CLine {}", ne));
                    ne += 1;
                }
                Op::Quad(..) => {
                    ids.push(b.quadratic_bezier_to(ControlPointId(nc), EndpointId(ne)).0 as i64);
                    cops.push(format!("CQuad {} {}", nc, ne));
                    nc += 1;
                    ne += 1;
                }
                Op::Cubic(..) => {
                    ids.push(b.cubic_bezier_to(ControlPointId(nc), ControlPointId(nc + 1), EndpointId(ne)).0 as i64);
                    cops.push(format!("CCubic {} {} {}", nc, nc + 1, ne));
                    nc += 2;
                    ne += 1;
                }
                Op::End(c) => {
                    ids.push(b.end(*c).map_or(-1, |e| e.0 as i64));
                    cops.push(format!("CEnd {}", gbool(*c)));
                }
            }
        }
        let cmds = b.build();
        let mut walk: Vec<i64> = Vec::new();
        let mut subs: Vec<i64> = Vec::new();
        let mut cur = if ops.is_empty() { None } else { Some(lyon_path::EventId(0)) };
        while let Some(i) = cur {
            walk.push(i.0 as i64);
            subs.push(cmds.next_event_id_in_sub_path(i).0 as i64);
            cur = cmds.next_event_id_in_path(i);
        }
        let gl = |v: &[i64]| glist(v.iter().map(|x| gz(*x)));
        format!("(mkCmd {} {} {} {} {})", id, glist(cops.iter().map(|c| format!("({})", c))), gl(&ids), gl(&walk), gl(&subs))
    }))
}

// ------------------------------------------------------------------ further views of a stored path
// Path-buffer builders (plain / with attributes, inherent methods and the PathBuilder / Build traits), buffers holding
// several paths with different attribute counts, buffer slices and iterators in both directions, FromIterator, clear;
// IdPolygon and the polygon position store; PointEvents of a command buffer over external storage of several point types;
// FromPolyline; Event::{is_edge, from, to}; PathSlice::{reversed, is_empty}, IntoIterator for &Path / PathSlice / &PathSlice,
// IterWithAttributes::points, Path::with_attributes, BuilderImpl::extend_from_paths.

use lyon_path::path_buffer::{self, PathBuffer};
use lyon_path::{AttributeStore, EventId, PathSlice, PositionStore};

/// one entry of a path-buffer case: a program and its attribute count
#[derive(Clone)]
struct Prog {
    n: usize,
    ops: Vec<Op>,
}

/// moves a program away from the others of the same buffer, so that an entry answering with another entry's data shows
fn shift_prog(ops: &mut [Op], d: f32, da: f32) {
    fn sp(p: &mut Point, d: f32) {
        p.x += d;
        p.y += d;
    }
    for o in ops.iter_mut() {
        match o {
            Op::Begin(p, a) | Op::Line(p, a) => {
                sp(p, d);
                a.iter_mut().for_each(|v| *v += da);
            }
            Op::Quad(c, p, a) => {
                sp(c, d);
                sp(p, d);
                a.iter_mut().for_each(|v| *v += da);
            }
            Op::Cubic(c1, c2, p, a) => {
                sp(c1, d);
                sp(c2, d);
                sp(p, d);
                a.iter_mut().for_each(|v| *v += da);
            }
            Op::End(_) => {}
        }
    }
}

/// (endpoints, control points) a program stores
fn point_counts(ops: &[Op]) -> (usize, usize) {
    let (mut ne, mut nc) = (0, 0);
    for o in ops {
        match o {
            Op::Begin(..) | Op::Line(..) => ne += 1,
            Op::Quad(..) => {
                ne += 1;
                nc += 1
            }
            Op::Cubic(..) => {
                ne += 1;
                nc += 2
            }
            Op::End(_) => {}
        }
    }
    (ne, nc)
}

/// The property's well-formedness: each sub-path is Begin, edges, End; each edge starts where the previous ended;
/// End names the last point reached and the sub-path's first point.
fn well_formed<E: PartialEq + Clone, C>(evs: &[Event<E, C>]) -> bool {
    let mut open: Option<(E, E)> = None; // (first, current)
    for e in evs {
        open = match (e, open) {
            (Event::Begin { at }, None) => Some((at.clone(), at.clone())),
            (Event::Line { from, to }, Some((f, c))) if *from == c => Some((f, to.clone())),
            (Event::Quadratic { from, to, .. }, Some((f, c))) if *from == c => Some((f, to.clone())),
            (Event::Cubic { from, to, .. }, Some((f, c))) if *from == c => Some((f, to.clone())),
            (Event::End { last, first, .. }, Some((f, c))) if *last == c && *first == f => None,
            _ => return false,
        };
    }
    open.is_none()
}

fn resolve_with(e: &IdEvent, ep: &dyn Fn(EndpointId) -> Ep, cp: &dyn Fn(ControlPointId) -> Point) -> AEvent {
    match *e {
        Event::Begin { at } => Event::Begin { at: ep(at) },
        Event::Line { from, to } => Event::Line { from: ep(from), to: ep(to) },
        Event::Quadratic { from, ctrl, to } => Event::Quadratic { from: ep(from), ctrl: cp(ctrl), to: ep(to) },
        Event::Cubic { from, ctrl1, ctrl2, to } => Event::Cubic { from: ep(from), ctrl1: cp(ctrl1), ctrl2: cp(ctrl2), to: ep(to) },
        Event::End { last, first, close } => Event::End { last: ep(last), first: ep(first), close },
    }
}

/// what every view of the path built from a program must say (computed from the program; the id events are those of the
/// stand-alone Path built from it)
struct Expected {
    n: usize,
    spec: Vec<AEvent>,
    spec_pos: Vec<PathEvent>,
    rev: Vec<AEvent>,
    path_ids: Vec<IdEvent>,
    first: Option<Ep>,
    /// per builder call: the endpoint it adds
    op_endpoints: Vec<Option<Ep>>,
}

fn expected_of(p: &Prog) -> Expected {
    let spec = spec_events(&p.ops);
    let mut ids = Vec::new();
    let path = build_path(p.n, &p.ops, &mut ids);
    Expected {
        n: p.n,
        spec_pos: spec.iter().map(strip).collect(),
        rev: spec_reversed(&p.ops),
        path_ids: path.id_iter().collect(),
        first: spec.first().map(|e| match e {
            Event::Begin { at } => at.clone(),
            _ => unreachable!(),
        }),
        op_endpoints: p
            .ops
            .iter()
            .map(|o| match o {
                Op::Begin(q, a) | Op::Line(q, a) | Op::Quad(_, q, a) | Op::Cubic(_, _, q, a) => Some((*q, a.clone())),
                Op::End(_) => None,
            })
            .collect(),
        spec,
    }
}

fn attr_events(sl: &PathSlice) -> Vec<AEvent> {
    sl.iter_with_attributes().map(own).collect()
}

/// the short comparison used for the entries handed out by iterators: events with attributes and raw id events
fn same_entry(sl: &PathSlice, exp: &Expected) -> bool {
    attr_events(sl) == exp.spec && sl.id_iter().collect::<Vec<IdEvent>>() == exp.path_ids
}

/// every read of a PathSlice (of a stand-alone Path or of a buffer entry) against the program
fn entry_check(sl: &PathSlice, exp: &Expected, ids: Option<&[u32]>, via: &str, bad: &mut Vec<String>) {
    let mut say = |m: &str| {
        let s = format!("{}: {}", via, m);
        if !bad.contains(&s) {
            bad.push(s)
        }
    };
    if attr_events(sl) != exp.spec {
        say("iter_with_attributes differs from the program's events");
    }
    if !well_formed(&attr_events(sl)) {
        say("iter_with_attributes is not a well-formed sequence");
    }
    if sl.iter().collect::<Vec<PathEvent>>() != exp.spec_pos {
        say("iter differs from the program's events");
    }
    let idev: Vec<IdEvent> = sl.id_iter().collect();
    if idev != exp.path_ids {
        say("id_iter differs from the id events of the stand-alone Path built from the same program");
    }
    if !well_formed(&idev) {
        say("id_iter is not a well-formed sequence");
    }
    let by_index: Vec<AEvent> = idev.iter().map(|e| resolve_with(e, &|i| (sl[i], sl.attributes(i).to_vec()), &|c| sl[c])).collect();
    if by_index != exp.spec {
        say("id events resolved through Index / attributes() differ from the program's events");
    }
    let by_store: Vec<AEvent> = idev
        .iter()
        .map(|e| resolve_with(e, &|i| (PositionStore::get_endpoint(sl, i), AttributeStore::get(sl, i).to_vec()), &|c| PositionStore::get_control_point(sl, c)))
        .collect();
    if by_store != exp.spec {
        say("id events resolved through PositionStore / AttributeStore differ from the program's events");
    }
    if AttributeStore::num_attributes(sl) != exp.n {
        say("num_attributes is not the builder's attribute count");
    }
    if sl.is_empty() != exp.spec.is_empty() {
        say("is_empty disagrees with the path having no event");
    }
    if sl.first_endpoint().map(|(q, a)| (q, a.to_vec())) != exp.first {
        say("first_endpoint is not the first Begin");
    }
    if let Some(ids) = ids {
        if ids.len() != exp.op_endpoints.len() {
            say("internal: id list length");
        }
        for (k, (want, id)) in exp.op_endpoints.iter().zip(ids.iter()).enumerate() {
            if let Some(w) = want {
                let id = EndpointId(*id);
                let inside = idev.iter().any(|e| match *e {
                    Event::Begin { at } => at == id,
                    Event::Line { to, .. } | Event::Quadratic { to, .. } | Event::Cubic { to, .. } => to == id,
                    Event::End { .. } => false,
                });
                if !inside {
                    say(&format!("the id returned by builder call {} is not an endpoint id of this path", k));
                } else if (sl[id], sl.attributes(id).to_vec()) != *w {
                    say(&format!("the id returned by builder call {} does not resolve to the endpoint it added", k));
                }
            }
        }
    }
    // reversed, through the slice
    let rev: Vec<AEvent> = sl.reversed().with_attributes().map(own).collect();
    if rev != exp.rev {
        say("PathSlice::reversed().with_attributes() differs from the reversed program");
    }
    let rev_pos: Vec<PathEvent> = sl.reversed().collect();
    if rev_pos != exp.rev.iter().map(strip).collect::<Vec<_>>() {
        say("PathSlice::reversed() differs from the reversed program");
    }
    let twice: Vec<AEvent> = {
        let r = sl.reversed().with_attributes().into_path();
        let rr = r.as_slice().reversed().with_attributes().into_path();
        if AttributeStore::num_attributes(&rr) != exp.n {
            say("reversing twice changes the attribute count");
        }
        rr.iter_with_attributes().map(own).collect()
    };
    if twice != exp.spec {
        say("reversing the slice twice does not give the original");
    }
    // IntoIterator for &PathSlice and for PathSlice
    let mut by_ref = Vec::new();
    for e in sl {
        by_ref.push(e);
    }
    let mut by_val = Vec::new();
    for e in *sl {
        by_val.push(e);
    }
    if by_ref != exp.spec_pos || by_val != exp.spec_pos {
        say("a for loop over the slice (IntoIterator) differs from the program's events");
    }
    // IterWithAttributes::points(): from the start and after j events
    if sl.iter_with_attributes().points().collect::<Vec<PathEvent>>() != exp.spec_pos {
        say("iter_with_attributes().points() differs from the program's events");
    }
    for j in [1usize, 2, exp.spec_pos.len() / 2, exp.spec_pos.len().saturating_sub(1)] {
        if j <= exp.spec_pos.len() {
            let mut it = sl.iter_with_attributes();
            for _ in 0..j {
                it.next();
            }
            if it.points().collect::<Vec<PathEvent>>() != exp.spec_pos[j..] {
                say("iter_with_attributes() advanced then .points() does not continue with the remaining events");
                break;
            }
        }
    }
    let _ = format!("{:?}", sl);
}

fn replay_trait<B: lyon_path::traits::PathBuilder>(b: &mut B, ops: &[Op], ids: &mut Vec<u32>) {
    for o in ops {
        match o {
            Op::Begin(p, a) => ids.push(b.begin(*p, a).0),
            Op::Line(p, a) => ids.push(b.line_to(*p, a).0),
            Op::Quad(c, p, a) => ids.push(b.quadratic_bezier_to(*c, *p, a).0),
            Op::Cubic(c1, c2, p, a) => ids.push(b.cubic_bezier_to(*c1, *c2, *p, a).0),
            Op::End(c) => {
                b.end(*c);
                ids.push(0)
            }
        }
    }
}

fn replay_buf_plain(b: &mut path_buffer::Builder, ops: &[Op], ids: &mut Vec<u32>) {
    for o in ops {
        match o {
            Op::Begin(p, _) => ids.push(b.begin(*p).0),
            Op::Line(p, _) => ids.push(b.line_to(*p).0),
            Op::Quad(c, p, _) => ids.push(b.quadratic_bezier_to(*c, *p).0),
            Op::Cubic(c1, c2, p, _) => ids.push(b.cubic_bezier_to(*c1, *c2, *p).0),
            Op::End(c) => {
                b.end(*c);
                ids.push(0)
            }
        }
    }
}

fn replay_buf_attr(b: &mut path_buffer::BuilderWithAttributes, ops: &[Op], ids: &mut Vec<u32>) {
    for o in ops {
        match o {
            Op::Begin(p, a) => ids.push(b.begin(*p, a).0),
            Op::Line(p, a) => ids.push(b.line_to(*p, a).0),
            Op::Quad(c, p, a) => ids.push(b.quadratic_bezier_to(*c, *p, a).0),
            Op::Cubic(c1, c2, p, a) => ids.push(b.cubic_bezier_to(*c1, *c2, *p, a).0),
            Op::End(c) => {
                b.end(*c);
                ids.push(0)
            }
        }
    }
}

/// appends the programs to the buffer, each through a randomly chosen builder route; returns (index, endpoint ids) per program
fn fill_buffer(buf: &mut PathBuffer, progs: &[Prog], rng: &mut Rng, bad: &mut Vec<String>) -> Vec<(usize, Vec<u32>)> {
    use lyon_path::traits::{Build, PathBuilder};
    let mut out = Vec::new();
    for p in progs {
        if rng.chance(1, 4) {
            buf.reserve(rng.below(30) as usize, rng.below(30) as usize, rng.below(4) as usize);
        }
        let mut ids = Vec::new();
        let route = if p.n == 0 { rng.below(5) } else { 2 + rng.below(3) };
        let (ne, nc) = point_counts(&p.ops);
        let reserve = rng.chance(1, 2);
        let idx = match route {
            0 => {
                let mut b = buf.builder();
                if reserve {
                    b.reserve(ne, nc);
                }
                replay_buf_plain(&mut b, &p.ops, &mut ids);
                b.build()
            }
            1 => {
                let mut b = buf.builder();
                if PathBuilder::num_attributes(&b) != 0 {
                    bad.push("path_buffer::Builder: PathBuilder::num_attributes is not 0".to_string());
                }
                if reserve {
                    PathBuilder::reserve(&mut b, ne, nc);
                }
                replay_trait(&mut b, &p.ops, &mut ids);
                Build::build(b)
            }
            2 => {
                let mut b = path_buffer::BuilderWithAttributes::new(&mut *buf, p.n);
                if reserve {
                    b.reserve(ne, nc);
                }
                replay_buf_attr(&mut b, &p.ops, &mut ids);
                b.build()
            }
            3 => {
                let mut b = path_buffer::BuilderWithAttributes::new(&mut *buf, p.n);
                if PathBuilder::num_attributes(&b) != p.n {
                    bad.push("path_buffer::BuilderWithAttributes: PathBuilder::num_attributes is not the count it was created with".to_string());
                }
                if reserve {
                    PathBuilder::reserve(&mut b, ne, nc);
                }
                replay_trait(&mut b, &p.ops, &mut ids);
                Build::build(b)
            }
            _ => {
                let mut b = buf.builder().with_attributes(p.n);
                if reserve {
                    b.reserve(ne, nc);
                }
                replay_buf_attr(&mut b, &p.ops, &mut ids);
                b.build()
            }
        };
        out.push((idx, ids));
    }
    out
}

fn check_empty_buffer(buf: &PathBuffer, tag: &str, bad: &mut Vec<String>) {
    let bs = buf.as_slice();
    let mut it = buf.iter();
    let mut its = bs.iter();
    let ok = buf.len() == 0
        && buf.is_empty()
        && buf.indices() == (0..0)
        && bs.len() == 0
        && bs.is_empty()
        && bs.indices() == (0..0)
        && it.size_hint() == (0, Some(0))
        && it.next().is_none()
        && it.next_back().is_none()
        && its.next_back().is_none()
        && its.next().is_none();
    if !ok {
        bad.push(format!("a {} PathBuffer is not empty (len / is_empty / indices / iter)", tag));
    }
    let _ = format!("{:?} {:?}", buf, bs);
}

fn check_filled_buffer(buf: &PathBuffer, progs: &[Prog], built: &[(usize, Vec<u32>)], rng: &mut Rng, tag: &str, bad: &mut Vec<String>) {
    let k = progs.len();
    let exp: Vec<Expected> = progs.iter().map(expected_of).collect();
    let mut say = |m: String| {
        let s = format!("{}: {}", tag, m);
        if !bad.contains(&s) {
            bad.push(s)
        }
    };
    if buf.len() != k || buf.is_empty() != (k == 0) || buf.indices() != (0..k) {
        say("PathBuffer len / is_empty / indices do not reflect the number of build() calls".to_string());
    }
    for (i, (idx, _)) in built.iter().enumerate() {
        if *idx != i {
            say(format!("build() number {} returned index {}", i, idx));
        }
    }
    let bs = buf.as_slice();
    if bs.len() != k || bs.is_empty() != (k == 0) || bs.indices() != (0..k) {
        say("PathBufferSlice len / is_empty / indices do not reflect the number of build() calls".to_string());
    }
    let mut sub = Vec::new();
    for i in 0..k {
        entry_check(&buf.get(i), &exp[i], Some(&built[i].1), &format!("entry {} via PathBuffer::get", i), &mut sub);
        entry_check(&bs.get(i), &exp[i], Some(&built[i].1), &format!("entry {} via PathBufferSlice::get", i), &mut sub);
    }
    for s in sub {
        say(s);
    }
    // iteration order = index order, backwards = reversed, for the buffer and its slice
    let forwards: [Vec<PathSlice>; 2] = [buf.iter().collect(), bs.iter().collect()];
    let backwards: [Vec<PathSlice>; 2] = [buf.iter().rev().collect(), bs.iter().rev().collect()];
    for (w, name) in [(0usize, "PathBuffer"), (1, "PathBufferSlice")] {
        if forwards[w].len() != k || forwards[w].iter().zip(exp.iter()).any(|(s, e)| !same_entry(s, e)) {
            say(format!("{}::iter does not yield the entries in index order", name));
        }
        if backwards[w].len() != k || backwards[w].iter().zip(exp.iter().rev()).any(|(s, e)| !same_entry(s, e)) {
            say(format!("{}::iter().rev() does not yield the entries in reverse index order", name));
        }
    }
    // both ends at once, with the size known at every step
    {
        let mut it = if rng.chance(1, 2) { buf.iter() } else { bs.iter() };
        let (mut lo, mut hi) = (0usize, k);
        loop {
            if it.size_hint() != (hi - lo, Some(hi - lo)) || it.len() != hi - lo {
                say("path_buffer::Iter: size_hint / len is not the number of entries left".to_string());
                break;
            }
            if lo == hi {
                if it.next().is_some() || it.next_back().is_some() || it.clone().next().is_some() {
                    say("path_buffer::Iter yields an entry after the last one".to_string());
                }
                break;
            }
            if rng.chance(1, 2) {
                match it.next() {
                    Some(s) if same_entry(&s, &exp[lo]) => {}
                    _ => {
                        say("path_buffer::Iter::next, mixed with next_back, does not yield the next entry from the front".to_string());
                        break;
                    }
                }
                lo += 1;
            } else {
                match it.next_back() {
                    Some(s) if same_entry(&s, &exp[hi - 1]) => {}
                    _ => {
                        say("path_buffer::Iter::next_back, mixed with next, does not yield the next entry from the back".to_string());
                        break;
                    }
                }
                hi -= 1;
            }
        }
    }
    let _ = format!("{:?} {:?}", buf, bs);
    // a clone reads the same
    {
        let c = buf.clone();
        if c.len() != k || (0..k.min(c.len())).any(|i| !same_entry(&c.get(i), &exp[i])) {
            say("a clone of the PathBuffer does not hold the same entries".to_string());
        }
    }
    // FromIterator<PathSlice>: the collected buffer holds the paths' (position) events, entry by entry
    {
        let c: PathBuffer = buf.iter().collect();
        if c.len() != k || (0..k.min(c.len())).any(|i| c.get(i).iter().collect::<Vec<PathEvent>>() != exp[i].spec_pos) {
            say("a PathBuffer collected from the entries (FromIterator<PathSlice>) does not yield the same position events entry by entry".to_string());
        }
    }
}

fn progs_text(progs: &[Prog]) -> String {
    progs.iter().map(|p| format!("<{}>", ops_text(p.n, &p.ops))).collect::<Vec<_>>().join(" ")
}

/// a buffer created by `ctor`, filled with `fills[0]`, cleared, filled with `fills[1]`, ...
fn buffer_case(ctor: u64, fills: &[Vec<Prog>], route_seed: u64) -> Vec<String> {
    let mut bad = Vec::new();
    let mut rng = Rng::new(route_seed);
    let mut buf = match ctor {
        0 => PathBuffer::new(),
        1 => PathBuffer::default(),
        _ => PathBuffer::with_capacity(rng.below(40) as usize, rng.below(40) as usize, rng.below(8) as usize),
    };
    check_empty_buffer(&buf, "new", &mut bad);
    for (fi, progs) in fills.iter().enumerate() {
        if fi > 0 {
            buf.clear();
            check_empty_buffer(&buf, "cleared", &mut bad);
        }
        let built = fill_buffer(&mut buf, progs, &mut rng, &mut bad);
        check_filled_buffer(&buf, progs, &built, &mut rng, if fi == 0 { "first fill" } else { "fill after clear()" }, &mut bad);
    }
    bad
}

/// Event::{is_edge, from, to} on the events of every kind of iterator, against the program
fn accessor_check(ops: &[Op], path: &Path) -> Vec<String> {
    let mut bad = Vec::new();
    // (from, to, is_edge) per builder call, from the program alone
    let mut want: Vec<(Ep, Ep, bool)> = Vec::new();
    let mut first: Ep = (point(0.0, 0.0), vec![]);
    let mut cur: Ep = first.clone();
    for o in ops {
        match o {
            Op::Begin(p, a) => {
                first = (*p, a.clone());
                cur = first.clone();
                want.push((cur.clone(), cur.clone(), false));
            }
            Op::Line(p, a) | Op::Quad(_, p, a) | Op::Cubic(_, _, p, a) => {
                let to = (*p, a.clone());
                want.push((cur.clone(), to.clone(), true));
                cur = to;
            }
            Op::End(close) => want.push((cur.clone(), first.clone(), *close)),
        }
    }
    let pos: Vec<PathEvent> = path.iter().collect();
    let borrowed: Vec<Event<(Point, Attributes), Point>> = path.iter_with_attributes().collect();
    let owned: Vec<AEvent> = borrowed.iter().map(|e| own(*e)).collect();
    let ids: Vec<IdEvent> = path.id_iter().collect();
    if pos.len() != want.len() || borrowed.len() != want.len() || ids.len() != want.len() {
        bad.push("the path does not have one event per builder call".to_string());
        return bad;
    }
    let res = |i: EndpointId| -> Ep { (path[i], path.attributes(i).to_vec()) };
    for (k, (f, t, edge)) in want.iter().enumerate() {
        let own_pair = |x: (Point, Attributes)| -> Ep { (x.0, x.1.to_vec()) };
        let ok = pos[k].from() == f.0
            && pos[k].to() == t.0
            && pos[k].is_edge() == *edge
            && own_pair(borrowed[k].from()) == *f
            && own_pair(borrowed[k].to()) == *t
            && borrowed[k].is_edge() == *edge
            && owned[k].from() == *f
            && owned[k].to() == *t
            && owned[k].is_edge() == *edge
            && res(ids[k].from()) == *f
            && res(ids[k].to()) == *t
            && ids[k].is_edge() == *edge;
        if !ok {
            bad.push(format!("Event::from / to / is_edge of event {} is not the start point / end point / edge flag the program gives", k));
            break;
        }
        // each edge starts where the previous event ended
        if k > 0 && !matches!(ops[k], Op::Begin(..)) && (pos[k].from() != pos[k - 1].to() || ids[k].from() != ids[k - 1].to()) {
            bad.push(format!("event {} does not start (from()) where the previous one ended (to())", k));
            break;
        }
    }
    bad
}

/// the program as a command buffer over external storage (stored in a shuffled order), read as position events
fn commands_points_check(ops: &[Op], rng: &mut Rng) -> Vec<String> {
    use lyon_path::commands::{PathCommandsBuilder, PathCommandsSlice};
    let mut bad = Vec::new();
    let spec_pos: Vec<PathEvent> = spec_events(ops).iter().map(strip).collect();
    let (ne, nc) = point_counts(ops);
    let shuffle = |n: usize, rng: &mut Rng| -> Vec<u32> {
        let mut v: Vec<u32> = (0..n as u32).collect();
        for i in (1..n).rev() {
            let j = rng.below(i as u64 + 1) as usize;
            v.swap(i, j);
        }
        v
    };
    let (pe, pc) = (shuffle(ne, rng), shuffle(nc, rng));
    let mut endpoints = vec![point(-999.0, -999.0); ne];
    let mut ctrls = vec![point(-998.0, -998.0); nc];
    let mut b = PathCommandsBuilder::with_capacity(rng.below(64) as usize);
    let (mut ie, mut ic) = (0usize, 0usize);
    for o in ops {
        match o {
            Op::Begin(p, _) => {
                endpoints[pe[ie] as usize] = *p;
                b.begin(EndpointId(pe[ie]));
                ie += 1;
            }
            Op::Line(p, _) => {
                endpoints[pe[ie] as usize] = *p;
                b.line_to(EndpointId(pe[ie]));
                ie += 1;
            }
            Op::Quad(c, p, _) => {
                ctrls[pc[ic] as usize] = *c;
                endpoints[pe[ie] as usize] = *p;
                b.quadratic_bezier_to(ControlPointId(pc[ic]), EndpointId(pe[ie]));
                ic += 1;
                ie += 1;
            }
            Op::Cubic(c1, c2, p, _) => {
                ctrls[pc[ic] as usize] = *c1;
                ctrls[pc[ic + 1] as usize] = *c2;
                endpoints[pe[ie] as usize] = *p;
                b.cubic_bezier_to(ControlPointId(pc[ic]), ControlPointId(pc[ic + 1]), EndpointId(pe[ie]));
                ic += 2;
                ie += 1;
            }
            Op::End(c) => {
                b.end(*c);
            }
        }
    }
    let _ = format!("{:?}", b);
    let cmds = b.build();
    if cmds.events(&endpoints, &ctrls).points().collect::<Vec<PathEvent>>() != spec_pos {
        bad.push("PathCommands::events(..).points() differs from the program's events".to_string());
    }
    // other storage types with a position
    let ep_pairs: Vec<(f32, f32)> = endpoints.iter().map(|p| (p.x, p.y)).collect();
    let cp_arrays: Vec<[f32; 2]> = ctrls.iter().map(|p| [p.x, p.y]).collect();
    let ep_tagged: Vec<(Point, usize)> = endpoints.iter().enumerate().map(|(i, p)| (*p, i)).collect();
    if cmds.events(&ep_pairs, &cp_arrays).points().collect::<Vec<PathEvent>>() != spec_pos
        || cmds.events(&ep_tagged, &ctrls).points().collect::<Vec<PathEvent>>() != spec_pos
    {
        bad.push("PathCommands::events(..).points() over (f32, f32) / [f32; 2] / (Point, T) storage differs from the program's events".to_string());
    }
    if cmds.events(&ep_pairs, &cp_arrays).map(|e| e.with_points()).collect::<Vec<PathEvent>>() != spec_pos {
        bad.push("PathCommands::events(..) mapped through Event::with_points differs from the program's events".to_string());
    }
    if cmds.path_slice(&endpoints, &ctrls).events().points().collect::<Vec<PathEvent>>() != spec_pos {
        bad.push("CommandsPathSlice::events().points() differs from the program's events".to_string());
    }
    // converting to positions in the middle of the iteration continues with the remaining events
    for j in [1usize, 2, spec_pos.len() / 2, spec_pos.len().saturating_sub(1)] {
        if j <= spec_pos.len() {
            let mut it = cmds.events(&endpoints, &ctrls);
            for _ in 0..j {
                it.next();
            }
            if it.points().collect::<Vec<PathEvent>>() != spec_pos[j..] {
                bad.push("PathCommands::events(..) advanced then .points() does not continue with the remaining events".to_string());
                break;
            }
        }
    }
    // id events: for loop over &PathCommands, the slice made by From, resolved through the position stores
    let mut by_for: Vec<IdEvent> = Vec::new();
    for e in &cmds {
        by_for.push(e);
    }
    let sl = PathCommandsSlice::from(&cmds);
    if by_for != cmds.iter().collect::<Vec<IdEvent>>() || by_for != sl.iter().collect::<Vec<IdEvent>>() {
        bad.push("a for loop over &PathCommands / PathCommandsSlice::from(&cmds).iter() differs from PathCommands::iter".to_string());
    }
    if !well_formed(&by_for) {
        bad.push("the id events of the command buffer are not a well-formed sequence".to_string());
    }
    let store: (&[Point], &[Point]) = (&endpoints[..], &ctrls[..]);
    let ps = cmds.path_slice(&ep_tagged, &cp_arrays);
    let noattr = |p: Point| -> Ep { (p, vec![]) };
    let via_pair: Vec<PathEvent> = by_for.iter().map(|e| strip(&resolve_with(e, &|i| noattr(store.get_endpoint(i)), &|c| store.get_control_point(c)))).collect();
    let via_ps: Vec<PathEvent> = by_for.iter().map(|e| strip(&resolve_with(e, &|i| noattr(ps.get_endpoint(i)), &|c| ps.get_control_point(c)))).collect();
    if via_pair != spec_pos {
        bad.push("command-buffer id events resolved through the (endpoints, control points) PositionStore differ from the program's events".to_string());
    }
    if via_ps != spec_pos {
        bad.push("command-buffer id events resolved through the CommandsPathSlice PositionStore differ from the program's events".to_string());
    }
    let _ = format!("{:?} {:?} {:?} {:?}", cmds, sl, ps, cmds.path_slice(&endpoints, &ctrls));
    bad
}

/// everything that is checked per program: the slice of the stand-alone Path, IntoIterator for &Path, the event accessors,
/// the command buffer read as positions, Path::with_attributes
fn program_checks(n: usize, ops: &[Op], rng: &mut Rng) -> Vec<String> {
    let mut bad = Vec::new();
    let prog = Prog { n, ops: ops.to_vec() };
    let exp = expected_of(&prog);
    let mut ids = Vec::new();
    let path = build_path(n, ops, &mut ids);
    entry_check(&path.as_slice(), &exp, Some(&ids), "Path::as_slice", &mut bad);
    entry_check(&PathSlice::from(&path), &exp, Some(&ids), "PathSlice::from(&Path)", &mut bad);
    let mut by_for = Vec::new();
    for e in &path {
        by_for.push(e);
    }
    if by_for != exp.spec_pos {
        bad.push("a for loop over &Path (IntoIterator) differs from the program's events".to_string());
    }
    bad.extend(accessor_check(ops, &path));
    bad.extend(commands_points_check(ops, rng));
    // the empty path with n attributes
    {
        let e = Path::with_attributes(n);
        let none = e.iter().next().is_none()
            && e.id_iter().next().is_none()
            && e.iter_with_attributes().next().is_none()
            && e.reversed().next().is_none()
            && e.as_slice().is_empty()
            && e.first_endpoint().is_none()
            && e.last_endpoint().is_none();
        if !none || AttributeStore::num_attributes(&e) != n || AttributeStore::num_attributes(&e.as_slice()) != n {
            bad.push("Path::with_attributes(n) is not an empty path with n attributes".to_string());
        }
        // it can be concatenated with paths of the same attribute count
        let mut b = Path::builder_with_attributes(n);
        b.extend_from_paths(&[e.as_slice(), path.as_slice(), e.as_slice()]);
        if b.build().iter_with_attributes().map(own).collect::<Vec<AEvent>>() != exp.spec {
            bad.push("extend_from_paths with Path::with_attributes(n) around the path changes the events".to_string());
        }
    }
    bad
}

/// BuilderImpl::extend_from_paths: builder calls, then whole paths, then builder calls again = all the programs one after the other
fn extend_impl_check(progs: &[Vec<Op>], rng: &mut Rng) -> Vec<String> {
    use lyon_path::path::BuilderImpl;
    use lyon_path::traits::Build;
    let mut bad = Vec::new();
    let paths: Vec<Path> = progs.iter().map(|o| build_path_noattr(o)).collect();
    let k = progs.len();
    let cut1 = rng.below(k as u64 + 1) as usize;
    let cut2 = cut1 + rng.below((k - cut1) as u64 + 1) as usize;
    let mut b = match rng.below(3) {
        0 => Path::builder().into_inner(),
        1 => BuilderImpl::new(),
        _ => BuilderImpl::with_capacity(rng.below(50) as usize, rng.below(50) as usize),
    };
    let mut ids = Vec::new();
    for p in &progs[..cut1] {
        replay_trait(&mut b, p, &mut ids);
    }
    let slices: Vec<PathSlice> = paths[cut1..cut2].iter().map(|p| p.as_slice()).collect();
    b.extend_from_paths(&slices);
    for p in &progs[cut2..] {
        replay_trait(&mut b, p, &mut ids);
    }
    let joined: Path = Build::build(b);
    let all: Vec<Op> = progs.iter().flat_map(|p| p.iter().cloned()).collect();
    let want: Vec<PathEvent> = spec_events(&all).iter().map(strip).collect();
    if joined.iter().collect::<Vec<PathEvent>>() != want {
        bad.push(format!("BuilderImpl: programs [..{}] by builder calls, [{}..{}] by extend_from_paths, [{}..] by builder calls do not yield the programs' events one after the other", cut1, cut1, cut2, cut2));
    }
    if !well_formed(&joined.id_iter().collect::<Vec<IdEvent>>()) {
        bad.push("BuilderImpl::extend_from_paths: the id events of the result are not a well-formed sequence".to_string());
    }
    bad
}

fn fail_all(st: &mut Stats, bad: Vec<String>, label: &str) {
    for b in bad {
        st.fail(jobj(&[("what", jstr(&b)), ("input", jstr(label))]));
    }
}

fn random_prog(rng: &mut Rng, n: usize, index: usize) -> Prog {
    let kinds = if rng.chance(1, 10) {
        Vec::new()
    } else {
        let max_ops = if rng.chance(1, 8) { 60 } else { 10 };
        random_kinds(rng, max_ops)
    };
    let mut ops = if rng.chance(1, 2) {
        instantiate(&kinds, n, None)
    } else {
        let mut r2 = Rng::new(rng.next_u64());
        instantiate(&kinds, n, Some(&mut r2))
    };
    shift_prog(&mut ops, 10000.0 * index as f32, 100000.0 * index as f32);
    Prog { n, ops }
}

fn additional_checks(args: &Args, st: &mut Stats) {
    let mut rng = Rng::new(args.seed ^ 0xC14_0ADD);
    // ---- 1. path buffers
    // small exhaustive: every well-nested program of up to 5 calls (this includes the empty path, single-point sub-paths and
    // sub-paths of only curves), stored four times with 0, 1, 2, 3 attributes, then cleared and stored in the other order
    let mut all = Vec::new();
    for len in 0..=5 {
        enum_kinds(len, &mut all);
    }
    let mut cases: Vec<(u64, Vec<Vec<Prog>>, &str)> = Vec::new();
    for (ci, kinds) in all.iter().enumerate() {
        let mk = |order: &[usize]| -> Vec<Prog> {
            order
                .iter()
                .enumerate()
                .map(|(i, n)| {
                    let mut ops = instantiate(kinds, *n, None);
                    shift_prog(&mut ops, 10000.0 * i as f32, 100000.0 * i as f32);
                    Prog { n: *n, ops }
                })
                .collect()
        };
        cases.push(((ci % 3) as u64, vec![mk(&[0, 1, 2, 3]), mk(&[3, 2, 1, 0])], "exhaustive"));
    }
    let n_random = if args.thorough() { 3000 } else { 300 };
    for _ in 0..n_random {
        let mut fills = Vec::new();
        for _ in 0..2 {
            let k = if rng.chance(1, 20) { 0 } else { 1 + rng.below(6) as usize };
            fills.push((0..k).map(|i| { let n = rng.below(4) as usize; random_prog(&mut rng, n, i) }).collect::<Vec<Prog>>());
        }
        cases.push((rng.below(3), fills, "random"));
    }
    for (ctor, fills, origin) in &cases {
        let route_seed = rng.next_u64();
        let label = format!("path buffer (constructor {}, builder routes from seed {}): first fill {} ; after clear() {}", ctor, route_seed, progs_text(&fills[0]), progs_text(&fills[1]));
        st.inc("buffer_cases");
        st.inc(&format!("buffer_cases_{}", origin));
        st.add("buffer_entries", fills.iter().map(|f| f.len() as u64).sum());
        let distinct_n: std::collections::BTreeSet<usize> = fills[0].iter().map(|p| p.n).collect();
        if distinct_n.len() >= 2 {
            st.inc("buffer_cases_mixed_attribute_counts");
        }
        st.note_case(&label, fills.iter().any(|f| f.len() >= 2));
        match catch(AssertUnwindSafe(|| buffer_case(*ctor, fills, route_seed))) {
            None => st.fail(jobj(&[("what", jstr("building / reading a PathBuffer panicked")), ("input", jstr(&label))])),
            Some(bad) => fail_all(st, bad, &label),
        }
    }
    // ---- per program: slice views, IntoIterator, Event accessors, command buffer read as positions, Path::with_attributes;
    //      BuilderImpl::extend_from_paths on groups of attribute-less programs
    {
        let mut progs: Vec<Prog> = Vec::new();
        for kinds in &all {
            for n in 0..4usize {
                progs.push(Prog { n, ops: instantiate(kinds, n, None) });
            }
        }
        for _ in 0..n_random {
            let n = rng.below(6) as usize;
            progs.push(random_prog(&mut rng, n, 0));
        }
        for p in &progs {
            let label = ops_text(p.n, &p.ops);
            st.inc("program_view_cases");
            st.note_case(&format!("views {}", label), p.ops.len() >= 3);
            let sub = rng.next_u64();
            match catch(AssertUnwindSafe(|| program_checks(p.n, &p.ops, &mut Rng::new(sub)))) {
                None => st.fail(jobj(&[("what", jstr("reading the path through its slice / event accessors / command buffer panicked")), ("input", jstr(&label))])),
                Some(bad) => fail_all(st, bad, &label),
            }
        }
        for _ in 0..n_random {
            let k = 1 + rng.below(5) as usize;
            let group: Vec<Vec<Op>> = (0..k).map(|i| random_prog(&mut rng, 0, i).ops).collect();
            let label = format!("extend_from_paths {}", group.iter().map(|o| format!("<{}>", ops_text(0, o))).collect::<Vec<_>>().join(" "));
            st.inc("builder_impl_extend_cases");
            st.note_case(&label, k >= 2);
            let sub = rng.next_u64();
            match catch(AssertUnwindSafe(|| extend_impl_check(&group, &mut Rng::new(sub)))) {
                None => st.fail(jobj(&[("what", jstr("BuilderImpl::extend_from_paths panicked")), ("input", jstr(&label))])),
                Some(bad) => fail_all(st, bad, &label),
            }
        }
    }
    // ---- a builder that is dropped without build() must leave the entries already stored readable
    {
        let kinds = [K::Begin, K::Line, K::Cubic, K::End];
        for n in [0usize, 2] {
            let prog = Prog { n, ops: instantiate(&kinds, n, None) };
            let label = format!("buffer holding <{}>, then a builder (begin, line_to) dropped without build(), then one more path built", ops_text(n, &prog.ops));
            st.inc("buffer_abandoned_builder_cases");
            st.note_case(&label, true);
            let got = catch(AssertUnwindSafe(|| {
                let mut bad = Vec::new();
                let mut buf = PathBuffer::new();
                let built = fill_buffer(&mut buf, std::slice::from_ref(&prog), &mut Rng::new(3), &mut bad);
                {
                    let mut b = buf.builder();
                    b.begin(point(-1.0, -2.0));
                    b.line_to(point(-3.0, -4.0));
                }
                let exp = expected_of(&prog);
                match catch(AssertUnwindSafe(|| {
                    let mut sub = Vec::new();
                    entry_check(&buf.get(0), &exp, Some(&built[0].1), "entry 0 after an abandoned builder", &mut sub);
                    sub
                })) {
                    None => bad.push("entry 0 can no longer be read (panic) after a path_buffer::Builder was dropped without build()".to_string()),
                    Some(sub) => bad.extend(sub),
                }
                // ... and stay what they were when the buffer is used again
                let mut second = Prog { n, ops: instantiate(&[K::Begin, K::Quad, K::Line, K::Line, K::Close], n, None) };
                shift_prog(&mut second.ops, 10000.0, 100000.0);
                let built2 = fill_buffer(&mut buf, std::slice::from_ref(&second), &mut Rng::new(4), &mut bad);
                let exp2 = expected_of(&second);
                match catch(AssertUnwindSafe(|| buf.get(0).iter().collect::<Vec<PathEvent>>())) {
                    None => bad.push("entry 0 can no longer be read (panic) after a path_buffer::Builder was dropped without build() and one more path was built".to_string()),
                    Some(v) => {
                        if v != exp.spec_pos {
                            bad.push(format!(
                                "after a path_buffer::Builder was dropped without build() and one more path was built, entry 0 no longer yields its program's events but {}{:?}",
                                if well_formed(&v) { "" } else { "the ill-formed sequence " },
                                v
                            ));
                        }
                    }
                }
                match catch(AssertUnwindSafe(|| {
                    let mut sub = Vec::new();
                    entry_check(&buf.get(built2[0].0), &exp2, Some(&built2[0].1), "the path built after an abandoned builder", &mut sub);
                    sub
                })) {
                    None => bad.push("reading the path built after an abandoned builder panicked".to_string()),
                    Some(sub) => bad.extend(sub),
                }
                bad
            }));
            // known finding K19: path_buffer::Builder::new swaps the buffer's storage into the builder and only build()
            // swaps it back; there is no Drop
            match got {
                None => st.fail(jobj(&[("what", jstr("filling a PathBuffer / abandoning a builder panicked")), ("input", jstr(&label)), ("class", jstr("K19"))])),
                Some(bad) => {
                    for b in bad {
                        st.fail(jobj(&[("what", jstr(&b)), ("input", jstr(&label)), ("class", jstr("K19"))]));
                    }
                }
            }
        }
    }
    // ---- 2. IdPolygon, and a Polygon as the position store its ids are resolved through
    {
        let mut lists: Vec<Vec<u32>> = vec![vec![]];
        for len in 1..=4usize {
            for code in 0..3usize.pow(len as u32) {
                let mut c = code;
                lists.push((0..len).map(|_| { let v = (c % 3) as u32 * 5 + 1; c /= 3; v }).collect());
            }
        }
        for _ in 0..n_random {
            let len = 1 + rng.below(6) as usize;
            lists.push((0..len).map(|_| rng.below(16) as u32).collect());
        }
        let store_pts: Vec<Point> = (0..16).map(|i| point(i as f32 * 3.0 + 1.0, 100.0 - i as f32)).collect();
        for l in &lists {
            for closed in [false, true] {
                let label = format!("IdPolygon {:?} closed {}", l, closed);
                st.inc("id_polygon_cases");
                st.note_case(&label, l.len() >= 2);
                let got = catch(AssertUnwindSafe(|| {
                    let mut bad = Vec::new();
                    let ids: Vec<EndpointId> = l.iter().map(|i| EndpointId(*i)).collect();
                    let mut want: Vec<IdEvent> = Vec::new();
                    for (k, id) in ids.iter().enumerate() {
                        want.push(if k == 0 { Event::Begin { at: *id } } else { Event::Line { from: ids[k - 1], to: *id } });
                    }
                    if let (Some(f), Some(la)) = (ids.first(), ids.last()) {
                        want.push(Event::End { last: *la, first: *f, close: closed });
                    }
                    let pg = lyon_path::IdPolygon { points: &ids[..], closed };
                    let got: Vec<IdEvent> = pg.iter().collect();
                    if got != want {
                        bad.push("IdPolygon::iter is not Begin, a Line per consecutive pair, End{close} over the ids in order".to_string());
                    }
                    if !well_formed(&got) {
                        bad.push("IdPolygon::iter is not a well-formed sequence".to_string());
                    }
                    let mut it = pg.iter();
                    for _ in 0..want.len() {
                        it.next();
                    }
                    if it.next().is_some() || it.next().is_some() || it.clone().next().is_some() {
                        bad.push("IdPolygonIter yields an event after End".to_string());
                    }
                    for (k, w) in want.iter().enumerate() {
                        if pg.event(EventId(k as u32)) != *w {
                            bad.push(format!("IdPolygon::event(EventId({})) is not event {} of the iteration", k, k));
                            break;
                        }
                    }
                    // resolved through a polygon used as the position store
                    let store = lyon_path::Polygon { points: &store_pts[..], closed: false };
                    let tagged: Vec<(Point, u8)> = store_pts.iter().map(|p| (*p, 7u8)).collect();
                    let store2 = lyon_path::Polygon { points: &tagged[..], closed: true };
                    let noattr = |p: Point| -> Ep { (p, vec![]) };
                    let nocp = |_: ControlPointId| -> Point { unreachable!() };
                    let r1: Vec<PathEvent> = got.iter().map(|e| strip(&resolve_with(e, &|i| noattr(store.get_endpoint(i)), &nocp))).collect();
                    let r2: Vec<PathEvent> = got.iter().map(|e| strip(&resolve_with(e, &|i| noattr(store2.get_endpoint(i)), &nocp))).collect();
                    let want_pos: Vec<PathEvent> = want.iter().map(|e| strip(&resolve_with(e, &|i| noattr(store_pts[i.0 as usize]), &nocp))).collect();
                    if r1 != want_pos || r2 != want_pos {
                        bad.push("IdPolygon events resolved through PositionStore for Polygon (get_endpoint) differ from the stored points".to_string());
                    }
                    bad
                }));
                match got {
                    None => st.fail(jobj(&[("what", jstr("an IdPolygon view panicked")), ("input", jstr(&label))])),
                    Some(bad) => fail_all(st, bad, &label),
                }
            }
        }
    }
    // ---- 4. FromPolyline
    {
        use lyon_path::iterator::FromPolyline;
        let lattice = [point(0.0, 0.0), point(1.0, 0.0), point(2.0, 3.0)];
        let mut lists: Vec<Vec<Point>> = vec![vec![]];
        for len in 1..=4usize {
            for code in 0..3usize.pow(len as u32) {
                let mut c = code;
                lists.push((0..len).map(|_| { let p = lattice[c % 3]; c /= 3; p }).collect());
            }
        }
        for _ in 0..n_random {
            let len = 1 + rng.below(12) as usize;
            lists.push((0..len).map(|_| point(rng.range(-9, 9) as f32, rng.range(-9, 9) as f32)).collect());
        }
        for pts in &lists {
            for variant in 0..4usize {
                let close = variant % 2 == 1;
                let name = ["FromPolyline::new(false, ..)", "FromPolyline::new(true, ..)", "FromPolyline::open", "FromPolyline::closed"][variant];
                let label = format!("{} over {:?}", name, pts.iter().map(|p| (p.x, p.y)).collect::<Vec<_>>());
                st.inc("from_polyline_cases");
                st.note_case(&label, pts.len() >= 2);
                let got: Option<Vec<PathEvent>> = catch(AssertUnwindSafe(|| {
                    let it = pts.iter().cloned();
                    let limit = pts.len() + 5;
                    match variant {
                        0 | 1 => FromPolyline::new(close, it).take(limit).collect(),
                        2 => FromPolyline::open(it).take(limit).collect(),
                        _ => FromPolyline::closed(it).take(limit).collect(),
                    }
                }));
                let mut want: Vec<PathEvent> = Vec::new();
                for (k, p) in pts.iter().enumerate() {
                    want.push(if k == 0 { Event::Begin { at: *p } } else { Event::Line { from: pts[k - 1], to: *p } });
                }
                if let (Some(f), Some(la)) = (pts.first(), pts.last()) {
                    want.push(Event::End { last: *la, first: *f, close });
                }
                match got {
                    None => st.fail(jobj(&[("what", jstr("FromPolyline panicked")), ("input", jstr(&label))])),
                    Some(evs) => {
                        if !well_formed(&evs) {
                            st.fail(jobj(&[
                                ("what", jstr(&format!("the events of FromPolyline are not a well-formed sequence (each sub-path Begin, edges, End): got {:?}", evs))),
                                ("input", jstr(&label)),
                            ]));
                        } else if evs != want {
                            st.fail(jobj(&[("what", jstr("the events of FromPolyline are not Begin(first), a Line per consecutive pair, End{last, first, close}")), ("input", jstr(&label))]));
                        }
                    }
                }
            }
        }
    }
}

pub fn main(args: &Args) -> std::io::Result<()> {
    let mut st = Stats::default();
    let mut w = ShardWriter::new(&args.out, "c14_cases", args.shards, HEADER, "bad_cases");
    w.disabled = args.direct_only();
    let mut cw = ShardWriter::new(&args.out, "c14cmd_cases", 4, HEADER_CMD, "cmd_bad_cases");
    cw.disabled = args.direct_only();
    let mut index = std::fs::File::create(args.out.join("c14_index.txt"))?;
    use std::io::Write;
    let mut id = 0usize;
    let max_len = if args.thorough() { 8 } else { 6 };
    // 1. bounded-exhaustive well-nested programs x attribute counts 0..3
    let mut all = Vec::new();
    for len in 0..=max_len {
        enum_kinds(len, &mut all);
    }
    for kinds in &all {
        for n in 0..4usize {
            let ops = instantiate(kinds, n, None);
            writeln!(index, "{}\t{}", id, ops_text(n, &ops))?;
            run_one(id, n, &ops, &mut w, &mut st, "exhaustive");
            if n == 0 {
                match cmd_case_literal(id, &ops) {
                    Some(c) => {
                        cw.push(c);
                        st.inc("command_buffer_model_cases");
                    }
                    None => st.fail(jobj(&[("what", jstr("building / walking a command buffer panicked")), ("input", jstr(&ops_text(n, &ops)))])),
                }
            }
            id += 1;
        }
    }
    st.add("exhaustive_max_ops", max_len as u64);
    // 2. random longer programs, distinct and repeated coordinates
    let mut rng = Rng::new(args.seed);
    let n_random = if args.thorough() { 6000 } else { 600 };
    for i in 0..n_random {
        let max_ops = if i % 10 == 0 { 200 } else { 30 };
        let kinds = random_kinds(&mut rng, max_ops);
        let n = rng.below(6) as usize;
        let ops = if rng.chance(1, 2) {
            instantiate(&kinds, n, None)
        } else {
            let mut r2 = Rng::new(rng.next_u64());
            instantiate(&kinds, n, Some(&mut r2))
        };
        writeln!(index, "{}\t{}", id, ops_text(n, &ops))?;
        run_one(id, n, &ops, &mut w, &mut st, "random");
        match cmd_case_literal(id, &ops) {
            Some(c) => {
                cw.push(c);
                st.inc("command_buffer_model_cases");
            }
            None => st.fail(jobj(&[("what", jstr("building / walking a command buffer panicked")), ("input", jstr(&ops_text(n, &ops)))])),
        }
        id += 1;
    }
    w.finish()?;
    cw.finish()?;
    // polygon views: every point list up to 4 points on a 2x2 lattice, longer random ones; closed and open
    {
        let mut pw = ShardWriter::new(&args.out, "c14poly_cases", 4, HEADER, "poly_bad_cases");
        pw.disabled = args.direct_only();
        let ev = |e: PathEvent| -> String {
            match e {
                Event::Begin { at } => format!("(EvBegin {})", gp(at)),
                Event::Line { from, to } => format!("(EvLine {} {})", gp(from), gp(to)),
                Event::End { last, first, close } => format!("(EvEnd {} {} {})", gp(last), gp(first), gbool(close)),
                _ => unreachable!(),
            }
        };
        let mut lists: Vec<Vec<Point>> = vec![vec![]];
        let lattice = [point(0.0, 0.0), point(1.0, 0.0), point(0.0, 1.0), point(1.0, 1.0)];
        for len in 1..=4usize {
            for code in 0..4usize.pow(len as u32) {
                let mut c = code;
                lists.push((0..len).map(|_| { let p = lattice[c % 4]; c /= 4; p }).collect());
            }
        }
        for _ in 0..(if args.thorough() { 2000 } else { 300 }) {
            let len = 5 + rng.below(20) as usize;
            lists.push((0..len).map(|_| point(rng.range(-9, 9) as f32, rng.range(-9, 9) as f32)).collect());
        }
        let mut pid = 0usize;
        for pts in &lists {
            for closed in [false, true] {
                st.inc("polygon_evaluations");
                let r = catch(AssertUnwindSafe(|| {
                    let pg = lyon_path::Polygon { points: &pts[..], closed };
                    let res = |e: IdEvent| -> PathEvent {
                        match e {
                            IdEvent::Begin { at } => Event::Begin { at: pg[at] },
                            IdEvent::Line { from, to } => Event::Line { from: pg[from], to: pg[to] },
                            IdEvent::End { last, first, close } => Event::End { last: pg[last], first: pg[first], close },
                            _ => unreachable!(),
                        }
                    };
                    let own = |e: Event<&Point, ()>| -> PathEvent {
                        match e {
                            Event::Begin { at } => Event::Begin { at: *at },
                            Event::Line { from, to } => Event::Line { from: *from, to: *to },
                            Event::End { last, first, close } => Event::End { last: *last, first: *first, close },
                            _ => unreachable!(),
                        }
                    };
                    let it: Vec<PathEvent> = pg.path_events().collect();
                    let ids: Vec<PathEvent> = pg.id_iter().map(res).collect();
                    let ra: Vec<PathEvent> = if pts.is_empty() { vec![] } else { (0..=pts.len()).map(|i| own(pg.event(lyon_path::EventId(i as u32)))).collect() };
                    (it, ids, ra)
                }));
                let text = format!("polygon {:?} closed {}", pts, closed);
                match r {
                    None => st.fail(jobj(&[("case", format!("{}", pid)), ("program", jstr(&text)), ("what", jstr("a Polygon view panicked"))])),
                    Some((it, ids, ra)) => {
                        writeln!(index, "poly{}\t{}", pid, text)?;
                        pw.push(format!(
                            "(mkPoly {} {} {} {} {} {})",
                            pid,
                            glist(pts.iter().map(|p| gp(*p))),
                            gbool(closed),
                            glist(it.into_iter().map(&ev)),
                            glist(ids.into_iter().map(&ev)),
                            glist(ra.into_iter().map(&ev))
                        ));
                    }
                }
                pid += 1;
            }
        }
        pw.finish()?;
    }
    additional_checks(args, &mut st);
    st.write(&args.out.join("c14_stats.json"))
}
