//! C18: winding number, hit test, signed area, orientation.
//! Lattice polygons x every half-integer query point off the outline: the implementation's
//! answers are printed for the Coq model and compared with an independent integer oracle
//! (cross-product crossing test) and with the angle-sum winding number.
use crate::util::*;
use lyon_algorithms::area::{approximate_signed_area, approximate_sub_path_signed_area};
use lyon_algorithms::hit_test::{hit_test_path, path_winding_number_at_position};
use lyon_algorithms::winding::compute_winding;
use lyon_path::geom::euclid::default::Box2D;
use lyon_path::math::{point, vector, Angle, Point};
use lyon_path::{FillRule, Path, Winding};

pub const HEADER: &str =
    "From Coq Require Import QArith.\nFrom LV Require Import Base.Prelude Model.Bezier Model.Winding Run.C18.\nOpen Scope Q_scope.";

type IP = (i64, i64); // coordinates doubled (so that half-integers are integers)

fn on_segment(p: IP, a: IP, b: IP) -> bool {
    let cr = (b.0 - a.0) * (p.1 - a.1) - (b.1 - a.1) * (p.0 - a.0);
    if cr != 0 {
        return false;
    }
    p.0 >= a.0.min(b.0) && p.0 <= a.0.max(b.0) && p.1 >= a.1.min(b.1) && p.1 <= a.1.max(b.1)
}

fn edges_of(subs: &[Vec<IP>]) -> Vec<(IP, IP)> {
    let mut e = Vec::new();
    for s in subs {
        for i in 0..s.len() {
            e.push((s[i], s[(i + 1) % s.len()]));
        }
    }
    e
}

/// integer oracle, lyon's sign convention: an edge with increasing y left of the point counts +1
fn oracle_winding(p: IP, edges: &[(IP, IP)]) -> i32 {
    let mut w = 0;
    for &(a, b) in edges {
        if a.1 == b.1 {
            continue;
        }
        let (lo, hi, s) = if a.1 < b.1 { (a, b, 1) } else { (b, a, -1) };
        if !(lo.1 <= p.1 && p.1 < hi.1) {
            continue;
        }
        // is the crossing strictly left of p?  orientation of (lo, hi, p)
        let cr = (hi.0 - lo.0) * (p.1 - lo.1) - (hi.1 - lo.1) * (p.0 - lo.0);
        // x_at - p.x has the sign of cr / (hi.y - lo.y) ; hi.y - lo.y > 0
        if cr < 0 {
            w += s;
        }
    }
    w
}

fn angle_turns(p: IP, edges: &[(IP, IP)]) -> i32 {
    let mut total = 0.0f64;
    for &(a, b) in edges {
        let (ax, ay) = ((a.0 - p.0) as f64, (a.1 - p.1) as f64);
        let (bx, by) = ((b.0 - p.0) as f64, (b.1 - p.1) as f64);
        total += (ax * by - ay * bx).atan2(ax * bx + ay * by);
    }
    (total / (2.0 * std::f64::consts::PI)).round() as i32
}

fn build(subs: &[Vec<IP>], close: &[bool]) -> Path {
    let mut b = Path::builder();
    for (s, c) in subs.iter().zip(close.iter()) {
        b.begin(point(s[0].0 as f32 / 2.0, s[0].1 as f32 / 2.0));
        for p in &s[1..] {
            b.line_to(point(p.0 as f32 / 2.0, p.1 as f32 / 2.0));
        }
        b.end(*c);
    }
    b.build()
}

fn gqh(v: i64) -> String {
    // doubled coordinate -> rational
    if v % 2 == 0 {
        format!("({} # 1)", gz_inner(v / 2))
    } else {
        format!("({} # 2)", gz_inner(v))
    }
}
fn gz_inner(v: i64) -> String {
    if v < 0 {
        format!("({})", v)
    } else {
        format!("{}", v)
    }
}
fn gpt(p: IP) -> String {
    format!("({}, {})", gqh(p.0), gqh(p.1))
}

struct Cx<'a> {
    w: &'a mut ShardWriter,
    st: &'a mut Stats,
    idx: &'a mut std::fs::File,
    id: usize,
}

fn run_polygon(cx: &mut Cx, subs: &[Vec<IP>], close: &[bool], lo: i64, hi: i64, stride: usize, origin: &str) {
    use std::io::Write;
    let text = format!("{:?} close={:?}", subs, close);
    let path = match catch(|| build(subs, close)) {
        Some(p) => p,
        None => {
            cx.st.fail(jobj(&[("what", jstr("builder panicked")), ("input", jstr(&text))]));
            return;
        }
    };
    let edges = edges_of(subs);
    // "... which is also exactly where the fill tessellation puts triangles": the same path filled under both rules
    let fills: Vec<Option<Vec<[(f64, f64); 3]>>> = [FillRule::EvenOdd, FillRule::NonZero]
        .iter()
        .map(|rule| {
            catch(std::panic::AssertUnwindSafe(|| {
                use lyon_tessellation::geometry_builder::{BuffersBuilder, Positions, VertexBuffers};
                let mut buffers: VertexBuffers<Point, u32> = VertexBuffers::new();
                let ok = lyon_tessellation::FillTessellator::new()
                    .tessellate_path(&path, &lyon_tessellation::FillOptions::tolerance(0.1).with_fill_rule(*rule), &mut BuffersBuilder::new(&mut buffers, Positions))
                    .is_ok();
                if !ok {
                    return None;
                }
                Some(
                    buffers
                        .indices
                        .chunks(3)
                        .map(|t| {
                            let f = |i: u32| (buffers.vertices[i as usize].x as f64, buffers.vertices[i as usize].y as f64);
                            [f(t[0]), f(t[1]), f(t[2])]
                        })
                        .collect::<Vec<_>>(),
                )
            }))
            .flatten()
        })
        .collect();
    // signed distance-like containment: > 0 strictly inside some triangle by that margin, < 0 outside all of them
    let depth = |tris: &[[(f64, f64); 3]], p: (f64, f64)| -> f64 {
        let mut best = f64::MIN;
        for t in tris {
            let area2 = (t[1].0 - t[0].0) * (t[2].1 - t[0].1) - (t[1].1 - t[0].1) * (t[2].0 - t[0].0);
            if area2 == 0.0 {
                continue;
            }
            let sgn = area2.signum();
            let mut d = f64::MAX;
            for k in 0..3 {
                let (a, b) = (t[k], t[(k + 1) % 3]);
                let l = ((b.0 - a.0).powi(2) + (b.1 - a.1).powi(2)).sqrt();
                d = d.min(sgn * ((b.0 - a.0) * (p.1 - a.1) - (b.1 - a.1) * (p.0 - a.0)) / l);
            }
            best = best.max(d);
        }
        best
    };
    let mut queries = Vec::new();
    let mut nq = 0usize;
    let mut nonzero = false;
    let mut k = cx.id; // rotate which points are skipped when stride > 1
    for qy in lo..=hi {
        for qx in lo..=hi {
            k += 1;
            if stride > 1 && k % stride != 0 {
                continue;
            }
            let p = (qx, qy);
            if edges.iter().any(|&(a, b)| on_segment(p, a, b)) {
                cx.st.inc("query_points_on_outline_skipped");
                continue;
            }
            let fp = point(qx as f32 / 2.0, qy as f32 / 2.0);
            let r = catch(|| {
                (
                    path_winding_number_at_position(&fp, path.iter(), 0.1),
                    hit_test_path(&fp, path.iter(), FillRule::EvenOdd, 0.1),
                    hit_test_path(&fp, path.iter(), FillRule::NonZero, 0.1),
                )
            });
            let (w, eo, nz) = match r {
                Some(x) => x,
                None => {
                    cx.st.fail(jobj(&[("what", jstr("hit test panicked")), ("input", jstr(&format!("{} at {:?}", text, fp)))]));
                    continue;
                }
            };
            nq += 1;
            if w != 0 {
                nonzero = true;
            }
            let ow = oracle_winding(p, &edges);
            if w != ow {
                cx.st.fail(jobj(&[
                    ("what", jstr("winding number differs from the signed crossing count")),
                    ("input", jstr(&format!("{} at {:?}: reported {} expected {}", text, fp, w, ow))),
                ]));
            }
            let turns = angle_turns(p, &edges);
            if turns != -w {
                cx.st.fail(jobj(&[
                    ("what", jstr("winding number is not the number of signed turns around the point")),
                    ("input", jstr(&format!("{} at {:?}: reported {} turns {}", text, fp, w, turns))),
                ]));
            }
            if eo != (w % 2 != 0) || nz != (w != 0) {
                cx.st.fail(jobj(&[("what", jstr("hit test is not the fill rule applied to the winding number")), ("input", jstr(&format!("{} at {:?}", text, fp)))]));
            }
            // FillRule::is_in / is_out: the evaluation of the rule that the tessellator shares
            if FillRule::EvenOdd.is_in(w as i16) != eo || FillRule::NonZero.is_in(w as i16) != nz || FillRule::EvenOdd.is_out(w as i16) == eo || FillRule::NonZero.is_out(w as i16) == nz {
                cx.st.fail(jobj(&[("what", jstr("FillRule::is_in / is_out disagree with the hit test")), ("input", jstr(&format!("{} at {:?}: winding {}", text, fp, w)))]));
            }
            // the fill covers the point exactly when the hit test says so (the point is off the outline; points within
            // 1e-3 of a triangle edge are not judged)
            for (k, hit) in [eo, nz].iter().enumerate() {
                if let Some(tris) = &fills[k] {
                    let d = depth(tris, (fp.x as f64, fp.y as f64));
                    if (*hit && d < -1e-3) || (!*hit && d > 1e-3) {
                        cx.st.fail(jobj(&[("what", jstr("the fill tessellation does not put triangles exactly where the hit test is true")), ("input", jstr(&format!("{} at {:?}: {} hit {} depth {}", text, fp, if k == 0 { "EvenOdd" } else { "NonZero" }, hit, d)))]));
                    }
                }
            }
            queries.push(format!("({}, {}%Z, {}, {})", gpt(p), gz(w as i64), gbool(eo), gbool(nz)));
        }
    }
    // areas and windings per sub-path
    let mut areas = Vec::new();
    let mut winds = Vec::new();
    {
        let mut it = path.iter();
        while let Some(a) = approximate_sub_path_signed_area(0.1, &mut it) {
            areas.push(a);
        }
        let mut it = path.iter();
        while let Some(w) = compute_winding(&mut it) {
            winds.push(if w == Winding::Positive { 1 } else { 0 });
        }
    }
    // the iterator form yields the same windings, one per sub-path
    {
        let via_iter: Vec<i32> = lyon_algorithms::winding::Windings(path.iter()).map(|w| if w == Winding::Positive { 1 } else { 0 }).collect();
        if via_iter != winds || via_iter.len() != subs.len() {
            cx.st.fail(jobj(&[("what", jstr("the Windings iterator differs from calling compute_winding per sub-path")), ("input", jstr(&format!("{}: {:?} vs {:?}", text, via_iter, winds)))]));
        }
    }
    // direct: shoelace in integers (quadrupled area because coordinates are doubled)
    for (i, s) in subs.iter().enumerate() {
        let mut sh = 0i64;
        for j in 0..s.len() {
            let (a, b) = (s[j], s[(j + 1) % s.len()]);
            sh += a.0 * b.1 - b.0 * a.1;
        }
        let want = sh as f32 / 8.0;
        if areas.get(i).copied() != Some(want) {
            cx.st.fail(jobj(&[("what", jstr("signed area differs from the shoelace sum")), ("input", jstr(&format!("{} sub-path {}: {:?} vs {}", text, i, areas.get(i), want)))]));
        }
        if winds.get(i).copied() != Some(if sh > 0 { 1 } else { 0 }) {
            cx.st.fail(jobj(&[("what", jstr("compute_winding is not the sign of the area")), ("input", jstr(&format!("{} sub-path {}", text, i)))]));
        }
    }
    // reversed path negates the area
    let rev: Path = path.reversed().collect();
    let (a, ra) = (approximate_signed_area(0.1, path.iter()), approximate_signed_area(0.1, rev.iter()));
    if a != -ra {
        cx.st.fail(jobj(&[("what", jstr("area of the reversed path is not the negated area")), ("input", jstr(&format!("{}: {} vs {}", text, a, ra)))]));
    }
    cx.st.inc("evaluations");
    cx.st.add("queries", nq as u64);
    cx.st.inc(&format!("origin_{}", origin));
    cx.st.note_case(&text, nonzero);
    cx.st.sample(format!("{} -> areas {:?}, {} query points", text, areas, nq));
    writeln!(cx.idx, "{}\t{}", cx.id, text).ok();
    let gpath = glist(subs.iter().map(|s| format!("({}, {})", gpt(s[0]), glist(s[1..].iter().map(|p| gpt(*p))))));
    cx.w.push(format!(
        "(mkW {} {} {} {} [{}]%Z)",
        cx.id,
        gpath,
        glist(queries),
        glist(areas.iter().map(|a| gq32(*a))),
        winds.iter().map(|w| format!("{}", w)).collect::<Vec<_>>().join("; ")
    ));
    cx.id += 1;
}

fn curved_and_shapes(args: &Args, st: &mut Stats) {
    let mut rng = Rng::new(args.seed ^ 0x18);
    let n = if args.thorough() { 4000 } else { 500 };
    for _ in 0..n {
        let r = &mut rng;
        // shape helpers: the requested winding is the reported one, and the area has that sign
        let want = if r.chance(1, 2) { Winding::Positive } else { Winding::Negative };
        let c = point(r.range(-20, 20) as f32, r.range(-20, 20) as f32);
        let (rx, ry) = (1.0 + r.range(0, 30) as f32 * 0.5, 1.0 + r.range(0, 30) as f32 * 0.5);
        let which = r.below(4);
        let path = {
            let mut b = Path::builder();
            match which {
                0 => b.add_rectangle(&Box2D { min: c, max: c + vector(rx, ry) }, want),
                1 => b.add_circle(c, rx, want),
                2 => b.add_ellipse(c, vector(rx, ry), Angle::radians(r.unit_f64() as f32 * 3.0), want),
                _ => b.add_rounded_rectangle(
                    &Box2D { min: c, max: c + vector(rx + 4.0, ry + 4.0) },
                    &lyon_path::builder::BorderRadii::new(1.0 + r.below(3) as f32 * 0.5),
                    want,
                ),
            }
            b.build()
        };
        st.inc("evaluations");
        st.inc("shape_helpers");
        st.note_case(&format!("shape {} {:?} {} {} {:?}", which, c, rx, ry, want), true);
        let got = compute_winding(&mut path.iter());
        let area = approximate_signed_area(0.01, path.iter());
        if got != Some(want) || (area > 0.0) != (want == Winding::Positive) {
            st.fail(jobj(&[("what", jstr("shape helper: reported winding / area sign differs from the requested winding")), ("input", jstr(&format!("shape {} at {:?} r=({}, {}) want {:?} got {:?} area {}", which, c, rx, ry, want, got, area)))]));
        }
        // the centre of the shape is inside under both rules, a far point is outside
        let centre = match which {
            0 => c + vector(rx, ry) * 0.5,
            3 => c + vector(rx + 4.0, ry + 4.0) * 0.5,
            _ => c,
        };
        for rule in [FillRule::EvenOdd, FillRule::NonZero] {
            if !hit_test_path(&centre, path.iter(), rule, 0.01) || hit_test_path(&(c + vector(1000.0, 3.0)), path.iter(), rule, 0.01) {
                st.fail(jobj(&[("what", jstr("shape helper: hit test wrong at the centre / far away")), ("input", jstr(&format!("shape {} at {:?} r=({}, {})", which, c, rx, ry)))]));
            }
        }
        // star-shaped closed paths made of cubics / quadratics / lines around a centre, in either direction: the
        // area has the sign of the direction, compute_winding reports it, reversing the path flips both
        {
            let k = 3 + r.below(4) as usize;
            let ccw = r.chance(1, 2);
            let rad = 5.0 + r.below(20) as f32;
            let ctr = point(r.range(-20, 20) as f32, r.range(-20, 20) as f32);
            let at = |ang: f32, rr: f32| ctr + vector(ang.cos(), ang.sin()) * rr;
            let dir = if ccw { 1.0f32 } else { -1.0 };
            let step = dir * std::f32::consts::TAU / k as f32;
            let a0 = r.unit_f64() as f32 * 6.0;
            let mut b = Path::builder();
            b.begin(at(a0, rad));
            let mut kinds = Vec::new();
            for i in 0..k {
                let (s, e) = (a0 + step * i as f32, a0 + step * (i + 1) as f32);
                let rr = |r: &mut Rng| rad * (0.7 + 0.6 * r.unit_f64() as f32);
                let end = if i + 1 == k { at(a0, rad) } else { at(e, rad) };
                match r.below(3) {
                    0 => {
                        b.cubic_bezier_to(at(s + step / 3.0, rr(r)), at(s + 2.0 * step / 3.0, rr(r)), end);
                        kinds.push('C');
                    }
                    1 => {
                        b.quadratic_bezier_to(at(s + step / 2.0, rr(r)), end);
                        kinds.push('Q');
                    }
                    _ => {
                        b.line_to(end);
                        kinds.push('L');
                    }
                }
            }
            b.end(true);
            let p = b.build();
            let rev: Path = p.reversed().collect();
            st.inc("evaluations");
            st.inc("star_shaped_curved_paths");
            let label = format!("star-shaped {:?} around {:?} radius {} {} :: {:?}", kinds, ctr, rad, if ccw { "ccw" } else { "cw" }, p);
            st.note_case(&label, true);
            let res = catch(|| (compute_winding(&mut p.iter()), approximate_signed_area(0.01, p.iter()), compute_winding(&mut rev.iter()), approximate_signed_area(0.01, rev.iter())));
            match res {
                None => st.fail(jobj(&[("what", jstr("compute_winding / signed area panicked")), ("input", jstr(&label))])),
                Some((w, a, rw, ra)) => {
                    // y grows downwards in lyon's convention: Positive = increasing angle in these coordinates
                    let want = if ccw { Winding::Positive } else { Winding::Negative };
                    if (a > 0.0) != ccw || a.abs() < 0.2 * rad * rad {
                        st.fail(jobj(&[("what", jstr("signed area of a star-shaped curved path has the wrong sign or magnitude")), ("input", jstr(&format!("area {} :: {}", a, label)))]));
                    }
                    if w != Some(want) {
                        st.fail(jobj(&[("what", jstr("compute_winding of a star-shaped curved path is not its direction")), ("input", jstr(&format!("{:?} :: {}", w, label)))]));
                    }
                    if rw == w || (ra > 0.0) == (a > 0.0) || (ra + a).abs() > 1e-2 * a.abs() {
                        st.fail(jobj(&[("what", jstr("reversing a curved path does not flip its winding / negate its area")), ("input", jstr(&format!("{:?}/{} vs {:?}/{} :: {}", w, a, rw, ra, label)))]));
                    }
                }
            }
        }
        // crescents: two cubic arcs over the same chord, bulging to the same side by different amounts; thin shapes
        // whose direction is decided by the curves, not by their end points (own shoelace area on dense samples)
        {
            use lyon_path::geom::CubicBezierSegment;
            let (x0, y0) = (r.range(-20, 20) as f32, r.range(-20, 20) as f32);
            let wd = 20.0 + r.below(100) as f32;
            let (h1, mut h2) = (10.0 + r.below(70) as f32, 10.0 + r.below(70) as f32);
            if (h1 - h2).abs() < 3.0 {
                h2 = h1 + 6.0;
            }
            let up = if r.chance(1, 2) { -1.0f32 } else { 1.0 };
            let c1 = CubicBezierSegment { from: point(x0, y0), ctrl1: point(x0, y0 + up * h1), ctrl2: point(x0 + wd, y0 + up * h1), to: point(x0 + wd, y0) };
            let c2 = CubicBezierSegment { from: point(x0 + wd, y0), ctrl1: point(x0 + wd, y0 + up * h2), ctrl2: point(x0, y0 + up * h2), to: point(x0, y0) };
            let mut b = Path::builder();
            b.begin(c1.from);
            b.cubic_bezier_to(c1.ctrl1, c1.ctrl2, c1.to);
            b.cubic_bezier_to(c2.ctrl1, c2.ctrl2, c2.to);
            b.end(true);
            let p = b.build();
            let rev: Path = p.reversed().collect();
            let mut pts: Vec<(f64, f64)> = Vec::new();
            for c in [&c1, &c2] {
                for i in 0..256 {
                    let q = c.sample(i as f32 / 256.0);
                    pts.push((q.x as f64, q.y as f64));
                }
            }
            let mut area2 = 0.0f64;
            for i in 0..pts.len() {
                let (a, bq) = (pts[i], pts[(i + 1) % pts.len()]);
                area2 += a.0 * bq.1 - bq.0 * a.1;
            }
            st.inc("evaluations");
            st.inc("crescents");
            let label = format!("crescent {:?}", p);
            st.note_case(&label, true);
            match catch(|| (compute_winding(&mut p.iter()), approximate_signed_area(0.01, p.iter()), compute_winding(&mut rev.iter()))) {
                None => st.fail(jobj(&[("what", jstr("compute_winding / signed area panicked")), ("input", jstr(&label))])),
                Some((w, a, rw)) => {
                    let want = if area2 > 0.0 { Winding::Positive } else { Winding::Negative };
                    if (a as f64 - area2 / 2.0).abs() > 0.02 * (area2 / 2.0).abs() + 0.5 {
                        st.fail(jobj(&[("what", jstr("signed area of a crescent differs from the area of its dense sampling")), ("input", jstr(&format!("{} vs {} :: {}", a, area2 / 2.0, label)))]));
                    }
                    if w != Some(want) {
                        st.fail(jobj(&[("what", jstr("compute_winding of a crescent is not the sign of its area")), ("input", jstr(&format!("{:?}, area {} :: {}", w, area2 / 2.0, label)))]));
                    }
                    if rw == w {
                        st.fail(jobj(&[("what", jstr("reversing a crescent does not flip its winding")), ("input", jstr(&label))]));
                    }
                }
            }
        }
        // curved path: winding at points away from the outline equals the winding of a fine flattening
        let mut b = Path::builder();
        let g = |r: &mut Rng| point(r.range(-10, 10) as f32, r.range(-10, 10) as f32);
        b.begin(g(r));
        for _ in 0..(1 + r.below(3)) {
            if r.chance(1, 2) {
                b.quadratic_bezier_to(g(r), g(r));
            } else {
                b.cubic_bezier_to(g(r), g(r), g(r));
            }
        }
        b.end(r.chance(1, 2));
        let path = b.build();
        let tol = 0.05f32;
        let fine: Vec<(f64, f64)> = {
            let mut v = Vec::new();
            for e in lyon_path::iterator::PathIterator::flattened(path.iter(), 0.001) {
                match e {
                    lyon_path::PathEvent::Begin { at } => v.push((at.x as f64, at.y as f64)),
                    lyon_path::PathEvent::Line { to, .. } => v.push((to.x as f64, to.y as f64)),
                    _ => {}
                }
            }
            v
        };
        st.inc("curved_paths");
        for _ in 0..8 {
            let q = point(r.range(-20, 20) as f32 * 0.5 + 0.25, r.range(-20, 20) as f32 * 0.5 + 0.125);
            // distance to the fine polyline
            let mut dmin = f64::MAX;
            for i in 0..fine.len() {
                let (a, b) = (fine[i], fine[(i + 1) % fine.len()]);
                let (vx, vy) = (b.0 - a.0, b.1 - a.1);
                let (wx, wy) = (q.x as f64 - a.0, q.y as f64 - a.1);
                let l2 = vx * vx + vy * vy;
                let t = if l2 > 0.0 { ((wx * vx + wy * vy) / l2).max(0.0).min(1.0) } else { 0.0 };
                let (dx, dy) = (wx - t * vx, wy - t * vy);
                dmin = dmin.min((dx * dx + dy * dy).sqrt());
            }
            if dmin < 4.0 * tol as f64 {
                continue;
            }
            // crossing count on the fine polyline, f64
            let mut w = 0;
            for i in 0..fine.len() {
                let (a, b) = (fine[i], fine[(i + 1) % fine.len()]);
                if a.1 == b.1 {
                    continue;
                }
                let (lo, hi, s) = if a.1 < b.1 { (a, b, 1) } else { (b, a, -1) };
                let py = q.y as f64;
                if lo.1 <= py && py < hi.1 {
                    let x = lo.0 + (py - lo.1) * (hi.0 - lo.0) / (hi.1 - lo.1);
                    if x < q.x as f64 {
                        w += s;
                    }
                }
            }
            let got = path_winding_number_at_position(&q, path.iter(), tol);
            st.inc("curved_queries");
            if got != w {
                st.fail(jobj(&[("what", jstr("curved path: winding number differs from that of a fine flattening, away from the outline")), ("input", jstr(&format!("{:?} at {:?}: {} vs {}", path, q, got, w)))]));
            }
        }
    }
}

pub fn main(args: &Args) -> std::io::Result<()> {
    let mut st = Stats::default();
    let mut w = ShardWriter::new(&args.out, "c18_cases", args.shards, HEADER, "bad_cases");
    w.disabled = args.direct_only();
    let mut idx = std::fs::File::create(args.out.join("c18_index.txt"))?;
    let mut cx = Cx { w: &mut w, st: &mut st, idx: &mut idx, id: 0 };
    let g: i64 = if args.thorough() { 4 } else { 3 };
    // exhaustive: every closed polygon with 3 or 4 vertices on the g x g lattice (doubled coordinates 0,2,..)
    let n = g * g;
    let pt = |k: i64| -> IP { ((k / g) * 2, (k % g) * 2) };
    let stride = if args.thorough() { 3 } else { 1 };
    for a in 0..n {
        for b in 0..n {
            for c in 0..n {
                run_polygon(&mut cx, &[vec![pt(a), pt(b), pt(c)]], &[true], -1, 2 * g - 1, stride, "exhaustive3");
                for d in 0..n {
                    run_polygon(&mut cx, &[vec![pt(a), pt(b), pt(c), pt(d)]], &[true], -1, 2 * g - 1, stride * 2, "exhaustive4");
                }
            }
        }
    }
    cx.st.add("exhaustive_lattice_side", g as u64);
    // random multi-sub-path paths, open sub-paths (implicitly closed), up to 12 vertices
    let mut rng = Rng::new(args.seed);
    for _ in 0..(if args.thorough() { 3000 } else { 300 }) {
        let nsub = 1 + rng.below(3) as usize;
        let mut subs = Vec::new();
        let mut close = Vec::new();
        for _ in 0..nsub {
            let k = 1 + rng.below(6) as usize;
            subs.push((0..k).map(|_| (rng.range(0, 5) * 2, rng.range(0, 5) * 2)).collect::<Vec<IP>>());
            close.push(rng.chance(1, 2));
        }
        run_polygon(&mut cx, &subs, &close, -1, 11, 2, "random");
    }
    drop(cx);
    curved_and_shapes(args, &mut st);
    w.finish()?;
    st.write(&args.out.join("c18_stats.json"))
}
