//! C18: winding number, hit test, signed area, orientation.
//! Lattice polygons x every half-integer query point off the outline: the implementation's
//! answers are printed for the Coq model and compared with an independent integer oracle
//! (cross-product crossing test) and with the angle-sum winding number.
use crate::util::*;
use lyon_algorithms::area::{approximate_signed_area, approximate_sub_path_signed_area};
use lyon_algorithms::hit_test::{hit_test_path, path_winding_number_at_position};
use lyon_algorithms::winding::compute_winding;
use lyon_path::geom::euclid::default::Box2D;
use lyon_path::math::{point, vector, Angle, Point};
use lyon_path::{FillRule, Path, Winding};

pub const HEADER: &str =
    "From Coq Require Import QArith.\nFrom LV Require Import Base.Prelude Model.Bezier Model.Winding Run.C18.\nOpen Scope Q_scope.";

type IP = (i64, i64); // coordinates doubled (so that half-integers are integers)

fn on_segment(p: IP, a: IP, b: IP) -> bool {
    let cr = (b.0 - a.0) * (p.1 - a.1) - (b.1 - a.1) * (p.0 - a.0);
    if cr != 0 {
        return false;
    }
    p.0 >= a.0.min(b.0) && p.0 <= a.0.max(b.0) && p.1 >= a.1.min(b.1) && p.1 <= a.1.max(b.1)
}

fn edges_of(subs: &[Vec<IP>]) -> Vec<(IP, IP)> {
    let mut e = Vec::new();
    for s in subs {
        for i in 0..s.len() {
            e.push((s[i], s[(i + 1) % s.len()]));
        }
    }
    e
}

/// integer oracle, lyon's sign convention: an edge with increasing y left of the point counts +1
fn oracle_winding(p: IP, edges: &[(IP, IP)]) -> i32 {
    let mut w = 0;
    for &(a, b) in edges {
        if a.1 == b.1 {
            continue;
        }
        let (lo, hi, s) = if a.1 < b.1 { (a, b, 1) } else { (b, a, -1) };
        if !(lo.1 <= p.1 && p.1 < hi.1) {
            continue;
        }
        // is the crossing strictly left of p?  orientation of (lo, hi, p)
        let cr = (hi.0 - lo.0) * (p.1 - lo.1) - (hi.1 - lo.1) * (p.0 - lo.0);
        // x_at - p.x has the sign of cr / (hi.y - lo.y) ; hi.y - lo.y > 0
        if cr < 0 {
            w += s;
        }
    }
    w
}

fn angle_turns(p: IP, edges: &[(IP, IP)]) -> i32 {
    let mut total = 0.0f64;
    for &(a, b) in edges {
        let (ax, ay) = ((a.0 - p.0) as f64, (a.1 - p.1) as f64);
        let (bx, by) = ((b.0 - p.0) as f64, (b.1 - p.1) as f64);
        total += (ax * by - ay * bx).atan2(ax * bx + ay * by);
    }
    (total / (2.0 * std::f64::consts::PI)).round() as i32
}

fn build(subs: &[Vec<IP>], close: &[bool]) -> Path {
    let mut b = Path::builder();
    for (s, c) in subs.iter().zip(close.iter()) {
        b.begin(point(s[0].0 as f32 / 2.0, s[0].1 as f32 / 2.0));
        for p in &s[1..] {
            b.line_to(point(p.0 as f32 / 2.0, p.1 as f32 / 2.0));
        }
        b.end(*c);
    }
    b.build()
}

fn gqh(v: i64) -> String {
    // doubled coordinate -> rational
    if v % 2 == 0 {
        format!("({} # 1)", gz_inner(v / 2))
    } else {
        format!("({} # 2)", gz_inner(v))
    }
}
fn gz_inner(v: i64) -> String {
    if v < 0 {
        format!("({})", v)
    } else {
        format!("{}", v)
    }
}
fn gpt(p: IP) -> String {
    format!("({}, {})", gqh(p.0), gqh(p.1))
}

struct Cx<'a> {
    w: &'a mut ShardWriter,
    st: &'a mut Stats,
    idx: &'a mut std::fs::File,
    id: usize,
}

fn run_polygon(cx: &mut Cx, subs: &[Vec<IP>], close: &[bool], lo: i64, hi: i64, stride: usize, origin: &str) {
    use std::io::Write;
    let text = format!("{:?} close={:?}", subs, close);
    let path = match catch(|| build(subs, close)) {
        Some(p) => p,
        None => {
            cx.st.fail(jobj(&[("what", jstr("builder panicked")), ("input", jstr(&text))]));
            return;
        }
    };
    let edges = edges_of(subs);
    // "... which is also exactly where the fill tessellation puts triangles": the same path filled under both rules
    let fills: Vec<Option<Vec<[(f64, f64); 3]>>> = [FillRule::EvenOdd, FillRule::NonZero]
        .iter()
        .map(|rule| {
            catch(std::panic::AssertUnwindSafe(|| {
                use lyon_tessellation::geometry_builder::{BuffersBuilder, Positions, VertexBuffers};
                let mut buffers: VertexBuffers<Point, u32> = VertexBuffers::new();
                let ok = lyon_tessellation::FillTessellator::new()
                    .tessellate_path(&path, &lyon_tessellation::FillOptions::tolerance(0.1).with_fill_rule(*rule), &mut BuffersBuilder::new(&mut buffers, Positions))
                    .is_ok();
                if !ok {
                    return None;
                }
                Some(
                    buffers
                        .indices
                        .chunks(3)
                        .map(|t| {
                            let f = |i: u32| (buffers.vertices[i as usize].x as f64, buffers.vertices[i as usize].y as f64);
                            [f(t[0]), f(t[1]), f(t[2])]
                        })
                        .collect::<Vec<_>>(),
                )
            }))
            .flatten()
        })
        .collect();
    // signed distance-like containment: > 0 strictly inside some triangle by that margin, < 0 outside all of them
    let depth = |tris: &[[(f64, f64); 3]], p: (f64, f64)| -> f64 {
        let mut best = f64::MIN;
        for t in tris {
            let area2 = (t[1].0 - t[0].0) * (t[2].1 - t[0].1) - (t[1].1 - t[0].1) * (t[2].0 - t[0].0);
            if area2 == 0.0 {
                continue;
            }
            let sgn = area2.signum();
            let mut d = f64::MAX;
            for k in 0..3 {
                let (a, b) = (t[k], t[(k + 1) % 3]);
                let l = ((b.0 - a.0).powi(2) + (b.1 - a.1).powi(2)).sqrt();
                d = d.min(sgn * ((b.0 - a.0) * (p.1 - a.1) - (b.1 - a.1) * (p.0 - a.0)) / l);
            }
            best = best.max(d);
        }
        best
    };
    let mut queries = Vec::new();
    let mut nq = 0usize;
    let mut nonzero = false;
    let mut k = cx.id; // rotate which points are skipped when stride > 1
    for qy in lo..=hi {
        for qx in lo..=hi {
            k += 1;
            if stride > 1 && k % stride != 0 {
                continue;
            }
            let p = (qx, qy);
            if edges.iter().any(|&(a, b)| on_segment(p, a, b)) {
                cx.st.inc("query_points_on_outline_skipped");
                continue;
            }
            let fp = point(qx as f32 / 2.0, qy as f32 / 2.0);
            let r = catch(|| {
                (
                    path_winding_number_at_position(&fp, path.iter(), 0.1),
                    hit_test_path(&fp, path.iter(), FillRule::EvenOdd, 0.1),
                    hit_test_path(&fp, path.iter(), FillRule::NonZero, 0.1),
                )
            });
            let (w, eo, nz) = match r {
                Some(x) => x,
                None => {
                    cx.st.fail(jobj(&[("what", jstr("hit test panicked")), ("input", jstr(&format!("{} at {:?}", text, fp)))]));
                    continue;
                }
            };
            nq += 1;
            if w != 0 {
                nonzero = true;
            }
            let ow = oracle_winding(p, &edges);
            if w != ow {
                cx.st.fail(jobj(&[
                    ("what", jstr("winding number differs from the signed crossing count")),
                    ("input", jstr(&format!("{} at {:?}: reported {} expected {}", text, fp, w, ow))),
                ]));
            }
            let turns = angle_turns(p, &edges);
            if turns != -w {
                cx.st.fail(jobj(&[
                    ("what", jstr("winding number is not the number of signed turns around the point")),
                    ("input", jstr(&format!("{} at {:?}: reported {} turns {}", text, fp, w, turns))),
                ]));
            }
            if eo != (w % 2 != 0) || nz != (w != 0) {
                cx.st.fail(jobj(&[("what", jstr("hit test is not the fill rule applied to the winding number")), ("input", jstr(&format!("{} at {:?}", text, fp)))]));
            }
            // FillRule::is_in / is_out: the evaluation of the rule that the tessellator shares
            if FillRule::EvenOdd.is_in(w as i16) != eo || FillRule::NonZero.is_in(w as i16) != nz || FillRule::EvenOdd.is_out(w as i16) == eo || FillRule::NonZero.is_out(w as i16) == nz {
                cx.st.fail(jobj(&[("what", jstr("FillRule::is_in / is_out disagree with the hit test")), ("input", jstr(&format!("{} at {:?}: winding {}", text, fp, w)))]));
            }
            // the fill covers the point exactly when the hit test says so (the point is off the outline; points within
            // 1e-3 of a triangle edge are not judged)
            for (k, hit) in [eo, nz].iter().enumerate() {
                if let Some(tris) = &fills[k] {
                    let d = depth(tris, (fp.x as f64, fp.y as f64));
                    if (*hit && d < -1e-3) || (!*hit && d > 1e-3) {
                        cx.st.fail(jobj(&[("what", jstr("the fill tessellation does not put triangles exactly where the hit test is true")), ("input", jstr(&format!("{} at {:?}: {} hit {} depth {}", text, fp, if k == 0 { "EvenOdd" } else { "NonZero" }, hit, d)))]));
                    }
                }
            }
            queries.push(format!("({}, {}%Z, {}, {})", gpt(p), gz(w as i64), gbool(eo), gbool(nz)));
        }
    }
    // areas and windings per sub-path
    let mut areas = Vec::new();
    let mut winds = Vec::new();
    {
        let mut it = path.iter();
        while let Some(a) = approximate_sub_path_signed_area(0.1, &mut it) {
            areas.push(a);
        }
        let mut it = path.iter();
        while let Some(w) = compute_winding(&mut it) {
            winds.push(if w == Winding::Positive { 1 } else { 0 });
        }
    }
    // the iterator form yields the same windings, one per sub-path
    {
        let via_iter: Vec<i32> = lyon_algorithms::winding::Windings(path.iter()).map(|w| if w == Winding::Positive { 1 } else { 0 }).collect();
        if via_iter != winds || via_iter.len() != subs.len() {
            cx.st.fail(jobj(&[("what", jstr("the Windings iterator differs from calling compute_winding per sub-path")), ("input", jstr(&format!("{}: {:?} vs {:?}", text, via_iter, winds)))]));
        }
    }
    // direct: shoelace in integers (quadrupled area because coordinates are doubled)
    for (i, s) in subs.iter().enumerate() {
        let mut sh = 0i64;
        for j in 0..s.len() {
            let (a, b) = (s[j], s[(j + 1) % s.len()]);
            sh += a.0 * b.1 - b.0 * a.1;
        }
        let want = sh as f32 / 8.0;
        if areas.get(i).copied() != Some(want) {
            cx.st.fail(jobj(&[("what", jstr("signed area differs from the shoelace sum")), ("input", jstr(&format!("{} sub-path {}: {:?} vs {}", text, i, areas.get(i), want)))]));
        }
        if winds.get(i).copied() != Some(if sh > 0 { 1 } else { 0 }) {
            cx.st.fail(jobj(&[("what", jstr("compute_winding is not the sign of the area")), ("input", jstr(&format!("{} sub-path {}", text, i)))]));
        }
    }
    // reversed path negates the area
    let rev: Path = path.reversed().collect();
    let (a, ra) = (approximate_signed_area(0.1, path.iter()), approximate_signed_area(0.1, rev.iter()));
    if a != -ra {
        cx.st.fail(jobj(&[("what", jstr("area of the reversed path is not the negated area")), ("input", jstr(&format!("{}: {} vs {}", text, a, ra)))]));
    }
    cx.st.inc("evaluations");
    cx.st.add("queries", nq as u64);
    cx.st.inc(&format!("origin_{}", origin));
    cx.st.note_case(&text, nonzero);
    cx.st.sample(format!("{} -> areas {:?}, {} query points", text, areas, nq));
    writeln!(cx.idx, "{}\t{}", cx.id, text).ok();
    let gpath = glist(subs.iter().map(|s| format!("({}, {})", gpt(s[0]), glist(s[1..].iter().map(|p| gpt(*p))))));
    cx.w.push(format!(
        "(mkW {} {} {} {} [{}]%Z)",
        cx.id,
        gpath,
        glist(queries),
        glist(areas.iter().map(|a| gq32(*a))),
        winds.iter().map(|w| format!("{}", w)).collect::<Vec<_>>().join("; ")
    ));
    cx.id += 1;
}

fn curved_and_shapes(args: &Args, st: &mut Stats) {
    let mut rng = Rng::new(args.seed ^ 0x18);
    let n = if args.thorough() { 4000 } else { 500 };
    for _ in 0..n {
        let r = &mut rng;
        // shape helpers: the requested winding is the reported one, and the area has that sign
        let want = if r.chance(1, 2) { Winding::Positive } else { Winding::Negative };
        let c = point(r.range(-20, 20) as f32, r.range(-20, 20) as f32);
        let (rx, ry) = (1.0 + r.range(0, 30) as f32 * 0.5, 1.0 + r.range(0, 30) as f32 * 0.5);
        let which = r.below(4);
        let path = {
            let mut b = Path::builder();
            match which {
                0 => b.add_rectangle(&Box2D { min: c, max: c + vector(rx, ry) }, want),
                1 => b.add_circle(c, rx, want),
                2 => b.add_ellipse(c, vector(rx, ry), Angle::radians(r.unit_f64() as f32 * 3.0), want),
                _ => b.add_rounded_rectangle(
                    &Box2D { min: c, max: c + vector(rx + 4.0, ry + 4.0) },
                    &lyon_path::builder::BorderRadii::new(1.0 + r.below(3) as f32 * 0.5),
                    want,
                ),
            }
            b.build()
        };
        st.inc("evaluations");
        st.inc("shape_helpers");
        st.note_case(&format!("shape {} {:?} {} {} {:?}", which, c, rx, ry, want), true);
        let got = compute_winding(&mut path.iter());
        let area = approximate_signed_area(0.01, path.iter());
        if got != Some(want) || (area > 0.0) != (want == Winding::Positive) {
            st.fail(jobj(&[("what", jstr("shape helper: reported winding / area sign differs from the requested winding")), ("input", jstr(&format!("shape {} at {:?} r=({}, {}) want {:?} got {:?} area {}", which, c, rx, ry, want, got, area)))]));
        }
        // the centre of the shape is inside under both rules, a far point is outside
        let centre = match which {
            0 => c + vector(rx, ry) * 0.5,
            3 => c + vector(rx + 4.0, ry + 4.0) * 0.5,
            _ => c,
        };
        for rule in [FillRule::EvenOdd, FillRule::NonZero] {
            if !hit_test_path(&centre, path.iter(), rule, 0.01) || hit_test_path(&(c + vector(1000.0, 3.0)), path.iter(), rule, 0.01) {
                st.fail(jobj(&[("what", jstr("shape helper: hit test wrong at the centre / far away")), ("input", jstr(&format!("shape {} at {:?} r=({}, {})", which, c, rx, ry)))]));
            }
        }
        // star-shaped closed paths made of cubics / quadratics / lines around a centre, in either direction: the
        // area has the sign of the direction, compute_winding reports it, reversing the path flips both
        {
            let k = 3 + r.below(4) as usize;
            let ccw = r.chance(1, 2);
            let rad = 5.0 + r.below(20) as f32;
            let ctr = point(r.range(-20, 20) as f32, r.range(-20, 20) as f32);
            let at = |ang: f32, rr: f32| ctr + vector(ang.cos(), ang.sin()) * rr;
            let dir = if ccw { 1.0f32 } else { -1.0 };
            let step = dir * std::f32::consts::TAU / k as f32;
            let a0 = r.unit_f64() as f32 * 6.0;
            let mut b = Path::builder();
            b.begin(at(a0, rad));
            let mut kinds = Vec::new();
            for i in 0..k {
                let (s, e) = (a0 + step * i as f32, a0 + step * (i + 1) as f32);
                let rr = |r: &mut Rng| rad * (0.7 + 0.6 * r.unit_f64() as f32);
                let end = if i + 1 == k { at(a0, rad) } else { at(e, rad) };
                match r.below(3) {
                    0 => {
                        b.cubic_bezier_to(at(s + step / 3.0, rr(r)), at(s + 2.0 * step / 3.0, rr(r)), end);
                        kinds.push('C');
                    }
                    1 => {
                        b.quadratic_bezier_to(at(s + step / 2.0, rr(r)), end);
                        kinds.push('Q');
                    }
                    _ => {
                        b.line_to(end);
                        kinds.push('L');
                    }
                }
            }
            b.end(true);
            let p = b.build();
            let rev: Path = p.reversed().collect();
            st.inc("evaluations");
            st.inc("star_shaped_curved_paths");
            let label = format!("star-shaped {:?} around {:?} radius {} {} :: {:?}", kinds, ctr, rad, if ccw { "ccw" } else { "cw" }, p);
            st.note_case(&label, true);
            let res = catch(|| (compute_winding(&mut p.iter()), approximate_signed_area(0.01, p.iter()), compute_winding(&mut rev.iter()), approximate_signed_area(0.01, rev.iter())));
            match res {
                None => st.fail(jobj(&[("what", jstr("compute_winding / signed area panicked")), ("input", jstr(&label))])),
                Some((w, a, rw, ra)) => {
                    // y grows downwards in lyon's convention: Positive = increasing angle in these coordinates
                    let want = if ccw { Winding::Positive } else { Winding::Negative };
                    if (a > 0.0) != ccw || a.abs() < 0.2 * rad * rad {
                        st.fail(jobj(&[("what", jstr("signed area of a star-shaped curved path has the wrong sign or magnitude")), ("input", jstr(&format!("area {} :: {}", a, label)))]));
                    }
                    if w != Some(want) {
                        st.fail(jobj(&[("what", jstr("compute_winding of a star-shaped curved path is not its direction")), ("input", jstr(&format!("{:?} :: {}", w, label)))]));
                    }
                    if rw == w || (ra > 0.0) == (a > 0.0) || (ra + a).abs() > 1e-2 * a.abs() {
                        st.fail(jobj(&[("what", jstr("reversing a curved path does not flip its winding / negate its area")), ("input", jstr(&format!("{:?}/{} vs {:?}/{} :: {}", w, a, rw, ra, label)))]));
                    }
                }
            }
        }
        // crescents: two cubic arcs over the same chord, bulging to the same side by different amounts; thin shapes
        // whose direction is decided by the curves, not by their end points (own shoelace area on dense samples)
        {
            use lyon_path::geom::CubicBezierSegment;
            let (x0, y0) = (r.range(-20, 20) as f32, r.range(-20, 20) as f32);
            let wd = 20.0 + r.below(100) as f32;
            let (h1, mut h2) = (10.0 + r.below(70) as f32, 10.0 + r.below(70) as f32);
            if (h1 - h2).abs() < 3.0 {
                h2 = h1 + 6.0;
            }
            let up = if r.chance(1, 2) { -1.0f32 } else { 1.0 };
            let c1 = CubicBezierSegment { from: point(x0, y0), ctrl1: point(x0, y0 + up * h1), ctrl2: point(x0 + wd, y0 + up * h1), to: point(x0 + wd, y0) };
            let c2 = CubicBezierSegment { from: point(x0 + wd, y0), ctrl1: point(x0 + wd, y0 + up * h2), ctrl2: point(x0, y0 + up * h2), to: point(x0, y0) };
            let mut b = Path::builder();
            b.begin(c1.from);
            b.cubic_bezier_to(c1.ctrl1, c1.ctrl2, c1.to);
            b.cubic_bezier_to(c2.ctrl1, c2.ctrl2, c2.to);
            b.end(true);
            let p = b.build();
            let rev: Path = p.reversed().collect();
            let mut pts: Vec<(f64, f64)> = Vec::new();
            for c in [&c1, &c2] {
                for i in 0..256 {
                    let q = c.sample(i as f32 / 256.0);
                    pts.push((q.x as f64, q.y as f64));
                }
            }
            let mut area2 = 0.0f64;
            for i in 0..pts.len() {
                let (a, bq) = (pts[i], pts[(i + 1) % pts.len()]);
                area2 += a.0 * bq.1 - bq.0 * a.1;
            }
            st.inc("evaluations");
            st.inc("crescents");
            let label = format!("crescent {:?}", p);
            st.note_case(&label, true);
            match catch(|| (compute_winding(&mut p.iter()), approximate_signed_area(0.01, p.iter()), compute_winding(&mut rev.iter()))) {
                None => st.fail(jobj(&[("what", jstr("compute_winding / signed area panicked")), ("input", jstr(&label))])),
                Some((w, a, rw)) => {
                    let want = if area2 > 0.0 { Winding::Positive } else { Winding::Negative };
                    if (a as f64 - area2 / 2.0).abs() > 0.02 * (area2 / 2.0).abs() + 0.5 {
                        st.fail(jobj(&[("what", jstr("signed area of a crescent differs from the area of its dense sampling")), ("input", jstr(&format!("{} vs {} :: {}", a, area2 / 2.0, label)))]));
                    }
                    if w != Some(want) {
                        st.fail(jobj(&[("what", jstr("compute_winding of a crescent is not the sign of its area")), ("input", jstr(&format!("{:?}, area {} :: {}", w, area2 / 2.0, label)))]));
                    }
                    if rw == w {
                        st.fail(jobj(&[("what", jstr("reversing a crescent does not flip its winding")), ("input", jstr(&label))]));
                    }
                }
            }
        }
        // curved path: winding at points away from the outline equals the winding of a fine flattening
        let mut b = Path::builder();
        let g = |r: &mut Rng| point(r.range(-10, 10) as f32, r.range(-10, 10) as f32);
        b.begin(g(r));
        for _ in 0..(1 + r.below(3)) {
            if r.chance(1, 2) {
                b.quadratic_bezier_to(g(r), g(r));
            } else {
                b.cubic_bezier_to(g(r), g(r), g(r));
            }
        }
        b.end(r.chance(1, 2));
        let path = b.build();
        let tol = 0.05f32;
        let fine: Vec<(f64, f64)> = {
            let mut v = Vec::new();
            for e in lyon_path::iterator::PathIterator::flattened(path.iter(), 0.001) {
                match e {
                    lyon_path::PathEvent::Begin { at } => v.push((at.x as f64, at.y as f64)),
                    lyon_path::PathEvent::Line { to, .. } => v.push((to.x as f64, to.y as f64)),
                    _ => {}
                }
            }
            v
        };
        st.inc("curved_paths");
        for _ in 0..8 {
            let q = point(r.range(-20, 20) as f32 * 0.5 + 0.25, r.range(-20, 20) as f32 * 0.5 + 0.125);
            // distance to the fine polyline
            let mut dmin = f64::MAX;
            for i in 0..fine.len() {
                let (a, b) = (fine[i], fine[(i + 1) % fine.len()]);
                let (vx, vy) = (b.0 - a.0, b.1 - a.1);
                let (wx, wy) = (q.x as f64 - a.0, q.y as f64 - a.1);
                let l2 = vx * vx + vy * vy;
                let t = if l2 > 0.0 { ((wx * vx + wy * vy) / l2).max(0.0).min(1.0) } else { 0.0 };
                let (dx, dy) = (wx - t * vx, wy - t * vy);
                dmin = dmin.min((dx * dx + dy * dy).sqrt());
            }
            if dmin < 4.0 * tol as f64 {
                continue;
            }
            // crossing count on the fine polyline, f64
            let mut w = 0;
            for i in 0..fine.len() {
                let (a, b) = (fine[i], fine[(i + 1) % fine.len()]);
                if a.1 == b.1 {
                    continue;
                }
                let (lo, hi, s) = if a.1 < b.1 { (a, b, 1) } else { (b, a, -1) };
                let py = q.y as f64;
                if lo.1 <= py && py < hi.1 {
                    let x = lo.0 + (py - lo.1) * (hi.0 - lo.0) / (hi.1 - lo.1);
                    if x < q.x as f64 {
                        w += s;
                    }
                }
            }
            let got = path_winding_number_at_position(&q, path.iter(), tol);
            st.inc("curved_queries");
            if got != w {
                st.fail(jobj(&[("what", jstr("curved path: winding number differs from that of a fine flattening, away from the outline")), ("input", jstr(&format!("{:?} at {:?}: {} vs {}", path, q, got, w)))]));
            }
        }
    }
}

// =================================================================================================
// Audit centred on CURVED paths and on the special positions of the query point.
//
// Independent reference: every curve is evaluated by this file's own f64 Bernstein form at AUDIT_N + 1 parameters,
// sub-paths are closed implicitly, and the winding number of a point is the total signed angle (sum of atan2
// differences) swept by that fine polyline around it.  The reference is consulted only for points farther than
// (tolerance + 1e-3) from the fine polyline.
//
// The half-open rule of hit_test.rs (test_segment): a flattened edge (y0 -> y1) is counted when
//     min(y0, y1) <= p.y < max(y0, y1)   and the edge's x at p.y is <= p.x,
// +1 when y grows along the edge and -1 otherwise; horizontal edges never count.  A vertex exactly level with the
// query is therefore attributed to the edges that leave it towards LARGER y: an outline that goes through the level
// monotonically is counted once (by exactly one of the two edges), one that turns back from smaller y (a local
// maximum of y) is not counted, one that turns back from larger y (a local minimum) is counted +1 and -1 by its two
// edges.  In every case the total is that of a query moved slightly towards larger y, hence the right total for a
// point off the outline.  The bounding-range early-outs of the Quadratic / Cubic arms are closed on both sides
// (`min > y || max < y` skips), which is compatible with that rule.
// Sign convention (DESIGN, C18): lyon reports -1 inside a sub-path of positive area; with turns counted positive
// from +x towards +y (the direction of positive shoelace area) the reported winding number is -turns.
// `Winding::Positive` is that same direction: positive shoelace area sum(x_i*y_{i+1} - x_{i+1}*y_i), which on a
// screen with y pointing DOWN looks clockwise (add_rectangle: min -> (max.x, min.y) -> max -> (min.x, max.y)).
// =================================================================================================

const AUDIT_N: usize = 2048;

#[derive(Clone, Copy, Debug, PartialEq)]
enum ASeg {
    L(Point),
    Q(Point, Point),
    C(Point, Point, Point),
}

#[derive(Clone, Debug)]
struct ASub {
    start: Point,
    segs: Vec<ASeg>,
    close: bool,
}

type F2 = (f64, f64);

fn aseg_to(s: &ASeg) -> Point {
    match *s {
        ASeg::L(p) => p,
        ASeg::Q(_, p) => p,
        ASeg::C(_, _, p) => p,
    }
}

fn asub_reversed(s: &ASub) -> ASub {
    let mut pts = vec![s.start];
    for g in &s.segs {
        pts.push(aseg_to(g));
    }
    let mut segs = Vec::new();
    for i in (0..s.segs.len()).rev() {
        let to = pts[i];
        segs.push(match s.segs[i] {
            ASeg::L(_) => ASeg::L(to),
            ASeg::Q(c, _) => ASeg::Q(c, to),
            ASeg::C(c1, c2, _) => ASeg::C(c2, c1, to),
        });
    }
    ASub { start: *pts.last().unwrap(), segs, close: s.close }
}

fn apath_map(subs: &[ASub], f: &dyn Fn(Point) -> Point) -> Vec<ASub> {
    subs.iter()
        .map(|s| ASub {
            start: f(s.start),
            segs: s
                .segs
                .iter()
                .map(|g| match *g {
                    ASeg::L(p) => ASeg::L(f(p)),
                    ASeg::Q(c, p) => ASeg::Q(f(c), f(p)),
                    ASeg::C(c1, c2, p) => ASeg::C(f(c1), f(c2), f(p)),
                })
                .collect(),
            close: s.close,
        })
        .collect()
}

fn apath_build(subs: &[ASub]) -> Path {
    let mut b = Path::builder();
    for s in subs {
        b.begin(s.start);
        for g in &s.segs {
            match *g {
                ASeg::L(p) => {
                    b.line_to(p);
                }
                ASeg::Q(c, p) => {
                    b.quadratic_bezier_to(c, p);
                }
                ASeg::C(c1, c2, p) => {
                    b.cubic_bezier_to(c1, c2, p);
                }
            }
        }
        b.end(s.close);
    }
    b.build()
}

/// what a built path contains, read back through its events (shape helpers, `reversed()`)
fn apath_read(path: &Path) -> Vec<ASub> {
    let mut subs: Vec<ASub> = Vec::new();
    for e in path.iter() {
        match e {
            lyon_path::PathEvent::Begin { at } => subs.push(ASub { start: at, segs: Vec::new(), close: false }),
            lyon_path::PathEvent::Line { to, .. } => subs.last_mut().unwrap().segs.push(ASeg::L(to)),
            lyon_path::PathEvent::Quadratic { ctrl, to, .. } => subs.last_mut().unwrap().segs.push(ASeg::Q(ctrl, to)),
            lyon_path::PathEvent::Cubic { ctrl1, ctrl2, to, .. } => subs.last_mut().unwrap().segs.push(ASeg::C(ctrl1, ctrl2, to)),
            lyon_path::PathEvent::End { close, .. } => subs.last_mut().unwrap().close = close,
        }
    }
    subs
}

fn apath_text(subs: &[ASub]) -> String {
    let mut s = String::new();
    for sub in subs {
        s.push_str(&format!("M {} {} ", sub.start.x, sub.start.y));
        for g in &sub.segs {
            match *g {
                ASeg::L(p) => s.push_str(&format!("L {} {} ", p.x, p.y)),
                ASeg::Q(c, p) => s.push_str(&format!("Q {} {} {} {} ", c.x, c.y, p.x, p.y)),
                ASeg::C(c1, c2, p) => s.push_str(&format!("C {} {} {} {} {} {} ", c1.x, c1.y, c2.x, c2.y, p.x, p.y)),
            }
        }
        s.push_str(if sub.close { "Z " } else { "(open) " });
    }
    s
}

fn p64(p: Point) -> F2 {
    (p.x as f64, p.y as f64)
}

fn bez2(a: F2, c: F2, b: F2, t: f64) -> F2 {
    let u = 1.0 - t;
    (u * u * a.0 + 2.0 * u * t * c.0 + t * t * b.0, u * u * a.1 + 2.0 * u * t * c.1 + t * t * b.1)
}

fn bez3(a: F2, c1: F2, c2: F2, b: F2, t: f64) -> F2 {
    let u = 1.0 - t;
    let (w0, w1, w2, w3) = (u * u * u, 3.0 * u * u * t, 3.0 * u * t * t, t * t * t);
    (w0 * a.0 + w1 * c1.0 + w2 * c2.0 + w3 * b.0, w0 * a.1 + w1 * c1.1 + w2 * c2.1 + w3 * b.1)
}

/// the fine flattening: one polyline per sub-path (closed implicitly by the functions below)
fn afine(subs: &[ASub], n: usize) -> Vec<Vec<F2>> {
    subs.iter()
        .map(|s| {
            let mut v = vec![p64(s.start)];
            let mut cur = p64(s.start);
            for g in &s.segs {
                match *g {
                    ASeg::L(p) => v.push(p64(p)),
                    ASeg::Q(c, p) => {
                        for i in 1..=n {
                            v.push(bez2(cur, p64(c), p64(p), i as f64 / n as f64));
                        }
                    }
                    ASeg::C(c1, c2, p) => {
                        for i in 1..=n {
                            v.push(bez3(cur, p64(c1), p64(c2), p64(p), i as f64 / n as f64));
                        }
                    }
                }
                cur = p64(aseg_to(g));
            }
            v
        })
        .collect()
}

/// signed turns of the closed polylines around p (positive from +x towards +y); None if the angle sum is not
/// within 1e-6 of a whole number of turns (p on the outline)
fn aturns(p: F2, polys: &[Vec<F2>]) -> Option<i32> {
    let mut total = 0.0f64;
    for s in polys {
        for i in 0..s.len() {
            let (a, b) = (s[i], s[(i + 1) % s.len()]);
            let (ax, ay) = (a.0 - p.0, a.1 - p.1);
            let (bx, by) = (b.0 - p.0, b.1 - p.1);
            total += (ax * by - ay * bx).atan2(ax * bx + ay * by);
        }
    }
    let t = total / (2.0 * std::f64::consts::PI);
    if (t - t.round()).abs() > 1e-6 {
        return None;
    }
    Some(t.round() as i32)
}

fn aseg_dist(p: F2, a: F2, b: F2) -> f64 {
    let (vx, vy) = (b.0 - a.0, b.1 - a.1);
    let (wx, wy) = (p.0 - a.0, p.1 - a.1);
    let l2 = vx * vx + vy * vy;
    let t = if l2 > 0.0 { ((wx * vx + wy * vy) / l2).max(0.0).min(1.0) } else { 0.0 };
    let (dx, dy) = (wx - t * vx, wy - t * vy);
    (dx * dx + dy * dy).sqrt()
}

fn adist(p: F2, polys: &[Vec<F2>]) -> f64 {
    let mut d = f64::MAX;
    for s in polys {
        for i in 0..s.len() {
            d = d.min(aseg_dist(p, s[i], s[(i + 1) % s.len()]));
        }
    }
    d
}

/// (signed shoelace area, perimeter, sum of the absolute fan terms) of one closed polyline
fn aarea(s: &[F2]) -> (f64, f64, f64) {
    let (mut a2, mut per, mut gross2) = (0.0f64, 0.0f64, 0.0f64);
    let o = s[0];
    for i in 0..s.len() {
        let (a, b) = (s[i], s[(i + 1) % s.len()]);
        let t = (a.0 - o.0) * (b.1 - o.1) - (b.0 - o.0) * (a.1 - o.1);
        a2 += t;
        gross2 += t.abs();
        per += (b.0 - a.0).hypot(b.1 - a.1);
    }
    (a2 / 2.0, per, gross2 / 2.0)
}

/// parameters in (0, 1) where the y coordinate of a quadratic (3 values) / cubic (4 values) is stationary
fn ay_extrema(ys: &[f64]) -> Vec<f64> {
    let mut out = Vec::new();
    let mut push = |t: f64| {
        if t > 0.0 && t < 1.0 {
            out.push(t)
        }
    };
    if ys.len() == 3 {
        let d = ys[0] - 2.0 * ys[1] + ys[2];
        if d != 0.0 {
            push((ys[0] - ys[1]) / d);
        }
    } else {
        let a = -ys[0] + 3.0 * ys[1] - 3.0 * ys[2] + ys[3];
        let b = 2.0 * (ys[0] - 2.0 * ys[1] + ys[2]);
        let c = ys[1] - ys[0];
        if a == 0.0 {
            if b != 0.0 {
                push(-c / b);
            }
        } else {
            let disc = b * b - 4.0 * a * c;
            if disc >= 0.0 {
                let q = disc.sqrt();
                push((-b + q) / (2.0 * a));
                if q > 0.0 {
                    push((-b - q) / (2.0 * a));
                }
            }
        }
    }
    out
}

fn ulp_step(v: f32, up: bool) -> f32 {
    if v == 0.0 {
        return if up { f32::from_bits(1) } else { -f32::from_bits(1) };
    }
    let b = v.to_bits();
    f32::from_bits(if (v > 0.0) == up { b + 1 } else { b - 1 })
}

/// lyon's own flattening of the path (the function the hit test calls), used ONLY to pick query levels and to
/// attribute a failure to the flattening's deviation, never as the expectation; `swap`: curves flattened from their
/// end (what the fill tessellator does for curves that run upwards)
fn alyon_flat(subs: &[ASub], tol: f32, swap: bool) -> Vec<Vec<F2>> {
    use lyon_path::geom::{CubicBezierSegment, QuadraticBezierSegment};
    subs.iter()
        .map(|s| {
            let mut v = vec![p64(s.start)];
            let mut cur = s.start;
            for g in &s.segs {
                let mut piece: Vec<F2> = Vec::new();
                match *g {
                    ASeg::L(p) => piece.push(p64(p)),
                    ASeg::Q(c, p) => {
                        if swap {
                            piece.push(p64(p));
                            QuadraticBezierSegment { from: p, ctrl: c, to: cur }.for_each_flattened(tol, &mut |l| piece.push(p64(l.to)));
                        } else {
                            QuadraticBezierSegment { from: cur, ctrl: c, to: p }.for_each_flattened(tol, &mut |l| piece.push(p64(l.to)));
                        }
                    }
                    ASeg::C(c1, c2, p) => {
                        if swap {
                            piece.push(p64(p));
                            CubicBezierSegment { from: p, ctrl1: c2, ctrl2: c1, to: cur }.for_each_flattened(tol, &mut |l| piece.push(p64(l.to)));
                        } else {
                            CubicBezierSegment { from: cur, ctrl1: c1, ctrl2: c2, to: p }.for_each_flattened(tol, &mut |l| piece.push(p64(l.to)));
                        }
                    }
                }
                if swap && !matches!(g, ASeg::L(_)) {
                    piece.pop(); // == cur
                    piece.reverse();
                }
                v.extend(piece);
                cur = aseg_to(g);
            }
            v
        })
        .collect()
}

/// K2 (DESIGN): a degenerate / overshooting / hairpin (sub-)quadratic, on which the step count is known to be too small
fn ak2_quad(q: &lyon_path::geom::QuadraticBezierSegment<f32>) -> bool {
    if q.from == q.to {
        return q.ctrl != q.from;
    }
    let (bx, by) = ((q.to.x - q.from.x) as f64, (q.to.y - q.from.y) as f64);
    let (cx, cy) = ((q.ctrl.x - q.from.x) as f64, (q.ctrl.y - q.from.y) as f64);
    let t = (cx * bx + cy * by) / (bx * bx + by * by);
    if t < 0.0 || t > 1.0 {
        return true;
    }
    let (ux, uy) = (-cx, -cy);
    let (vx, vy) = ((q.to.x - q.ctrl.x) as f64, (q.to.y - q.ctrl.y) as f64);
    let (lu, lv) = ((ux * ux + uy * uy).sqrt(), (vx * vx + vy * vy).sqrt());
    lu > 0.0 && lv > 0.0 && (ux * vx + uy * vy) / (lu * lv) > 0.906
}

fn ahas_k2(subs: &[ASub], tol: f32) -> bool {
    use lyon_path::geom::{CubicBezierSegment, QuadraticBezierSegment};
    let mut k2 = false;
    for s in subs {
        let mut cur = s.start;
        for g in &s.segs {
            match *g {
                ASeg::L(_) => {}
                ASeg::Q(c, p) => k2 |= ak2_quad(&QuadraticBezierSegment { from: cur, ctrl: c, to: p }) || ak2_quad(&QuadraticBezierSegment { from: p, ctrl: c, to: cur }),
                ASeg::C(c1, c2, p) => {
                    CubicBezierSegment { from: cur, ctrl1: c1, ctrl2: c2, to: p }.for_each_quadratic_bezier(tol * 0.4, &mut |q| k2 |= ak2_quad(q));
                    CubicBezierSegment { from: p, ctrl1: c2, ctrl2: c1, to: cur }.for_each_quadratic_bezier(tol * 0.4, &mut |q| k2 |= ak2_quad(q));
                }
            }
            cur = aseg_to(g);
        }
    }
    k2
}

/// Known-finding class of a disagreement that is explained by the flattening lying farther than the tolerance from the
/// curve (C09's findings K2 / K6): the library's answer is the right one for its own flattening, and that flattening
/// deviates from the fine polyline by more than the tolerance.  None: not explained that way.
fn aattribute(subs: &[ASub], fine: &[Vec<F2>], tol: f32, q: F2, lyon_w: Option<i32>) -> Option<&'static str> {
    let mut dev = 0.0f64;
    let mut consistent = lyon_w.is_none();
    for swap in [false, true] {
        let lf = catch(std::panic::AssertUnwindSafe(|| alyon_flat(subs, tol, swap)))?;
        if !swap {
            if let (Some(w), Some(t)) = (lyon_w, aturns(q, &lf)) {
                consistent = w == -t;
            }
        }
        for s in &lf {
            for i in 0..s.len() {
                let (a, b) = (s[i], s[(i + 1) % s.len()]);
                for k in 0..8 {
                    let u = k as f64 / 8.0;
                    dev = dev.max(adist((a.0 + u * (b.0 - a.0), a.1 + u * (b.1 - a.1)), fine));
                }
            }
        }
    }
    if !consistent || dev <= tol as f64 {
        return None;
    }
    if ahas_k2(subs, tol) {
        return Some("K2");
    }
    let (mut lo, mut hi) = ((f64::MAX, f64::MAX), (f64::MIN, f64::MIN));
    for s in fine {
        for p in s {
            lo = (lo.0.min(p.0), lo.1.min(p.1));
            hi = (hi.0.max(p.0), hi.1.max(p.1));
        }
    }
    let factor = if tol as f64 > 0.1 * (hi.0 - lo.0).max(hi.1 - lo.1) { 2.0 } else { 1.5 };
    if dev <= factor * tol as f64 + 1e-9 {
        Some("K6")
    } else {
        None
    }
}

fn afail(st: &mut Stats, what: &str, input: String, class: Option<&str>) {
    let mut fields = vec![("what", jstr(what)), ("input", jstr(&input))];
    if let Some(c) = class {
        fields.push(("class", jstr(c)));
    }
    st.fail(jobj(&fields));
}

fn afill(path: &Path, rule: FillRule, tol: f32) -> Option<(Vec<Point>, Vec<(u32, u32, u32)>)> {
    catch(std::panic::AssertUnwindSafe(|| {
        use lyon_tessellation::geometry_builder::{BuffersBuilder, Positions, VertexBuffers};
        let mut buffers: VertexBuffers<Point, u32> = VertexBuffers::new();
        let ok = lyon_tessellation::FillTessellator::new()
            .tessellate_path(path, &lyon_tessellation::FillOptions::tolerance(tol).with_fill_rule(rule), &mut BuffersBuilder::new(&mut buffers, Positions))
            .is_ok();
        if !ok {
            return None;
        }
        Some((buffers.vertices.clone(), buffers.indices.chunks(3).map(|t| (t[0], t[1], t[2])).collect::<Vec<_>>()))
    }))
    .flatten()
}

struct Special {
    p: Point,
    kind: &'static str,
}

fn aspecials(subs: &[ASub], tol: f32, r: &mut Rng) -> Vec<Special> {
    use lyon_path::geom::{CubicBezierSegment, QuadraticBezierSegment};
    let mut out = Vec::new();
    let mut flat: Vec<Point> = Vec::new();
    for s in subs {
        out.push(Special { p: s.start, kind: "endpoint" });
        let mut cur = s.start;
        for g in &s.segs {
            let to = aseg_to(g);
            out.push(Special { p: to, kind: "endpoint" });
            let ctrl: Vec<Point> = match *g {
                ASeg::L(_) => vec![],
                ASeg::Q(c, _) => vec![c],
                ASeg::C(c1, c2, _) => vec![c1, c2],
            };
            if !ctrl.is_empty() {
                let mut poly = vec![cur];
                poly.extend(ctrl.iter().copied());
                poly.push(to);
                for c in &ctrl {
                    out.push(Special { p: *c, kind: "ctrl" });
                }
                let top = poly.iter().copied().fold(poly[0], |m, p| if p.y < m.y { p } else { m });
                let bot = poly.iter().copied().fold(poly[0], |m, p| if p.y > m.y { p } else { m });
                out.push(Special { p: top, kind: "boxmin" });
                out.push(Special { p: bot, kind: "boxmax" });
                let ys: Vec<f64> = poly.iter().map(|p| p.y as f64).collect();
                for t in ay_extrema(&ys) {
                    // the library's own sample at the extremum parameter (bit for bit), and the f64 value rounded
                    let (s32, s64) = match *g {
                        ASeg::Q(c, p) => (QuadraticBezierSegment { from: cur, ctrl: c, to: p }.sample(t as f32), bez2(p64(cur), p64(c), p64(p), t)),
                        ASeg::C(c1, c2, p) => (CubicBezierSegment { from: cur, ctrl1: c1, ctrl2: c2, to: p }.sample(t as f32), bez3(p64(cur), p64(c1), p64(c2), p64(p), t)),
                        ASeg::L(_) => unreachable!(),
                    };
                    out.push(Special { p: s32, kind: "extremum" });
                    out.push(Special { p: point(s64.0 as f32, s64.1 as f32), kind: "extremum64" });
                }
                // vertices of the library's flattening at this tolerance: the levels where the half-open rule works
                // INSIDE a curve
                let before = flat.len();
                let _ = catch(std::panic::AssertUnwindSafe(|| match *g {
                    ASeg::Q(c, p) => QuadraticBezierSegment { from: cur, ctrl: c, to: p }.for_each_flattened(tol, &mut |l| flat.push(l.to)),
                    ASeg::C(c1, c2, p) => CubicBezierSegment { from: cur, ctrl1: c1, ctrl2: c2, to: p }.for_each_flattened(tol, &mut |l| flat.push(l.to)),
                    ASeg::L(_) => {}
                }));
                if flat.len() > before {
                    flat.pop(); // the end point is listed already
                }
            }
            cur = to;
        }
    }
    for _ in 0..flat.len().min(10) {
        let p = *r.pick(&flat);
        out.push(Special { p, kind: "flatvertex" });
    }
    out
}

/// All C18 observations on one curved path.  `simple`: the sub-paths are simple closed curves by construction (the
/// precondition under which compute_winding's result is specified).
fn audit_path(st: &mut Stats, r: &mut Rng, subs: &[ASub], family: &str, simple: bool, tol: f32, nq: usize) {
    let text = format!("[{}] tolerance {} :: {}", family, tol, apath_text(subs));
    st.inc("audit_paths");
    st.inc(&format!("audit_family_{}", family));
    let path = match catch(std::panic::AssertUnwindSafe(|| apath_build(subs))) {
        Some(p) => p,
        None => {
            afail(st, "audit: builder panicked", text, None);
            return;
        }
    };
    let fine = afine(subs, AUDIT_N);
    let specials = aspecials(subs, tol, r);
    let (mut lo, mut hi) = (point(f32::MAX, f32::MAX), point(f32::MIN, f32::MIN));
    for s in &specials {
        lo = point(lo.x.min(s.p.x), lo.y.min(s.p.y));
        hi = point(hi.x.max(s.p.x), hi.y.max(s.p.y));
    }
    let ext = (hi.x - lo.x).max(hi.y - lo.y).max(1.0);
    let rx = |r: &mut Rng| lo.x - 0.15 * ext + (r.unit_f64() as f32) * (hi.x - lo.x + 0.3 * ext);
    let ry = |r: &mut Rng| lo.y - 0.15 * ext + (r.unit_f64() as f32) * (hi.y - lo.y + 0.3 * ext);
    // ---- query points
    let mut queries: Vec<(Point, &'static str, String)> = Vec::new();
    for _ in 0..(nq / 5) {
        queries.push((point(rx(r), ry(r)), "random", "random".into()));
    }
    for k in 0..(nq / 10) {
        let big = *r.pick(&[1.0e3f32, 1.0e4, 1.0e6]);
        let sy = r.pick(&specials).p.y;
        queries.push(match k % 4 {
            0 => (point(hi.x + big, sy), "far", "far right, level with a special point".to_string()),
            1 => (point(lo.x - big, sy), "far", "far left, level with a special point".to_string()),
            2 => (point(rx(r), hi.y + big), "far", "far below".to_string()),
            _ => (point(rx(r), lo.y - big), "far", "far above".to_string()),
        });
    }
    while queries.len() < nq {
        let s = r.pick(&specials);
        let d = *r.pick(&[tol + 2.0e-3, 2.0 * tol + 0.01, 0.5, 1.0, 4.0]);
        let q = match r.below(8) {
            0 | 1 => (point(rx(r), s.p.y), "level", format!("level with {}", s.kind)),
            2 => (point(s.p.x - d, s.p.y), "left", format!("exactly left of {} by {}", s.kind, d)),
            3 => (point(s.p.x + d, s.p.y), "right", format!("exactly right of {} by {}", s.kind, d)),
            4 => (s.p, "at", format!("at {}", s.kind)),
            5 => {
                let up = r.chance(1, 2);
                (point(if r.chance(1, 2) { rx(r) } else { hi.x + 3.0 }, ulp_step(s.p.y, up)), "ulp", format!("one ulp {} the level of {}", if up { "below (larger y)" } else { "above (smaller y)" }, s.kind))
            }
            6 => (point(hi.x + 2.0 + d, s.p.y), "right_of_all", format!("right of everything, level with {}", s.kind)),
            _ => (point(s.p.x, ry(r)), "above_below", format!("exactly above / below {}", s.kind)),
        };
        queries.push(q);
    }
    // ---- the fill of the same path under both rules
    let rules = [FillRule::EvenOdd, FillRule::NonZero];
    let fills: Vec<Option<(Vec<Point>, Vec<(u32, u32, u32)>)>> = rules.iter().map(|rule| afill(&path, *rule, tol)).collect();
    for f in &fills {
        st.inc(if f.is_some() { "audit_fills" } else { "audit_fill_unavailable" });
    }
    let rev_path: Option<Path> = catch(std::panic::AssertUnwindSafe(|| path.reversed().collect::<Path>()));
    let margin = tol as f64 + 1e-3;
    let mut nonzero = false;
    let mut judged = 0usize;
    for (q, class, kind) in &queries {
        let qf = p64(*q);
        let d = adist(qf, &fine);
        if !(d > margin) {
            st.inc("audit_queries_near_outline_skipped");
            continue;
        }
        let turns = match aturns(qf, &fine) {
            Some(t) => t,
            None => {
                st.inc("audit_reference_undecided");
                continue;
            }
        };
        let want = -turns;
        nonzero |= want != 0;
        judged += 1;
        st.inc("audit_queries");
        st.inc(&format!("audit_q_{}", class));
        if let Some(sk) = kind.rsplit(' ').next().filter(|k| ["endpoint", "ctrl", "boxmin", "boxmax", "extremum", "extremum64", "flatvertex"].contains(k)) {
            st.inc(&format!("audit_qs_{}", sk));
        }
        let here = |extra: String| format!("{} at ({}, {}) [{}; distance to the outline {:.5}] {}", text, q.x, q.y, kind, d, extra);
        let got = catch(std::panic::AssertUnwindSafe(|| {
            (
                path_winding_number_at_position(q, path.iter(), tol),
                hit_test_path(q, path.iter(), FillRule::EvenOdd, tol),
                hit_test_path(q, path.iter(), FillRule::NonZero, tol),
            )
        }));
        let (w, eo, nz) = match got {
            Some(x) => x,
            None => {
                afail(st, "audit: hit test panicked", here(String::new()), None);
                continue;
            }
        };
        let mut hit_ok = true;
        if w != want {
            hit_ok = false;
            let class = aattribute(subs, &fine, tol, qf, Some(w));
            afail(st, "audit: winding number differs from the signed turns of the fine flattening around the point", here(format!("reported {} expected {}", w, want)), class);
        }
        if eo != (w % 2 != 0) || nz != (w != 0) || eo != FillRule::EvenOdd.is_in(w as i16) || nz != FillRule::NonZero.is_in(w as i16) {
            afail(st, "audit: hit test is not the fill rule applied to the reported winding number", here(format!("winding {} EvenOdd {} NonZero {}", w, eo, nz)), None);
        }
        // the reversed path turns the other way round the same point
        if judged % 4 == 1 {
            if let Some(rp) = &rev_path {
                st.inc("audit_reversed_queries");
                match catch(std::panic::AssertUnwindSafe(|| path_winding_number_at_position(q, rp.iter(), tol))) {
                    None => afail(st, "audit: hit test of the reversed path panicked", here(String::new()), None),
                    Some(rw) => {
                        if rw != -want {
                            let rsubs: Vec<ASub> = subs.iter().map(asub_reversed).collect();
                            let class = aattribute(&rsubs, &fine, tol, qf, Some(rw));
                            afail(st, "audit: winding number of the reversed path is not the opposite number of turns", here(format!("reported {} expected {}", rw, -want)), class);
                        }
                    }
                }
            }
        }
        // ... which is also exactly where the fill tessellation puts triangles
        if hit_ok {
            for (k, hit) in [eo, nz].iter().enumerate() {
                if let Some((pos, tris)) = &fills[k] {
                    let (closed, open) = crate::c01::cover_f64(qf, pos, tris);
                    st.inc("audit_fill_queries");
                    if (*hit && closed == 0) || (!*hit && open > 0) {
                        let class = aattribute(subs, &fine, tol, qf, None);
                        afail(
                            st,
                            "audit: the fill tessellation does not cover the point exactly when the hit test is true",
                            here(format!("{:?}: hit {} winding {} triangles containing the point: {} closed, {} open", rules[k], hit, w, closed, open)),
                            class,
                        );
                    }
                }
            }
        }
    }
    st.note_case(&text, nonzero);
    // ---- signed area, reversal, reported winding direction
    let per_sub: Vec<(f64, f64, f64)> = fine.iter().map(|s| aarea(s)).collect();
    // bound: (perimeter x tolerance) for the flattening, plus the rounding of an f32 fan sum (1e-4 of the absolute terms)
    let bound_of = |a: &(f64, f64, f64)| a.1 * tol as f64 + 1e-4 * a.2 + 1e-4;
    let total: f64 = per_sub.iter().map(|a| a.0).sum();
    let total_bound: f64 = per_sub.iter().map(|a| bound_of(a)).sum();
    let res = catch(std::panic::AssertUnwindSafe(|| {
        let mut areas = Vec::new();
        let mut it = path.iter();
        while let Some(a) = approximate_sub_path_signed_area(tol, &mut it) {
            areas.push(a);
        }
        let mut winds = Vec::new();
        let mut it = path.iter();
        while let Some(w) = compute_winding(&mut it) {
            winds.push(w);
        }
        (approximate_signed_area(tol, path.iter()), areas, winds)
    }));
    let (area, areas, winds) = match res {
        Some(x) => x,
        None => {
            afail(st, "audit: signed area / compute_winding panicked", text, None);
            return;
        }
    };
    st.inc("audit_area_checks");
    if !((area as f64 - total).abs() <= total_bound) {
        let class = aattribute(subs, &fine, tol, (0.0, 0.0), None);
        afail(st, "audit: signed area differs from the shoelace area of the fine flattening by more than perimeter x tolerance", format!("{}: reported {} fine {} bound {}", text, area, total, total_bound), class);
    }
    if areas.len() != subs.len() || winds.len() != subs.len() {
        afail(st, "audit: not one area / winding per sub-path", format!("{}: {} areas {} windings", text, areas.len(), winds.len()), None);
        return;
    }
    for (i, a) in per_sub.iter().enumerate() {
        let b = bound_of(a);
        if !((areas[i] as f64 - a.0).abs() <= b) {
            let class = aattribute(subs, &fine, tol, (0.0, 0.0), None);
            afail(st, "audit: signed area of a sub-path differs from the shoelace area of its fine flattening by more than perimeter x tolerance", format!("{} sub-path {}: reported {} fine {} bound {}", text, i, areas[i], a.0, b), class);
        }
        // the sign of the area is the reported direction, when the area is well above the bound
        if a.0.abs() > 10.0 * b + 0.5 {
            let want = if a.0 > 0.0 { Winding::Positive } else { Winding::Negative };
            if (areas[i] > 0.0) != (a.0 > 0.0) {
                afail(st, "audit: the signed area of a sub-path has the wrong sign", format!("{} sub-path {}: reported {} fine {}", text, i, areas[i], a.0), None);
            }
            if simple {
                st.inc("audit_winding_direction_checks");
                if winds[i] != want {
                    afail(st, "audit: compute_winding of a simple curved sub-path is not the sign of its area", format!("{} sub-path {}: reported {:?}, area {} (fine flattening {})", text, i, winds[i], areas[i], a.0), None);
                }
            } else {
                // sub-paths that may intersect themselves: compute_winding's documentation leaves the result unspecified
                st.inc(if winds[i] == want { "audit_obs_winding_agrees_on_unrestricted_subpath" } else { "audit_obs_winding_differs_on_unrestricted_subpath" });
            }
        }
    }
    // reversed path: the area changes sign (each against the fine flattening: the two flattenings are not mirror images)
    if let Some(rp) = &rev_path {
        match catch(std::panic::AssertUnwindSafe(|| approximate_signed_area(tol, rp.iter()))) {
            None => afail(st, "audit: signed area of the reversed path panicked", text.clone(), None),
            Some(ra) => {
                st.inc("audit_reversed_area_checks");
                if !((ra as f64 + total).abs() <= total_bound) || (total.abs() > 10.0 * total_bound + 0.5 && (ra > 0.0) == (area > 0.0)) {
                    let class = aattribute(&subs.iter().map(asub_reversed).collect::<Vec<_>>(), &fine, tol, (0.0, 0.0), None);
                    afail(st, "audit: the signed area of the reversed path is not the negated area", format!("{}: {} reversed {} fine {} bound {}", text, area, ra, total, total_bound), class);
                }
                if simple {
                    let mut it = rp.iter();
                    let mut rw = Vec::new();
                    while let Some(w) = compute_winding(&mut it) {
                        rw.push(w);
                    }
                    // sub-paths come out in reverse order
                    rw.reverse();
                    for (i, a) in per_sub.iter().enumerate() {
                        if a.0.abs() > 10.0 * bound_of(a) + 0.5 && rw.get(i).copied() == Some(winds[i]) {
                            afail(st, "audit: reversing a simple curved sub-path does not flip compute_winding", format!("{} sub-path {}: {:?} both ways", text, i, winds[i]), None);
                        }
                    }
                }
            }
        }
    } else {
        afail(st, "audit: Path::reversed panicked", text.clone(), None);
    }
}

fn agrid(r: &mut Rng) -> Point {
    point(r.range(-12, 12) as f32, r.range(-12, 12) as f32)
}

fn arandom_seg(r: &mut Rng, curves_only: bool) -> ASeg {
    match r.below(if curves_only { 2 } else { 3 }) {
        0 => ASeg::Q(agrid(r), agrid(r)),
        1 => ASeg::C(agrid(r), agrid(r), agrid(r)),
        _ => ASeg::L(agrid(r)),
    }
}

/// (sub-paths, family, simple closed sub-paths by construction)
fn agen(r: &mut Rng) -> (Vec<ASub>, &'static str, bool) {
    let f = |x: i64, y: i64| point(x as f32, y as f32);
    match r.below(12) {
        0 | 1 => {
            // random chains of quadratic / cubic / line segments on a small grid (coincident levels are frequent)
            let n = 1 + r.below(3);
            let subs = (0..n)
                .map(|_| ASub { start: agrid(r), segs: (0..(1 + r.below(4))).map(|_| arandom_seg(r, false)).collect(), close: r.chance(1, 2) })
                .collect();
            (subs, "random", false)
        }
        2 => {
            // loops: the control polygon crosses itself
            let (a, b) = (r.range(3, 12), r.range(3, 12));
            let dx = *r.pick(&[0i64, 0, 2, -2, 5]);
            let mut segs = vec![ASeg::C(f(a, b), f(-a, b), f(dx, 0))];
            if r.chance(1, 2) {
                segs.push(arandom_seg(r, false));
            }
            (vec![ASub { start: f(0, 0), segs, close: r.chance(1, 2) }], "loop", false)
        }
        3 => {
            // cusps: (0,0) (w,h) (0,h) (w,0) has a cusp at t = 1/2; also the degenerate hairpin ctrl1 == ctrl2
            let (w, h) = (r.range(2, 12), r.range(2, 12));
            let segs = match r.below(3) {
                0 => vec![ASeg::C(f(w, h), f(0, h), f(w, 0))],
                1 => vec![ASeg::C(f(w, h), f(0, h), f(w, 0)), ASeg::L(f(w, -6)), ASeg::L(f(0, -6))],
                _ => vec![ASeg::C(f(w / 2, h), f(w / 2, h), f(w, 0)), ASeg::Q(f(w / 2, -h), f(0, 0))],
            };
            (vec![ASub { start: f(0, 0), segs, close: r.chance(1, 2) }], "cusp", false)
        }
        4 => {
            // S-shapes: control points far above / below the curve's own extent
            let (w, h1, h2) = (r.range(4, 12), r.range(2, 12), r.range(2, 12));
            let e = r.range(-3, 3);
            let mut segs = vec![ASeg::C(f(r.range(0, w), h1), f(r.range(0, w), -h2), f(w, e))];
            match r.below(3) {
                0 => {}
                1 => {
                    segs.push(ASeg::L(f(w, -12)));
                    segs.push(ASeg::L(f(0, -12)));
                }
                _ => segs.push(ASeg::C(f(r.range(0, w), -h1), f(r.range(0, w), h2), f(0, 0))),
            }
            (vec![ASub { start: f(0, 0), segs, close: r.chance(1, 2) }], "s_shape", false)
        }
        5 => {
            // bumps: control points well beyond the curve (the bounding-range early-out is passed, the flattening decides)
            let (w, h) = (r.range(2, 6) * 2, r.range(4, 12));
            let mut segs = Vec::new();
            let mut x = 0;
            let mut sgn = if r.chance(1, 2) { 1 } else { -1 };
            for _ in 0..(1 + r.below(3)) {
                if r.chance(1, 2) {
                    segs.push(ASeg::Q(f(x + w / 2 + r.range(-1, 1), sgn * h), f(x + w, 0)));
                } else {
                    segs.push(ASeg::C(f(x + r.range(-2, 2), sgn * h), f(x + w + r.range(-2, 2), sgn * h), f(x + w, r.range(-1, 1))));
                }
                x += w;
                if r.chance(2, 3) {
                    sgn = -sgn;
                }
            }
            if r.chance(1, 2) {
                segs.push(ASeg::L(f(x, r.range(-12, 12))));
            }
            (vec![ASub { start: f(0, 0), segs, close: r.chance(1, 2) }], "bumps", false)
        }
        6 | 7 => {
            // two pieces meeting exactly at a level: going through (monotone) or turning back (extremum), with a
            // horizontal, slanted or overshooting arrival, optionally with a horizontal edge in between
            let yj = r.range(-4, 4);
            let (h1, h2) = (r.range(2, 8), r.range(2, 8));
            let (ya, yb) = match r.below(4) {
                0 => (yj - h1, yj + h2),
                1 => (yj + h1, yj - h2),
                2 => (yj - h1, yj - h2),
                _ => (yj + h1, yj + h2),
            };
            let (xa, xj, xb) = (-8 - r.range(0, 4), r.range(-2, 2), 8 + r.range(0, 4));
            let mut segs = Vec::new();
            let cy = |r: &mut Rng, yo: i64| -> i64 {
                match r.below(4) {
                    0 => yj,                                     // horizontal tangent at the junction
                    1 => (yo + yj) / 2,                          // between
                    2 => yj + (yj - yo).signum() * r.range(1, 6), // beyond the junction's level: the piece has its own extremum
                    _ => yo - (yj - yo).signum() * r.range(1, 6), // beyond the far end
                }
            };
            let piece = |r: &mut Rng, from: (i64, i64), to: (i64, i64), yo: i64, near_first: bool| -> ASeg {
                let (x0, x1) = (from.0.min(to.0), from.0.max(to.0));
                match r.below(4) {
                    0 => ASeg::L(f(to.0, to.1)),
                    1 => ASeg::Q(f(r.range(x0, x1), cy(r, yo)), f(to.0, to.1)),
                    _ => {
                        let near = f(r.range(x0, x1), cy(r, yo));
                        let far = f(r.range(x0, x1), r.range(yo.min(yj) - 3, yo.max(yj) + 3));
                        if near_first {
                            ASeg::C(near, far, f(to.0, to.1))
                        } else {
                            ASeg::C(far, near, f(to.0, to.1))
                        }
                    }
                }
            };
            segs.push(piece(r, (xa, ya), (xj, yj), ya, false));
            let mut xs = xj;
            if r.chance(1, 4) {
                xs = xj + r.range(1, 3);
                segs.push(ASeg::L(f(xs, yj)));
            }
            segs.push(piece(r, (xs, yj), (xb, yb), yb, true));
            let close = match r.below(3) {
                0 => false,
                1 => true,
                _ => {
                    let far = if r.chance(1, 2) { 14 } else { -14 };
                    segs.push(ASeg::L(f(xb, far)));
                    segs.push(ASeg::L(f(xa, far)));
                    true
                }
            };
            (vec![ASub { start: f(xa, ya), segs, close }], "junction", false)
        }
        8 => {
            // star-shaped closed paths around a centre (simple by construction)
            let k = 3 + r.below(4) as usize;
            let dir = if r.chance(1, 2) { 1.0f32 } else { -1.0 };
            let rad = 5.0 + r.below(8) as f32;
            let ctr = f(r.range(-3, 3), r.range(-3, 3));
            let at = |ang: f32, rr: f32| ctr + vector(ang.cos(), ang.sin()) * rr;
            let step = dir * std::f32::consts::TAU / k as f32;
            let a0 = r.unit_f64() as f32 * 6.0;
            let mut segs = Vec::new();
            for i in 0..k {
                let (s, e) = (a0 + step * i as f32, a0 + step * (i + 1) as f32);
                let end = if i + 1 == k { at(a0, rad) } else { at(e, rad) };
                let mut rr = || rad * (0.7 + 0.6 * r.unit_f64() as f32);
                segs.push(match i % 3 {
                    0 => ASeg::C(at(s + step / 3.0, rr()), at(s + 2.0 * step / 3.0, rr()), end),
                    1 => ASeg::Q(at(s + step / 2.0, rr()), end),
                    _ => ASeg::L(end),
                });
            }
            (vec![ASub { start: at(a0, rad), segs, close: true }], "star", true)
        }
        9 if r.chance(1, 2) => {
            // notched rectangles (simple by construction): a W x H rectangle whose first side is the cubic
            // (0,0) (0,h) (W,h) (W,0), a bump of height 0.75 h < H into the rectangle; the area is W*H - 0.6*W*h
            let (w, hh) = (r.range(4, 12), r.range(2, 8));
            let h = hh as f32 * (0.3 + r.unit_f64() as f32);
            let dir = r.chance(1, 2);
            let mut segs = vec![ASeg::C(point(0.0, h), point(w as f32, h), f(w, 0)), ASeg::L(f(w, hh)), ASeg::L(f(0, hh))];
            if r.chance(1, 2) {
                segs.push(ASeg::L(f(0, 0)));
            }
            let sub = ASub { start: f(0, 0), segs, close: true };
            (vec![if dir { sub } else { asub_reversed(&sub) }], "notched", true)
        }
        9 => {
            // concave-sided polygons (deltoid-like, simple by construction): each side of a regular k-gon is a curve
            // whose control point(s) lie on the segment from the side's midpoint towards the centre; the curves stay
            // in their own sector and meet only at the corners
            let k = 3 + r.below(4) as usize;
            let dir = if r.chance(1, 2) { 1.0f32 } else { -1.0 };
            let rad = 6.0 + r.below(7) as f32;
            let ctr = f(r.range(-3, 3), r.range(-3, 3));
            let a0 = r.unit_f64() as f32 * 6.0;
            let step = dir * std::f32::consts::TAU / k as f32;
            let at = |i: usize| ctr + vector((a0 + step * i as f32).cos(), (a0 + step * i as f32).sin()) * rad;
            // 0 = midpoint of the side, 1 = centre (beyond the centre neighbouring sides would cross each other)
            let pull = 0.2 + 0.75 * r.unit_f64() as f32;
            let cubic = r.chance(1, 2);
            let mut segs = Vec::new();
            for i in 0..k {
                let (a, b) = (at(i), if i + 1 == k { at(0) } else { at(i + 1) });
                let mid = a.lerp(b, 0.5);
                let c = mid.lerp(ctr, pull);
                segs.push(if cubic { ASeg::C(c, c, b) } else { ASeg::Q(c, b) });
            }
            (vec![ASub { start: at(0), segs, close: true }], "concave", true)
        }
        10 => {
            // degenerate curves next to ordinary ones: coincident control points, closed curves (from == to),
            // collinear control polygons that overshoot their end points
            let a = agrid(r);
            let b = agrid(r);
            let seg = match r.below(8) {
                0 => ASeg::Q(a, b),                                   // ctrl == from
                1 => ASeg::Q(b, b),                                   // ctrl == to
                2 => ASeg::Q(b, a),                                   // from == to
                3 => ASeg::Q(a + (b - a) * 2.0, b),                   // collinear, overshooting
                4 => ASeg::C(a, b, b),                                // a straight line
                5 => ASeg::C(b, b, a),                                // out and back
                6 => ASeg::C(a + (b - a) * 2.0, a - (b - a), b),      // collinear, overshooting both ways
                _ => ASeg::C(agrid(r), agrid(r), a),                  // closed cubic
            };
            // optionally a leading piece that ends where the special piece starts
            let mut segs = Vec::new();
            let start = if r.chance(1, 2) {
                segs.push(match arandom_seg(r, false) {
                    ASeg::L(_) => ASeg::L(a),
                    ASeg::Q(c, _) => ASeg::Q(c, a),
                    ASeg::C(c1, c2, _) => ASeg::C(c1, c2, a),
                });
                agrid(r)
            } else {
                a
            };
            segs.push(seg);
            for _ in 0..(1 + r.below(2)) {
                segs.push(arandom_seg(r, false));
            }
            let subs = vec![ASub { start, segs, close: r.chance(1, 2) }];
            (subs, "degenerate", false)
        }
        _ => {
            // several sub-paths: a curved shape with holes / islands in either direction, plus an open stray piece
            let mut subs = Vec::new();
            let ctr = f(r.range(-2, 2), r.range(-2, 2));
            for (i, rad) in [11.0f32, 7.0, 3.0].iter().enumerate() {
                if i > 0 && r.chance(1, 3) {
                    continue;
                }
                let dir = if r.chance(1, 2) { 1.0f32 } else { -1.0 };
                let k = 4usize;
                let a0 = r.below(4) as f32 * std::f32::consts::FRAC_PI_4;
                let at = |j: usize, rr: f32| ctr + vector((a0 + dir * j as f32 * std::f32::consts::TAU / (2 * k) as f32).cos(), (a0 + dir * j as f32 * std::f32::consts::TAU / (2 * k) as f32).sin()) * rr;
                let bulge = *r.pick(&[1.0f32, 1.3, 0.8]);
                let mut segs = Vec::new();
                for j in 0..k {
                    let end = if j + 1 == k { at(0, *rad) } else { at(2 * j + 2, *rad) };
                    segs.push(ASeg::Q(at(2 * j + 1, *rad * bulge), end));
                }
                subs.push(ASub { start: at(0, *rad), segs, close: r.chance(3, 4) });
            }
            if r.chance(1, 2) {
                subs.push(ASub { start: agrid(r), segs: vec![arandom_seg(r, true)], close: false });
            }
            (subs, "nested", false)
        }
    }
}

fn audit_curved(args: &Args, st: &mut Stats) {
    let mut rng = Rng::new(args.seed ^ 0xA0D1_7C18);
    let n = if args.thorough() { 4000 } else { 400 };
    // hand-made inputs first: the smallest notched rectangle whose control polygon turns the other way (area
    // 50 - 0.6*10*6 = +14, control polygon 50 - 60 = -10), and two pieces meeting exactly at the level y = 0:
    // going through, turning back smoothly (horizontal tangent), turning back with the pieces overshooting the level
    {
        let f = |x: i64, y: i64| point(x as f32, y as f32);
        let fixed: Vec<(Vec<ASeg>, bool)> = vec![
            (vec![ASeg::C(f(0, 6), f(10, 6), f(10, 0)), ASeg::L(f(10, 5)), ASeg::L(f(0, 5))], true),
            (vec![ASeg::Q(f(-4, 0), f(0, 0)), ASeg::Q(f(4, 0), f(8, 6)), ASeg::L(f(8, -6))], false),
            (vec![ASeg::Q(f(-4, 0), f(0, 0)), ASeg::C(f(3, 0), f(6, -2), f(8, -6)), ASeg::L(f(0, -12))], false),
            (vec![ASeg::C(f(-8, 4), f(-2, 3), f(0, 0)), ASeg::C(f(2, 3), f(8, 4), f(8, -6))], false),
        ];
        for (i, (segs, simple)) in fixed.into_iter().enumerate() {
            let start = if i == 0 { f(0, 0) } else { f(-8, -6) };
            let sub = ASub { start, segs, close: true };
            for tol in [0.01f32, 0.1] {
                audit_path(st, &mut rng, &[sub.clone()], "fixed", simple, tol, 40);
                audit_path(st, &mut rng, &[asub_reversed(&sub)], "fixed", simple, tol, 40);
            }
        }
    }
    for _ in 0..n {
        let r = &mut rng;
        let (mut subs, family, simple) = agen(r);
        // the same shape elsewhere: mirror images, transposition, dyadic and non-dyadic scales, a rotation
        let (sx, sy) = (*r.pick(&[1.0f32, 1.0, -1.0]), *r.pick(&[1.0f32, 1.0, -1.0]));
        let swap = r.chance(1, 4);
        let scale = *r.pick(&[1.0f32, 1.0, 1.0, 0.5, 2.0, 0.7, 3.3]);
        let off = if r.chance(1, 3) { vector(r.range(-20, 20) as f32 + 0.1, r.range(-20, 20) as f32 - 0.3) } else { vector(0.0, 0.0) };
        let ang = if r.chance(1, 6) { r.unit_f64() as f32 * 6.2 } else { 0.0 };
        let (ca, sa) = (ang.cos(), ang.sin());
        subs = apath_map(&subs, &|p: Point| {
            let p = if swap { point(p.y, p.x) } else { p };
            let p = point(p.x * sx * scale, p.y * sy * scale);
            let p = if ang != 0.0 { point(p.x * ca - p.y * sa, p.x * sa + p.y * ca) } else { p };
            p + off
        });
        if r.chance(1, 2) {
            subs = subs.iter().map(asub_reversed).collect();
            if r.chance(1, 2) {
                subs.reverse();
            }
        }
        let tol = *r.pick(&[0.001f32, 0.003, 0.01, 0.03, 0.1, 0.1, 0.25, 0.5]);
        audit_path(st, r, &subs, family, simple, tol, 40);
    }
}

/// Shape helpers with a requested `Winding`.  Positive is the direction of positive shoelace area
/// sum(x_i*y_{i+1} - x_{i+1}*y_i): from +x towards +y, which looks clockwise on a y-down screen.
fn audit_shapes(args: &Args, st: &mut Stats) {
    use lyon_path::builder::BorderRadii;
    let mut rng = Rng::new(args.seed ^ 0x5AA9_E518);
    let n = if args.thorough() { 1500 } else { 200 };
    for _ in 0..n {
        let r = &mut rng;
        let want = if r.chance(1, 2) { Winding::Positive } else { Winding::Negative };
        let c = point(r.range(-20, 20) as f32 * 0.5, r.range(-20, 20) as f32 * 0.5);
        let degenerate = r.chance(1, 5);
        let dim = |r: &mut Rng| 0.5 + r.range(0, 40) as f32 * 0.25;
        let which = r.below(5);
        let tol = *r.pick(&[0.001f32, 0.01, 0.1, 0.5]);
        let (label, built): (String, Option<Path>) = match which {
            0 => {
                let (w, h) = if degenerate { *r.pick(&[(0.0f32, 0.0f32), (0.0, 3.0), (4.0, 0.0)]) } else { (dim(r), dim(r)) };
                let rect = Box2D { min: c, max: c + vector(w, h) };
                (format!("add_rectangle({:?}, {:?})", rect, want), catch(|| { let mut b = Path::builder(); b.add_rectangle(&rect, want); b.build() }))
            }
            1 => {
                // a negative radius is taken by its absolute value (add_circle says so in its code)
                let rad = if degenerate { 0.0 } else { dim(r) * if r.chance(1, 6) { -1.0 } else { 1.0 } };
                (format!("add_circle({:?}, {}, {:?})", c, rad, want), catch(|| { let mut b = Path::builder(); b.add_circle(c, rad, want); b.build() }))
            }
            2 => {
                let radii = if degenerate { *r.pick(&[vector(0.0f32, 0.0f32), vector(0.0, 3.0), vector(4.0, 0.0)]) } else { vector(dim(r), dim(r)) };
                let rot = if r.chance(1, 3) { 0.0 } else { r.unit_f64() as f32 * 6.2 - 3.1 };
                (format!("add_ellipse({:?}, {:?}, {} rad, {:?})", c, radii, rot, want), catch(|| { let mut b = Path::builder(); b.add_ellipse(c, radii, Angle::radians(rot), want); b.build() }))
            }
            3 => {
                let (w, h) = if degenerate { *r.pick(&[(0.0f32, 0.0f32), (0.0, 3.0), (4.0, 0.0), (6.0, 5.0)]) } else { (dim(r), dim(r)) };
                let rect = Box2D { min: c, max: c + vector(w, h) };
                let rd = |r: &mut Rng| if degenerate || r.chance(1, 5) { 0.0 } else { r.range(1, 24) as f32 * 0.25 * if r.chance(1, 8) { -1.0 } else { 1.0 } };
                let radii = if r.chance(1, 2) { BorderRadii::new(rd(r)) } else { BorderRadii { top_left: rd(r), top_right: rd(r), bottom_left: rd(r), bottom_right: rd(r) } };
                (format!("add_rounded_rectangle({:?}, {}, {:?})", rect, radii, want), catch(|| { let mut b = Path::builder(); b.add_rounded_rectangle(&rect, &radii, want); b.build() }))
            }
            _ => {
                // add_polygon takes no Winding in this version: the direction is that of the points handed in
                let k = if degenerate { 1 + r.below(2) as usize } else { 3 + r.below(5) as usize };
                let dir = if want == Winding::Positive { 1.0f32 } else { -1.0 };
                let a0 = r.unit_f64() as f32 * 6.0;
                let pts: Vec<Point> = (0..k)
                    .map(|i| {
                        let a = a0 + dir * i as f32 * std::f32::consts::TAU / k as f32;
                        c + vector(a.cos(), a.sin()) * (2.0 + r.below(8) as f32)
                    })
                    .collect();
                let closed = r.chance(3, 4);
                let p2 = pts.clone();
                (format!("add_polygon({:?}, closed: {}) [{:?}]", pts, closed, want), catch(move || { let mut b = Path::builder(); b.add_polygon(lyon_path::Polygon { points: &p2, closed }); b.build() }))
            }
        };
        st.inc("audit_shape_helpers");
        st.inc(&format!("audit_shape_{}{}", ["rectangle", "circle", "ellipse", "rounded_rectangle", "polygon"][which as usize], if degenerate { "_degenerate" } else { "" }));
        let path = match built {
            Some(p) => p,
            None => {
                afail(st, "audit: shape helper panicked", label, None);
                continue;
            }
        };
        let subs = apath_read(&path);
        if subs.len() != 1 {
            afail(st, "audit: shape helper did not add exactly one sub-path", format!("{}: {}", label, subs.len()), None);
            continue;
        }
        let fine = afine(&subs, AUDIT_N);
        let (fa, per, gross) = aarea(&fine[0]);
        let bound = per * tol as f64 + 1e-4 * gross + 1e-4;
        let res = catch(std::panic::AssertUnwindSafe(|| (compute_winding(&mut path.iter()), approximate_signed_area(tol, path.iter()))));
        let (got, area) = match res {
            Some(x) => x,
            None => {
                afail(st, "audit: compute_winding / signed area of a helper shape panicked", label, None);
                continue;
            }
        };
        let positive = want == Winding::Positive;
        // a single-point / two-point polygon and the zero-size shapes enclose nothing
        let null_area = degenerate && !(which == 3 && fa.abs() > 1.0);
        if null_area {
            // nothing is enclosed: the area must be (about) zero; compute_winding's result is unspecified for a null
            // area (its documentation) and is only recorded
            st.inc(&format!("audit_obs_null_{}_reports_{:?}_for_requested_{:?}", ["rectangle", "circle", "ellipse", "rounded_rectangle", "polygon"][which as usize], got, want));
            if !(area.abs() as f64 <= bound) || !(fa.abs() <= 1e-3) {
                afail(st, "audit: a zero-size helper shape has a non-zero area", format!("{}: reported {} fine flattening {}", label, area, fa), None);
            }
        } else {
            if (fa > 0.0) != positive || !(fa.abs() > 1e-6) {
                afail(st, "audit: the outline built by a shape helper does not turn in the requested direction", format!("{}: area of the fine flattening {} :: {}", label, fa, apath_text(&subs)), None);
            }
            if got != Some(want) {
                afail(st, "audit: compute_winding of a helper shape is not the requested winding", format!("{}: {:?}", label, got), None);
            }
            // (the sign of the reported area is only decided when the area exceeds the bound: a radius below the tolerance)
            if (fa.abs() > bound && (area > 0.0) != positive) || !((area as f64 - fa).abs() <= bound) {
                afail(st, "audit: signed area of a helper shape has the wrong sign or differs from its fine flattening by more than perimeter x tolerance", format!("{}: reported {} fine {} bound {}", label, area, fa, bound), None);
            }
        }
        // winding numbers, hit test, fill and reversal on the shape as built
        audit_path(st, r, &subs, "helper_shape", !null_area, tol, 16);
    }
    // observation only: negative ellipse radii (a circle takes |radius|; an ellipse with ONE negative radius is mirrored)
    for (rx, ry) in [(-3.0f32, 2.0f32), (3.0, -2.0), (-3.0, -2.0)] {
        for want in [Winding::Positive, Winding::Negative] {
            if let Some(p) = catch(|| { let mut b = Path::builder(); b.add_ellipse(point(0.0, 0.0), vector(rx, ry), Angle::radians(0.0), want); b.build() }) {
                let got = compute_winding(&mut p.iter());
                st.inc(if got == Some(want) { "audit_obs_ellipse_negative_radius_keeps_direction" } else { "audit_obs_ellipse_negative_radius_flips_direction" });
            }
        }
    }
}

pub fn main(args: &Args) -> std::io::Result<()> {
    let mut st = Stats::default();
    let mut w = ShardWriter::new(&args.out, "c18_cases", args.shards, HEADER, "bad_cases");
    w.disabled = args.direct_only();
    let mut idx = std::fs::File::create(args.out.join("c18_index.txt"))?;
    let mut cx = Cx { w: &mut w, st: &mut st, idx: &mut idx, id: 0 };
    let g: i64 = if args.thorough() { 4 } else { 3 };
    // exhaustive: every closed polygon with 3 or 4 vertices on the g x g lattice (doubled coordinates 0,2,..)
    let n = g * g;
    let pt = |k: i64| -> IP { ((k / g) * 2, (k % g) * 2) };
    let stride = if args.thorough() { 3 } else { 1 };
    for a in 0..n {
        for b in 0..n {
            for c in 0..n {
                run_polygon(&mut cx, &[vec![pt(a), pt(b), pt(c)]], &[true], -1, 2 * g - 1, stride, "exhaustive3");
                for d in 0..n {
                    run_polygon(&mut cx, &[vec![pt(a), pt(b), pt(c), pt(d)]], &[true], -1, 2 * g - 1, stride * 2, "exhaustive4");
                }
            }
        }
    }
    cx.st.add("exhaustive_lattice_side", g as u64);
    // random multi-sub-path paths, open sub-paths (implicitly closed), up to 12 vertices
    let mut rng = Rng::new(args.seed);
    for _ in 0..(if args.thorough() { 3000 } else { 300 }) {
        let nsub = 1 + rng.below(3) as usize;
        let mut subs = Vec::new();
        let mut close = Vec::new();
        for _ in 0..nsub {
            let k = 1 + rng.below(6) as usize;
            subs.push((0..k).map(|_| (rng.range(0, 5) * 2, rng.range(0, 5) * 2)).collect::<Vec<IP>>());
            close.push(rng.chance(1, 2));
        }
        run_polygon(&mut cx, &subs, &close, -1, 11, 2, "random");
    }
    drop(cx);
    curved_and_shapes(args, &mut st);
    audit_curved(args, &mut st);
    audit_shapes(args, &mut st);
    w.finish()?;
    st.write(&args.out.join("c18_stats.json"))
}
