//! C19: measuring, sampling, walking, splitting by distance.
//! Sampler query sequences (cursor state) on paths with several sub-paths, single-point
//! sub-paths, curves; the table, the cursor after every query and the selected event are printed
//! for the Coq model.  Positions / attributes / lengths / split additivity / walker events are
//! checked directly against an independent f64 arc-length computation.
//! Second part (walker_checks, measure_edge_checks): the walker on curved paths, with custom attributes,
//! with RegularPattern / RepeatedPattern, stopped by the callback or by Pattern::begin, with degenerate
//! paths and intervals, against a dense reference built from the builder program and against the sampler
//! at the same distances; normalized / out-of-range samples, zero-length and empty paths, sub-ranges in
//! absolute distances.
use crate::tess::*;
use crate::util::*;
use lyon_algorithms::length::approximate_length;
use lyon_algorithms::measure::{PathMeasurements, SampleType};
use lyon_algorithms::walk::{walk_along_path, PathWalker, Pattern, RegularPattern, RepeatedPattern, WalkerEvent};
use lyon_path::iterator::PathIterator;
use lyon_path::math::{point, Point, Vector};
use lyon_path::traits::{Build, PathBuilder};
use lyon_path::{Event, Path, PathEvent};
use std::panic::AssertUnwindSafe;

pub const HEADER: &str =
    "From Coq Require Import QArith.\nFrom LV Require Import Base.Prelude Model.Bezier Model.Measure Run.C19.\nOpen Scope Q_scope.";

fn gq(v: f32) -> String {
    if v.is_finite() {
        gq32(v)
    } else {
        "(123456789 # 1)".into()
    }
}

/// polyline (in f64) of the flattened path, per sub-path, with the closing edge when closed
fn flat_polyline(path: &Path, tol: f32) -> Vec<Vec<(f64, f64)>> {
    let mut subs: Vec<Vec<(f64, f64)>> = Vec::new();
    for e in path.iter().flattened(tol) {
        match e {
            PathEvent::Begin { at } => subs.push(vec![(at.x as f64, at.y as f64)]),
            PathEvent::Line { to, .. } => subs.last_mut().unwrap().push((to.x as f64, to.y as f64)),
            PathEvent::End { first, close, .. } => {
                if close {
                    subs.last_mut().unwrap().push((first.x as f64, first.y as f64));
                }
            }
            _ => {}
        }
    }
    subs
}

fn poly_len(subs: &[Vec<(f64, f64)>]) -> f64 {
    subs.iter().map(|s| s.windows(2).map(|w| ((w[1].0 - w[0].0).powi(2) + (w[1].1 - w[0].1).powi(2)).sqrt()).sum::<f64>()).sum()
}

/// all points at path distance d (ties at sub-path boundaries give several)
fn points_at(subs: &[Vec<(f64, f64)>], d: f64, eps: f64) -> Vec<(f64, f64)> {
    let mut out = Vec::new();
    let mut acc = 0.0;
    for s in subs {
        if s.len() == 1 && (acc - d).abs() <= eps {
            out.push(s[0]);
        }
        for w in s.windows(2) {
            let l = ((w[1].0 - w[0].0).powi(2) + (w[1].1 - w[0].1).powi(2)).sqrt();
            if l == 0.0 && (acc - d).abs() <= eps {
                out.push(w[0]);
            }
            if d >= acc - eps && d <= acc + l + eps && l > 0.0 {
                let t = ((d - acc) / l).max(0.0).min(1.0);
                out.push((w[0].0 + (w[1].0 - w[0].0) * t, w[0].1 + (w[1].1 - w[0].1) * t));
            }
            acc += l;
        }
    }
    out
}

/// is p within `eps` of a point of the polyline whose arc-length position is within `ds` of s?
fn on_path_near(subs: &[Vec<(f64, f64)>], p: (f64, f64), s: f64, eps: f64, ds: f64) -> bool {
    let mut acc = 0.0;
    for sub in subs {
        for w in sub.windows(2) {
            let (vx, vy) = (w[1].0 - w[0].0, w[1].1 - w[0].1);
            let l = (vx * vx + vy * vy).sqrt();
            if l == 0.0 && ((w[0].0 - p.0).powi(2) + (w[0].1 - p.1).powi(2)).sqrt() <= eps && (acc - s).abs() <= ds {
                return true;
            }
            if l > 0.0 {
                let t = (((p.0 - w[0].0) * vx + (p.1 - w[0].1) * vy) / (l * l)).max(0.0).min(1.0);
                let (qx, qy) = (w[0].0 + vx * t, w[0].1 + vy * t);
                let d = ((qx - p.0).powi(2) + (qy - p.1).powi(2)).sqrt();
                if d <= eps && (acc + t * l - s).abs() <= ds {
                    return true;
                }
            }
            acc += l;
        }
    }
    false
}

/// Known-finding classes for curved paths (see known_findings.txt):
/// K7 = a curve with nearly collinear control points (hairpin, or straight with non-uniform
///      parameter speed): distance <-> parameter interpolation inside a flattened piece is off;
/// K8 = a curve whose control point coincides with an end point: derivative vanishes there.
fn curve_class(path: &Path) -> Option<&'static str> {
    let mut k8 = false;
    let mut k7 = false;
    for e in path.iter() {
        let near = |a: Point, b: Point, c: Point| -> bool {
            let (u, v) = (b - a, c - a);
            let (lu, lv) = (u.length(), v.length());
            lu < 1e-6 || lv < 1e-6 || (u.cross(v)).abs() / (lu * lv) < 0.35
        };
        match e {
            PathEvent::Quadratic { from, ctrl, to } => {
                if ctrl == from || ctrl == to {
                    k8 = true;
                }
                if near(from, ctrl, to) {
                    k7 = true;
                }
            }
            PathEvent::Cubic { from, ctrl1, ctrl2, to } => {
                if ctrl1 == from || ctrl2 == to {
                    k8 = true;
                }
                if near(from, ctrl1, to) || near(from, ctrl2, to) || near(ctrl1, ctrl2, to) {
                    k7 = true;
                }
            }
            _ => {}
        }
    }
    if k7 {
        Some("K7")
    } else if k8 {
        // a control point coinciding with its end point: part of K7's stated domain ("ctrl == endpoint")
        Some("K7")
    } else {
        None
    }
}

fn fail_c(st: &mut Stats, path: &Path, curved: bool, what: &str, input: String) {
    let mut fields = vec![("what", jstr(what)), ("input", jstr(&input))];
    if curved {
        if let Some(c) = curve_class(path) {
            fields.push(("class", jstr(c)));
        }
    }
    st.fail(jobj(&fields));
}

struct Pat {
    dists: Vec<f32>,
    k: usize,
    events: Vec<(Point, f32)>,
}
impl Pattern for Pat {
    fn next(&mut self, e: WalkerEvent) -> Option<f32> {
        self.events.push((e.position, e.distance));
        let r = self.dists.get(self.k).copied();
        self.k += 1;
        r
    }
}

pub fn main(args: &Args) -> std::io::Result<()> {
    use std::io::Write;
    let mut st = Stats::default();
    let mut w = ShardWriter::new(&args.out, "c19_cases", args.shards, HEADER, "bad_cases");
    w.disabled = args.direct_only();
    let mut idx = std::fs::File::create(args.out.join("c19_index.txt"))?;
    let mut rng = Rng::new(args.seed ^ 0x19);
    let n = if args.thorough() { 8000 } else { 1000 };
    let mut id = 0usize;
    for it in 0..n {
        // ---------------- paths: 3-4-5 polylines (exact lengths), single-point sub-paths, curves
        let curved = it % 3 == 2;
        let n_attr = (it % 4 == 1) as usize * 2;
        let spec = if curved {
            random_curved(&mut rng, n_attr, 3, 3, 12)
        } else {
            // steps from Pythagorean vectors so that every edge length is an integer
            let steps: [(f32, f32); 8] = [(3.0, 4.0), (4.0, 3.0), (-3.0, 4.0), (5.0, 0.0), (0.0, -5.0), (6.0, 8.0), (-4.0, -3.0), (0.0, 2.0)];
            let nsub = 1 + rng.below(4) as usize;
            let mut subs = Vec::new();
            for _ in 0..nsub {
                let mut p = point(rng.range(-5, 5) as f32, rng.range(-5, 5) as f32);
                let start = p;
                let attrs = |r: &mut Rng| -> Vec<f32> { (0..n_attr).map(|_| r.range(-8, 8) as f32).collect() };
                let start_attrs = attrs(&mut rng);
                let k = if rng.chance(1, 4) { 0 } else { 1 + rng.below(4) as usize };
                let mut segs = Vec::new();
                for _ in 0..k {
                    let s = *rng.pick(&steps);
                    p = point(p.x + s.0, p.y + s.1);
                    segs.push(Seg::Line(p, attrs(&mut rng)));
                }
                subs.push(Sub { start, start_attrs, segs, close: rng.chance(1, 3) });
            }
            PathSpec { n_attr, subs }
        };
        let path = spec.build();
        let tol = 0.01f32;
        let label = format!("{:?}", path);
        if curved {
            // Curves on which lyon's flattening itself is off (known finding K2 of C09: is_linear
            // overshoot, start == end) make every length-based reference meaningless: they are C09's
            // subject, skipped here and counted.
            let analytic = approximate_length(path.iter(), 0.0005) as f64;
            let flat = poly_len(&flat_polyline(&path, 0.0005));
            if (analytic - flat).abs() > 0.005 * (1.0 + flat) {
                st.inc("skipped_flattening_defect_curves");
                continue;
            }
        }
        // every way of building the measurements gives the same table (also an object re-initialised after other use)
        {
            let same = catch(AssertUnwindSafe(|| {
                let base = PathMeasurements::from_path(&path, tol).verif_table();
                let a = PathMeasurements::from_path_slice(&path.as_slice(), tol).verif_table();
                let b = PathMeasurements::from_iter(path.id_iter(), &path, tol).verif_table();
                let mut m = PathMeasurements::empty();
                let mut other = lyon_path::Path::builder();
                other.begin(lyon_path::math::point(100.0, 100.0));
                other.line_to(lyon_path::math::point(130.0, 140.0));
                other.quadratic_bezier_to(lyon_path::math::point(140.0, 100.0), lyon_path::math::point(150.0, 150.0));
                other.end(true);
                let other = other.build();
                m.initialize_with_path(&other, tol);
                m.initialize_with_path(&path, tol);
                let c = m.verif_table();
                m.initialize_with_path_slice(other.as_slice(), tol);
                m.initialize_with_path_slice(path.as_slice(), tol);
                let d = m.verif_table();
                m.initialize(other.id_iter(), &other, tol);
                m.initialize(path.id_iter(), &path, tol);
                let e = m.verif_table();
                base == a && base == b && base == c && base == d && base == e
            }));
            if same != Some(true) {
                st.fail(jobj(&[("what", jstr("the ways of building / re-initialising PathMeasurements disagree")), ("input", jstr(&format!("{:?} tol {}", path, tol)))]));
            }
        }
        let r = catch(AssertUnwindSafe(|| {
            let m = PathMeasurements::from_path(&path, tol);
            let (table, kinds) = m.verif_table();
            let len = m.length();
            let mut sampler = m.create_sampler_with_attributes(&path, &path, SampleType::Distance);
            let nq = 1 + rng.below(12) as usize;
            let mut queries = Vec::new();
            for q in 0..nq {
                let d = match rng.below(6) {
                    0 => 0.0,
                    1 => len,
                    2 => table[rng.below(table.len().max(1) as u64) as usize % table.len().max(1)].0,
                    3 => (rng.range(0, 40) as f32) * 0.5,
                    _ => (rng.unit_f64() as f32) * len * 1.1 - 0.05 * len,
                };
                let _ = q;
                let s = sampler.sample(d);
                let pos = s.position();
                let tan = s.tangent();
                let cursor = sampler.verif_cursor();
                let mut s2 = sampler.sample(d);
                let attrs = s2.attributes().to_vec();
                queries.push((d, cursor, pos, tan, attrs));
            }
            (table, kinds, len, queries)
        }));
        st.inc("evaluations");
        st.inc(if curved { "curved_paths" } else { "polyline_paths" });
        let (table, kinds, len, queries) = match r {
            Some(x) => x,
            None => {
                st.fail(jobj(&[("what", jstr("measuring / sampling panicked")), ("input", jstr(&label))]));
                continue;
            }
        };
        st.note_case(&label, table.len() > 2);
        // ---- direct checks
        let fine = flat_polyline(&path, if curved { 0.0005 } else { 0.01 });
        let want_len = poly_len(&fine);
        let slack = if curved { 0.02 * (1.0 + want_len) } else { 1e-4 * (1.0 + want_len) };
        if (len as f64 - want_len).abs() > slack {
            st.fail(jobj(&[("what", jstr("measured length differs from the length of the flattened path")), ("input", jstr(&format!("{} measured {} flattened {}", label, len, want_len)))]));
        }
        let al = approximate_length(path.iter(), tol);
        if (al as f64 - want_len).abs() > slack {
            st.fail(jobj(&[("what", jstr("approximate_length differs from the length of the flattened path")), ("input", jstr(&format!("{} {} vs {}", label, al, want_len)))]));
        }
        if len > 0.0 {
            for (d, _cursor, pos, tan, _attrs) in &queries {
                let dc = d.max(0.0).min(len) as f64;
                // the measured table is the reference for distances on curves: rescale
                let cands = points_at(&fine, dc * want_len / (len as f64), if curved { 0.05 } else { 1e-3 });
                let ok = if curved {
                    on_path_near(&fine, (pos.x as f64, pos.y as f64), dc * want_len / (len as f64), 0.03, 0.02 * want_len + 0.1)
                } else {
                    cands.iter().any(|c| ((c.0 - pos.x as f64).powi(2) + (c.1 - pos.y as f64).powi(2)).sqrt() <= 2e-3)
                };
                if !ok || !pos.x.is_finite() {
                    fail_c(&mut st, &path, curved, "sample is not the point at the requested distance along the path", format!("{} d={} got {:?} candidates {:?}", label, d, pos, cands));
                    break;
                }
                if !(tan.x.is_finite() && tan.y.is_finite()) || ((tan.x * tan.x + tan.y * tan.y).sqrt() - 1.0).abs() > 1e-3 {
                    // a zero-length segment has no tangent; only flag when the table has no zero-length rows
                    let zero_len_rows = table.windows(2).any(|w| w[0].0 == w[1].0 && kinds[w[1].1] == 1);
                    if !zero_len_rows {
                        fail_c(&mut st, &path, curved, "sample tangent is not a unit vector", format!("{} d={} tangent {:?}", label, d, tan));
                        break;
                    }
                }
            }
            // history independence: a fresh sampler gives the same answer (or another valid tie)
            let m = PathMeasurements::from_path(&path, tol);
            for (d, _c, pos, _t, attrs) in &queries {
                let mut fresh = m.create_sampler_with_attributes(&path, &path, SampleType::Distance);
                let mut s = fresh.sample(*d);
                let p2 = s.position();
                let a2 = s.attributes().to_vec();
                if (p2 - *pos).length() > 1e-3 {
                    // allowed only if both are points at distance d (tie between sub-paths)
                    let dc = d.max(0.0).min(len) as f64;
                    let cands = points_at(&fine, dc * want_len / (len as f64), 0.05);
                    let both = [p2, *pos].iter().all(|q| cands.iter().any(|c| ((c.0 - q.x as f64).powi(2) + (c.1 - q.y as f64).powi(2)).sqrt() <= 0.08));
                    if !both {
                        st.fail(jobj(&[("what", jstr("sample depends on the history of queries")), ("input", jstr(&format!("{} d={} {:?} vs fresh {:?}", label, d, pos, p2)))]));
                        break;
                    }
                } else if n_attr > 0 && attrs.iter().zip(a2.iter()).any(|(x, y)| (x - y).abs() > 1e-3) {
                    // at a zero-length segment (coincident consecutive end points carrying different attributes) the
                    // distance designates both of its ends: either end's attributes answer the query
                    let at_zero_length_row = table.windows(2).any(|w| w[0].0 == w[1].0 && kinds[w[1].1] == 1 && (w[0].0 - d.max(0.0).min(len)).abs() <= 1e-3 * (1.0 + len));
                    if at_zero_length_row {
                        st.inc("attribute_ties_at_zero_length_segments");
                        continue;
                    }
                    st.fail(jobj(&[("what", jstr("sampled attributes depend on the history of queries")), ("input", jstr(&format!("{} d={}", label, d)))]));
                    break;
                }
            }
            // split additivity: a..b and b..c add up to a..c
            let r = catch(AssertUnwindSafe(|| {
                let m = PathMeasurements::from_path(&path, tol);
                let mut sampler = m.create_sampler(&path, SampleType::Normalized);
                let mut cuts = [rng.unit_f64() as f32, rng.unit_f64() as f32, rng.unit_f64() as f32];
                cuts.sort_by(|a, b| a.partial_cmp(b).unwrap());
                let mut lens = Vec::new();
                for (a, b) in [(cuts[0], cuts[1]), (cuts[1], cuts[2]), (cuts[0], cuts[2])] {
                    let mut out = Path::builder();
                    sampler.split_range(a..b, &mut out);
                    lens.push(approximate_length(out.build().iter(), tol * 0.1));
                }
                (cuts, lens)
            }));
            match r {
                None => st.fail(jobj(&[("what", jstr("split_range panicked")), ("input", jstr(&label))])),
                Some((cuts, lens)) => {
                    let e = if curved { 0.03 * (1.0 + len) } else { 2e-3 * (1.0 + len) };
                    if (lens[0] + lens[1] - lens[2]).abs() > e || (lens[2] - (cuts[2] - cuts[0]) * len).abs() > e {
                        fail_c(&mut st, &path, curved, "lengths of split sub-ranges do not add up", format!("{} cuts {:?} lens {:?} total {}", label, cuts, lens, len));
                    }
                }
            }
        }
        // ---- model case: table + queries
        if len > 0.0 {
            writeln!(idx, "{}\t{}", id, label).ok();
            st.sample(format!("{} table {} rows, {} queries", label, table.len(), queries.len()));
            w.push(format!(
                "(CS (mkSC {} {} [{}]%Z {}))",
                id,
                glist(table.iter().map(|(d, i, t)| format!("({}, {}%Z, {})", gq(*d), i, gq(*t)))),
                kinds.iter().map(|k| format!("{}", k)).collect::<Vec<_>>().join("; "),
                glist(queries.iter().map(|(d, c, _, _, _)| {
                    let dc = d.max(0.0).min(len);
                    format!("({}, {}%Z, {}%Z)", gq(dc), c, table[*c].1)
                }))
            ));
            id += 1;
        }

        // ---------------- walker on the polyline paths (exact integer edge lengths)
        if !curved {
            let start = rng.range(0, 6) as f32 * 0.5;
            let pd: Vec<f32> = (0..(1 + rng.below(20))).map(|_| *rng.pick(&[0.5f32, 1.0, 1.5, 2.0, 3.0, 7.0, 0.25])).collect();
            let mut pat = Pat { dists: pd.clone(), k: 0, events: vec![] };
            let r = catch(AssertUnwindSafe(|| walk_along_path(path.iter(), start, tol, &mut pat)));
            st.inc("evaluations");
            st.inc("walker_runs");
            if r.is_none() {
                st.fail(jobj(&[("what", jstr("walker panicked")), ("input", jstr(&label))]));
            } else {
                // the walker visits exactly the cumulative distances it was asked for, on the path
                let mut want = start;
                for (k, (pos, dist)) in pat.events.iter().enumerate() {
                    if (dist - want).abs() > 1e-3 {
                        st.fail(jobj(&[("what", jstr("walker event is not at the cumulative requested distance")), ("input", jstr(&format!("{} start {} pattern {:?} event {} at {} expected {}", label, start, pd, k, dist, want)))]));
                        break;
                    }
                    // the walker does not count the gap between sub-paths, like the measured length
                    let cands = points_at(&fine, *dist as f64, 1e-3);
                    if !cands.iter().any(|c| ((c.0 - pos.x as f64).powi(2) + (c.1 - pos.y as f64).powi(2)).sqrt() <= 2e-3) {
                        st.fail(jobj(&[("what", jstr("walker event position is not at its distance along the path")), ("input", jstr(&format!("{} start {} pattern {:?} event {} {:?} d={}", label, start, pd, k, pos, dist)))]));
                        break;
                    }
                    want += pd.get(k).copied().unwrap_or(0.0);
                }
                // edge lengths as the walker sees them (zero-length edges are skipped by the code: d < 1e-5)
                let mut lengths: Vec<f32> = Vec::new();
                for s in &fine {
                    for wv in s.windows(2) {
                        let l = (((wv[1].0 - wv[0].0).powi(2) + (wv[1].1 - wv[0].1).powi(2)).sqrt()) as f32;
                        if l >= 1e-5 {
                            lengths.push(l);
                        }
                    }
                }
                // map each event to its edge number by cumulative length
                let mut evs = Vec::new();
                for (_, dist) in &pat.events {
                    let mut acc = 0.0f32;
                    let mut k = 0usize;
                    for (i, l) in lengths.iter().enumerate() {
                        if *dist <= acc + l {
                            k = i;
                            break;
                        }
                        acc += l;
                        k = i;
                    }
                    evs.push((k, *dist));
                }
                writeln!(idx, "{}\twalk {} start {} pattern {:?}", id, label, start, pd).ok();
                w.push(format!(
                    "(CW (mkWC {} {} {} {} {}))",
                    id,
                    glist(lengths.iter().map(|l| gq(*l))),
                    gq(start),
                    glist(pd.iter().map(|d| gq(*d))),
                    glist(evs.iter().map(|(k, d)| format!("({}%Z, {})", k, gq(*d))))
                ));
                id += 1;
            }
        }
    }
    // corpus: the single-point-first path
    {
        let mut b = Path::builder();
        b.begin(point(1.0, 1.0));
        b.end(false);
        b.begin(point(0.0, 0.0));
        b.line_to(point(3.0, 4.0));
        b.end(false);
        let path = b.build();
        let r = catch(AssertUnwindSafe(|| {
            let m = PathMeasurements::from_path(&path, 0.01);
            let mut s = m.create_sampler(&path, SampleType::Distance);
            let p0 = s.sample(0.0).position();
            let p1 = s.sample(5.0).position();
            (p0, p1)
        }));
        st.inc("evaluations");
        st.inc("corpus");
        match r {
            Some((p0, p1)) if (p0 == point(0.0, 0.0) || p0 == point(1.0, 1.0)) && p1 == point(3.0, 4.0) => {}
            other => st.fail(jobj(&[("what", jstr("sample on a path starting with a single-point sub-path")), ("input", jstr(&format!("{:?}", other)))])),
        }
    }
    walker_checks(args, &mut st);
    measure_edge_checks(args, &mut st);
    w.finish()?;
    st.write(&args.out.join("c19_stats.json"))
}

// =====================================================================================
// Walker on curved paths / with custom attributes / with the built-in patterns, checked against
// (B) a dense independent reference of the path and (A) the sampler at the same distance.
// =====================================================================================

/// Failures of the checks below are counted per kind in a counter "failed: <what>" and listed at most 25
/// times per kind, so that a defect hit by every other case (there are two in the walker) does not crowd
/// the rarer kinds out of the list of failures.  `class_path`: the path whose curves decide a known class.
fn fail_n(st: &mut Stats, class_path: Option<&Path>, what: &str, input: String) {
    let key = format!("failed: {}", what);
    st.inc(&key);
    if st.counters[&key] > 25 {
        st.inc("failures_counted_but_not_listed");
        return;
    }
    match class_path {
        Some(p) => fail_c(st, p, true, what, input),
        None => st.fail(jobj(&[("what", jstr(what)), ("input", jstr(&input))])),
    }
}

/// One edge of the dense reference polyline (f64).
struct DEdge {
    p0: (f64, f64),
    p1: (f64, f64),
    /// arc length of the reference before this edge (gaps between sub-paths have no length)
    s0: f64,
    len: f64,
    seg: usize,
    t0: f64,
    t1: f64,
    /// turning (radians, absolute) accumulated inside curves before this edge
    turn0: f64,
}

enum DCurve {
    Line,
    Quad(lyon_geom::QuadraticBezierSegment<f64>),
    Cubic(lyon_geom::CubicBezierSegment<f64>),
}

struct DSeg {
    a0: Vec<f32>,
    a1: Vec<f32>,
    curve: DCurve,
}

impl DSeg {
    /// unit direction of the curve at parameter t, from a central difference of `sample`
    fn direction(&self, t: f64) -> Option<(f64, f64)> {
        let h = 1e-7;
        let (t0, t1) = ((t - h).max(0.0), (t + h).min(1.0));
        let (a, b) = match &self.curve {
            DCurve::Line => return None,
            DCurve::Quad(q) => (q.sample(t0), q.sample(t1)),
            DCurve::Cubic(c) => (c.sample(t0), c.sample(t1)),
        };
        let v = (b.x - a.x, b.y - a.y);
        let l = (v.0 * v.0 + v.1 * v.1).sqrt();
        if l > 0.0 {
            Some((v.0 / l, v.1 / l))
        } else {
            None
        }
    }
}

/// Dense reference of a path, built from the builder program (not from lyon's iterators or
/// flattening): every curve is sampled at `n` equal parameter steps with lyon_geom's f64 `sample`,
/// arc lengths are accumulated over the whole path, each edge remembers the segment and the
/// parameter range it covers.
struct Dense {
    edges: Vec<DEdge>,
    /// first point of every sub-path with the arc length before it (a sub-path reduced to a point is a
    /// point of the path at that distance)
    starts: Vec<((f64, f64), f64)>,
    /// arc lengths at which the path has a piece of length zero (single-point sub-path, repeated point,
    /// curve reduced to a point): a sample there has no tangent
    zero_at: Vec<f64>,
    /// the path that decides the known-finding class of a failure (see class_path)
    class: Path,
    segs: Vec<DSeg>,
    total: f64,
    turn: f64,
    scale: f64,
    has_curves: bool,
}

struct Cand {
    err: f64,
    t: f64,
    /// how far the parameter may be off when the position is only known within the position slack
    t_slack: f64,
    dir: (f64, f64),
    seg: usize,
}

enum Verdict {
    Ok,
    OffPath(f64),
    Tangent,
    Attrs(Vec<f64>),
}

impl Dense {
    fn new(spec: &PathSpec, n: usize) -> Dense {
        let mut d = Dense { edges: vec![], starts: vec![], zero_at: vec![], class: class_path(spec), segs: vec![], total: 0.0, turn: 0.0, scale: 0.0, has_curves: false };
        let f = |p: Point| (p.x as f64, p.y as f64);
        let gp = |p: Point| lyon_geom::point(p.x as f64, p.y as f64);
        let mut scale = 0.0f64;
        let mut see = |p: Point| {
            scale = scale.max(p.x.abs() as f64).max(p.y.abs() as f64);
        };
        for sub in &spec.subs {
            let mut cur = sub.start;
            let mut cur_a = sub.start_attrs.clone();
            see(cur);
            d.starts.push((f(cur), d.total));
            if sub.segs.is_empty() && !sub.close {
                d.zero_at.push(d.total);
            }
            for g in &sub.segs {
                match g {
                    Seg::Line(p, a) => {
                        see(*p);
                        d.chain(&[(f(cur), 0.0), (f(*p), 1.0)], &cur_a, a, DCurve::Line);
                        cur = *p;
                        cur_a = a.clone();
                    }
                    Seg::Quad(c, p, a) => {
                        see(*c);
                        see(*p);
                        let q = lyon_geom::QuadraticBezierSegment { from: gp(cur), ctrl: gp(*c), to: gp(*p) };
                        let pts: Vec<((f64, f64), f64)> = (0..=n)
                            .map(|i| {
                                let t = i as f64 / n as f64;
                                let s = q.sample(t);
                                ((s.x, s.y), t)
                            })
                            .collect();
                        d.chain(&pts, &cur_a, a, DCurve::Quad(q));
                        cur = *p;
                        cur_a = a.clone();
                    }
                    Seg::Cubic(c1, c2, p, a) => {
                        see(*c1);
                        see(*c2);
                        see(*p);
                        let q = lyon_geom::CubicBezierSegment { from: gp(cur), ctrl1: gp(*c1), ctrl2: gp(*c2), to: gp(*p) };
                        let pts: Vec<((f64, f64), f64)> = (0..=n)
                            .map(|i| {
                                let t = i as f64 / n as f64;
                                let s = q.sample(t);
                                ((s.x, s.y), t)
                            })
                            .collect();
                        d.chain(&pts, &cur_a, a, DCurve::Cubic(q));
                        cur = *p;
                        cur_a = a.clone();
                    }
                }
            }
            if sub.close {
                d.chain(&[(f(cur), 0.0), (f(sub.start), 1.0)], &cur_a, &sub.start_attrs, DCurve::Line);
            }
        }
        d.scale = scale;
        d
    }

    fn chain(&mut self, pts: &[((f64, f64), f64)], a0: &[f32], a1: &[f32], kind: DCurve) {
        let seg = self.segs.len();
        let curve = !matches!(kind, DCurve::Line);
        self.segs.push(DSeg { a0: a0.to_vec(), a1: a1.to_vec(), curve: kind });
        let mut prev_dir: Option<(f64, f64)> = None;
        for w in pts.windows(2) {
            let (p0, t0) = w[0];
            let (p1, t1) = w[1];
            let v = (p1.0 - p0.0, p1.1 - p0.1);
            let len = (v.0 * v.0 + v.1 * v.1).sqrt();
            if len == 0.0 {
                self.zero_at.push(self.total);
                continue;
            }
            let dir = (v.0 / len, v.1 / len);
            if let (Some(pd), true) = (prev_dir, curve) {
                self.turn += (pd.0 * dir.1 - pd.1 * dir.0).atan2(pd.0 * dir.0 + pd.1 * dir.1).abs();
            }
            prev_dir = Some(dir);
            self.edges.push(DEdge { p0, p1, s0: self.total, len, seg, t0, t1, turn0: self.turn });
            self.total += len;
            if curve {
                self.has_curves = true;
            }
        }
    }

    /// turning accumulated inside curves up to arc length s (rounded up to the next edge)
    fn turning_upto(&self, s: f64) -> f64 {
        let i = self.edges.partition_point(|e| e.s0 <= s);
        if i < self.edges.len() {
            self.edges[i].turn0
        } else {
            self.turn
        }
    }

    /// closest points to p among the reference points whose arc length lies in [lo, hi]
    fn locate(&self, p: (f64, f64), lo: f64, hi: f64, dp: f64) -> Vec<Cand> {
        let mut out = Vec::new();
        let first = self.edges.partition_point(|e| e.s0 + e.len < lo);
        for e in &self.edges[first..] {
            if e.s0 > hi {
                break;
            }
            let u_lo = ((lo - e.s0) / e.len).max(0.0).min(1.0);
            let u_hi = ((hi - e.s0) / e.len).max(0.0).min(1.0);
            let v = (e.p1.0 - e.p0.0, e.p1.1 - e.p0.1);
            let u = (((p.0 - e.p0.0) * v.0 + (p.1 - e.p0.1) * v.1) / (e.len * e.len)).max(u_lo).min(u_hi);
            let q = (e.p0.0 + v.0 * u, e.p0.1 + v.1 * u);
            let err = ((q.0 - p.0).powi(2) + (q.1 - p.1).powi(2)).sqrt();
            out.push(Cand {
                err,
                t: e.t0 + (e.t1 - e.t0) * u,
                t_slack: (e.t1 - e.t0) * (2.0 * dp + err) / e.len,
                dir: (v.0 / e.len, v.1 / e.len),
                seg: e.seg,
            });
        }
        for (q, s) in &self.starts {
            if *s >= lo && *s <= hi {
                // no direction: never accepted as the location of a tangent
                out.push(Cand { err: ((q.0 - p.0).powi(2) + (q.1 - p.1).powi(2)).sqrt(), t: 0.0, t_slack: 0.0, dir: (0.0, 0.0), seg: usize::MAX });
            }
        }
        out
    }

    /// slack on positions: f32 coordinates of magnitude `scale`
    fn dp(&self) -> f64 {
        2e-5 * (1.0 + self.scale)
    }

    /// The window of reference arc lengths that correspond to distance d measured along a flattening
    /// with tolerance tol.  Chords are shorter than the arcs they replace, by about deviation x turning / 3
    /// (deviation up to 1.5 tol, finding K6 of C09; doubled here): the reference arc length is ahead of d by
    /// at most tol x turning.  Inside one flattened piece lyon interpolates the curve parameter linearly in
    /// distance, which displaces the point ALONG the curve (known finding K7: not bounded by the tolerance on
    /// hairpins / straight curves, and present to a lesser degree on every curve whose speed varies inside a
    /// piece - about tol x tangential / normal acceleration, e.g. 0.46 on the cubic (0,8) (2,4) (2,7) (0,2) at
    /// tolerance 0.1).  The allowance of the sampler check above (0.1 + 2% of the length, at tolerance 0.01) is
    /// applied, in proportion to the tolerance; beyond it the failure is reported (class K7 when curve_class
    /// says so).  Paths without curves get no allowance at all.
    fn window(&self, d: f64, tol: f64) -> (f64, f64) {
        let dd = 1e-3 * (1.0 + d);
        if !self.has_curves {
            return (d - dd, d + dd);
        }
        let c = (0.1 + 0.02 * self.total) * (tol / 0.01).max(1.0);
        let mut hi = d + dd + c;
        for _ in 0..3 {
            hi = d + dd + c + tol * self.turning_upto(hi);
        }
        (d - dd - c, hi)
    }

    fn check_event(&self, ev: &Ev, tol: f32) -> Verdict {
        let tol = tol as f64;
        let (lo, hi) = self.window(ev.dist as f64, tol);
        let dp = self.dp();
        let eps = if self.has_curves { 1.5 * tol + dp } else { dp };
        let p = (ev.pos.x as f64, ev.pos.y as f64);
        if !(p.0.is_finite() && p.1.is_finite()) {
            return Verdict::OffPath(f64::NAN);
        }
        let cands = self.locate(p, lo, hi, dp);
        let best = cands.iter().map(|c| c.err).fold(f64::INFINITY, f64::min);
        if !(best <= eps) {
            return Verdict::OffPath(best);
        }
        let tight: Vec<&Cand> = cands.iter().filter(|c| c.err <= best + dp).collect();
        let (tx, ty) = (ev.tan.x as f64, ev.tan.y as f64);
        let unit = tx.is_finite() && ty.is_finite() && ((tx * tx + ty * ty).sqrt() - 1.0).abs() <= 1e-3;
        // the direction of the reference edge the position lies on; near a cusp the direction turns faster than
        // the reference edges resolve: there, any direction the curve takes within the position slack
        let along = |c: &Cand| -> bool {
            if c.dir.0 * tx + c.dir.1 * ty >= 0.995 {
                return true;
            }
            if c.seg == usize::MAX {
                return false;
            }
            let steps = 32;
            (0..=steps).any(|k| {
                let t = (c.t + c.t_slack * (2.0 * k as f64 / steps as f64 - 1.0)).max(0.0).min(1.0);
                match self.segs[c.seg].direction(t) {
                    Some(d) => d.0 * tx + d.1 * ty >= 0.995,
                    None => false,
                }
            })
        };
        let tight: Vec<&Cand> = tight.into_iter().filter(|c| unit && along(c)).collect();
        if tight.is_empty() {
            return Verdict::Tangent;
        }
        if ev.attrs.is_empty() {
            return Verdict::Ok;
        }
        let mut expected = Vec::new();
        for c in &tight {
            let s = &self.segs[c.seg];
            let want: Vec<f64> = (0..ev.attrs.len()).map(|i| s.a0[i] as f64 * (1.0 - c.t) + s.a1[i] as f64 * c.t).collect();
            let ok = (0..ev.attrs.len()).all(|i| {
                let (a0, a1) = (s.a0[i] as f64, s.a1[i] as f64);
                (ev.attrs[i] as f64 - want[i]).abs() <= 1e-3 * (1.0 + a0.abs() + a1.abs()) + (a1 - a0).abs() * c.t_slack
            });
            if ok {
                return Verdict::Ok;
            }
            if expected.is_empty() {
                expected = want;
            }
        }
        Verdict::Attrs(expected)
    }
}

#[derive(Clone, Debug)]
struct Ev {
    pos: Point,
    tan: Vector,
    dist: f32,
    attrs: Vec<f32>,
}

impl Ev {
    fn same(&self, o: &Ev) -> bool {
        let b = |x: f32| x.to_bits();
        b(self.pos.x) == b(o.pos.x)
            && b(self.pos.y) == b(o.pos.y)
            && b(self.tan.x) == b(o.tan.x)
            && b(self.tan.y) == b(o.tan.y)
            && b(self.dist) == b(o.dist)
            && self.attrs.len() == o.attrs.len()
            && self.attrs.iter().zip(o.attrs.iter()).all(|(x, y)| b(*x) == b(*y))
    }
}

#[derive(Clone, Debug)]
enum PatKind {
    Regular(f32),
    /// intervals, index of the first one handed out
    Repeated(Vec<f32>, usize),
}

impl PatKind {
    fn interval(&self, k: usize) -> f32 {
        match self {
            PatKind::Regular(i) => *i,
            PatKind::Repeated(v, i0) => v[(i0 + k) % v.len()],
        }
    }
}

struct WalkOut {
    evs: Vec<Ev>,
    hit_limit: bool,
    /// callbacks received after the callback had already returned false
    after_stop: usize,
    /// PathWalker::num_attributes (inherent, trait)
    num_attrs: Option<(usize, usize)>,
}

/// route 0: walk_along_path(path.iter()) (no attributes); route 1: PathWalker::with_attributes driven
/// through the PathBuilder trait (PathSpec::replay); route 2: PathWalker::with_attributes driven by
/// path.iter_with_attributes() through its inherent methods.
fn drive(spec: &PathSpec, path: &Path, route: u8, start: f32, tol: f32, pattern: &mut dyn Pattern) -> Option<(usize, usize)> {
    match route {
        0 => {
            walk_along_path(path.iter(), start, tol, pattern);
            None
        }
        1 => {
            let mut w = PathWalker::with_attributes(spec.n_attr, start, tol, pattern);
            let na = (w.num_attributes(), PathBuilder::num_attributes(&w));
            spec.replay(&mut w);
            w.build();
            Some(na)
        }
        _ => {
            let mut w = PathWalker::with_attributes(spec.n_attr, start, tol, pattern);
            let na = (w.num_attributes(), PathBuilder::num_attributes(&w));
            for e in path.iter_with_attributes() {
                match e {
                    Event::Begin { at: (p, a) } => {
                        w.begin(p, a);
                    }
                    Event::Line { to: (p, a), .. } => {
                        w.line_to(p, a);
                    }
                    Event::Quadratic { ctrl, to: (p, a), .. } => {
                        w.quadratic_bezier_to(ctrl, p, a);
                    }
                    Event::Cubic { ctrl1, ctrl2, to: (p, a), .. } => {
                        w.cubic_bezier_to(ctrl1, ctrl2, p, a);
                    }
                    Event::End { close, .. } => {
                        w.end(close);
                    }
                }
            }
            Some(na)
        }
    }
}

/// Walk with one of lyon's two built-in patterns.  The callback stops the walk (returns false) at
/// event number `stop_at`, and in any case after `limit` events so that the harness terminates
/// whatever the library does.
fn run_walk(spec: &PathSpec, path: &Path, route: u8, start: f32, tol: f32, pat: &PatKind, stop_at: Option<usize>, limit: usize) -> Option<WalkOut> {
    catch(AssertUnwindSafe(|| {
        let mut evs: Vec<Ev> = Vec::new();
        let mut hit_limit = false;
        let mut stopped = false;
        let mut after_stop = 0usize;
        let num_attrs;
        {
            let mut cb = |e: WalkerEvent| -> bool {
                if stopped {
                    after_stop += 1;
                    return false;
                }
                evs.push(Ev { pos: e.position, tan: e.tangent, dist: e.distance, attrs: e.attributes.to_vec() });
                if evs.len() >= limit {
                    hit_limit = true;
                    stopped = true;
                    return false;
                }
                if stop_at == Some(evs.len() - 1) {
                    stopped = true;
                    return false;
                }
                true
            };
            num_attrs = match pat {
                PatKind::Regular(i) => {
                    let mut p = RegularPattern { callback: &mut cb, interval: *i };
                    drive(spec, path, route, start, tol, &mut p)
                }
                PatKind::Repeated(v, i0) => {
                    let mut p = RepeatedPattern { callback: &mut cb, intervals: &v[..], index: *i0 };
                    drive(spec, path, route, start, tol, &mut p)
                }
            };
        }
        WalkOut { evs, hit_limit, after_stop, num_attrs }
    }))
}

fn spec_text(spec: &PathSpec) -> String {
    let mut s = String::new();
    let at = |a: &Vec<f32>| if a.is_empty() { String::new() } else { format!(" {:?}", a) };
    for sub in &spec.subs {
        s.push_str(&format!("M {} {}{} ", sub.start.x, sub.start.y, at(&sub.start_attrs)));
        for g in &sub.segs {
            match g {
                Seg::Line(p, a) => s.push_str(&format!("L {} {}{} ", p.x, p.y, at(a))),
                Seg::Quad(c, p, a) => s.push_str(&format!("Q {} {} {} {}{} ", c.x, c.y, p.x, p.y, at(a))),
                Seg::Cubic(c1, c2, p, a) => s.push_str(&format!("C {} {} {} {} {} {}{} ", c1.x, c1.y, c2.x, c2.y, p.x, p.y, at(a))),
            }
        }
        if sub.close {
            s.push_str("Z ");
        }
    }
    s
}

/// The path whose curves decide the known-finding class of a failure (curve_class): the curves reduced
/// to a single point, which the degenerate generator inserts on purpose, have no parameter speed at all
/// and must not make every failure on such a path a "K7".
fn class_path(spec: &PathSpec) -> Path {
    let mut sp = spec.clone();
    for sub in sp.subs.iter_mut() {
        let mut cur = sub.start;
        let mut segs = Vec::new();
        for g in &sub.segs {
            let (to, point_curve) = match g {
                Seg::Line(p, _) => (*p, false),
                Seg::Quad(c, p, _) => (*p, *c == cur && *p == cur),
                Seg::Cubic(c1, c2, p, _) => (*p, *c1 == cur && *c2 == cur && *p == cur),
            };
            if !point_curve {
                segs.push(g.clone());
            }
            cur = to;
        }
        sub.segs = segs;
    }
    sp.build()
}

/// length of the builder program flattened segment by segment with lyon_geom
fn geom_flattened_length(spec: &PathSpec, tol: f32) -> f64 {
    let mut total = 0.0f64;
    for sub in &spec.subs {
        let mut cur = sub.start;
        for g in &sub.segs {
            match g {
                Seg::Line(p, _) => {
                    total += (*p - cur).length() as f64;
                    cur = *p;
                }
                Seg::Quad(c, p, _) => {
                    lyon_geom::QuadraticBezierSegment { from: cur, ctrl: *c, to: *p }.for_each_flattened(tol, &mut |l| total += l.length() as f64);
                    cur = *p;
                }
                Seg::Cubic(c1, c2, p, _) => {
                    lyon_geom::CubicBezierSegment { from: cur, ctrl1: *c1, ctrl2: *c2, to: *p }.for_each_flattened(tol, &mut |l| total += l.length() as f64);
                    cur = *p;
                }
            }
        }
        if sub.close {
            total += (sub.start - cur).length() as f64;
        }
    }
    total
}

/// polylines with Pythagorean steps (integer edge lengths), small integer attributes
fn pyth_spec(rng: &mut Rng, n_attr: usize) -> PathSpec {
    let steps: [(f32, f32); 8] = [(3.0, 4.0), (4.0, 3.0), (-3.0, 4.0), (5.0, 0.0), (0.0, -5.0), (6.0, 8.0), (-4.0, -3.0), (0.0, 2.0)];
    let nsub = 1 + rng.below(3) as usize;
    let mut subs = Vec::new();
    for _ in 0..nsub {
        let mut p = point(rng.range(-5, 5) as f32, rng.range(-5, 5) as f32);
        let start = p;
        let start_attrs: Vec<f32> = (0..n_attr).map(|_| rng.range(-8, 8) as f32).collect();
        let k = if rng.chance(1, 5) { 0 } else { 1 + rng.below(4) as usize };
        let mut segs = Vec::new();
        for _ in 0..k {
            let s = *rng.pick(&steps);
            p = point(p.x + s.0, p.y + s.1);
            segs.push(Seg::Line(p, (0..n_attr).map(|_| rng.range(-8, 8) as f32).collect()));
        }
        subs.push(Sub { start, start_attrs, segs, close: rng.chance(1, 3) });
    }
    PathSpec { n_attr, subs }
}

/// paths with repeated points, zero-length lines and curves (all control points equal), single-point
/// sub-paths, closing edges of length zero
fn degenerate_spec(rng: &mut Rng, n_attr: usize) -> PathSpec {
    let attrs = |r: &mut Rng| -> Vec<f32> { (0..n_attr).map(|_| r.range(-20, 20) as f32).collect() };
    let pt = |r: &mut Rng| point(r.range(0, 10) as f32, r.range(0, 10) as f32);
    let nsub = 1 + rng.below(3) as usize;
    let mut subs = Vec::new();
    for _ in 0..nsub {
        let start = pt(rng);
        let start_attrs = attrs(rng);
        let mut cur = start;
        let m = rng.below(5) as usize;
        let mut segs = Vec::new();
        for _ in 0..m {
            let to = match rng.below(4) {
                0 => cur,
                1 => start,
                _ => pt(rng),
            };
            segs.push(match rng.below(6) {
                0 | 1 | 2 => Seg::Line(to, attrs(rng)),
                3 => Seg::Quad(cur, cur, attrs(rng)),
                4 => Seg::Cubic(cur, cur, cur, attrs(rng)),
                _ => {
                    if to == cur {
                        Seg::Line(to, attrs(rng))
                    } else {
                        Seg::Quad(pt(rng), to, attrs(rng))
                    }
                }
            });
            cur = match segs.last().unwrap() {
                Seg::Line(p, _) | Seg::Quad(_, p, _) | Seg::Cubic(_, _, p, _) => *p,
            };
        }
        subs.push(Sub { start, start_attrs, segs, close: rng.chance(1, 2) });
    }
    PathSpec { n_attr, subs }
}

/// The sampler against the dense reference at the given distances: position on the path at that
/// distance, unit tangent along the path there, attributes interpolated linearly between the end points
/// of the segment (by the segment parameter of the sampled point).
fn check_samples_against_dense(st: &mut Stats, dense: &Dense, m: &PathMeasurements, path: &Path, tol: f32, dists: &[f32], label: &str) {
    let len = m.length();
    if !(len > 0.0) {
        return;
    }
    let r = catch(AssertUnwindSafe(|| {
        let mut sampler = m.create_sampler_with_attributes(path, path, SampleType::Distance);
        dists
            .iter()
            .map(|d| {
                let mut s = sampler.sample(*d);
                Ev { pos: s.position(), tan: s.tangent(), dist: d.max(0.0).min(len), attrs: s.attributes().to_vec() }
            })
            .collect::<Vec<Ev>>()
    }));
    st.inc("evaluations");
    st.add("sampler_samples_against_dense_reference", dists.len() as u64);
    let evs = match r {
        Some(e) => e,
        None => {
            fail_n(st, None, "measuring / sampling panicked", label.to_string());
            return;
        }
    };
    let cls = if dense.has_curves { Some(&dense.class) } else { None };
    let mut reported = [false; 3];
    for ev in &evs {
        match dense.check_event(ev, tol) {
            Verdict::Ok => {}
            Verdict::OffPath(e) => {
                if !reported[0] {
                    reported[0] = true;
                    fail_n(st, cls, "sample is not the point at the requested distance along the path", format!("{} d={} got {:?}, {:.5} from the dense reference at that distance", label, ev.dist, ev.pos, e));
                }
            }
            Verdict::Tangent => {
                let dd = 1e-3 * (1.0 + ev.dist as f64);
                let unit = ev.tan.x.is_finite() && ev.tan.y.is_finite() && (ev.tan.length() - 1.0).abs() <= 1e-3;
                if !unit && dense.zero_at.iter().any(|z| (z - ev.dist as f64).abs() <= dd) {
                    // on a piece of length zero there is no direction to report
                    st.inc("samples_on_zero_length_pieces_without_tangent");
                } else if !reported[1] {
                    reported[1] = true;
                    fail_n(st, cls, "sample tangent is not the unit direction of the path at the sampled position", format!("{} d={} at {:?} tangent {:?}", label, ev.dist, ev.pos, ev.tan));
                }
            }
            Verdict::Attrs(exp) => {
                if !reported[2] {
                    reported[2] = true;
                    fail_n(st, None, "sampled attributes are not the linear interpolation of the segment's endpoint attributes at the sampled position", format!("{} d={} at {:?} attributes {:?} expected {:?}", label, ev.dist, ev.pos, ev.attrs, exp));
                }
            }
        }
    }
}

/// (B): every event against the dense reference; at most one failure per kind (position, tangent, attributes)
fn report_events(st: &mut Stats, dense: &Dense, evs: &[Ev], tol: f32, label: &str) -> [bool; 3] {
    let curved = dense.has_curves;
    let mut reported = [false; 3];
    for (k, ev) in evs.iter().enumerate() {
        match dense.check_event(ev, tol) {
            Verdict::Ok => {}
            Verdict::OffPath(e) => {
                if !reported[0] {
                    reported[0] = true;
                    let (lo, hi) = dense.window(ev.dist as f64, tol as f64);
                    fail_n(st, if curved { Some(&dense.class) } else { None }, "walker event position is not a point of the path at its distance (dense reference)", format!("{} event {} d={} at {:?}: closest reference point with arc length in [{:.4}, {:.4}] is {:.5} away", label, k, ev.dist, ev.pos, lo, hi, e));
                }
            }
            Verdict::Tangent => {
                if !reported[1] {
                    reported[1] = true;
                    fail_n(st, if curved { Some(&dense.class) } else { None }, "walker event tangent is not the unit direction of the path at the event position", format!("{} event {} d={} at {:?} tangent {:?}", label, k, ev.dist, ev.pos, ev.tan));
                }
            }
            Verdict::Attrs(exp) => {
                if !reported[2] {
                    reported[2] = true;
                    fail_n(st, None, "walker event attributes are not the linear interpolation of the segment's endpoint attributes at the event position", format!("{} event {} d={} at {:?} attributes {:?} expected {:?}", label, k, ev.dist, ev.pos, ev.attrs, exp));
                }
            }
        }
    }
    reported
}

const WALK_LIMIT: usize = 6000;

/// All the checks on one walk with positive (or partly zero) intervals.
#[allow(clippy::too_many_arguments)]
fn check_walk(st: &mut Stats, rng: &mut Rng, spec: &PathSpec, path: &Path, dense: &Dense, m: &PathMeasurements, tol: f32, start: f32, pat: &PatKind, route: u8) {
    let curved = dense.has_curves;
    let len = m.length();
    let label = format!("{}tol {} start {} {:?} route {}", spec_text(spec), tol, start, pat, route);
    st.inc("evaluations");
    st.inc("walker_pattern_runs");
    st.inc(match pat {
        PatKind::Regular(_) => "walker_regular_pattern_runs",
        PatKind::Repeated(..) => "walker_repeated_pattern_runs",
    });
    if spec.n_attr > 0 {
        st.inc("walker_runs_with_attributes");
    }
    if curved {
        st.inc("walker_runs_on_curved_paths");
    }
    let out = match run_walk(spec, path, route, start, tol, pat, None, WALK_LIMIT) {
        Some(o) => o,
        None => {
            fail_n(st, None, "walker panicked", label.to_string());
            return;
        }
    };
    st.add("walker_pattern_events", out.evs.len() as u64);
    if out.hit_limit {
        fail_n(st, None, "walker with positive intervals did not finish within the callback limit", label.to_string());
        return;
    }
    if let Some((a, b)) = out.num_attrs {
        if a != spec.n_attr || b != spec.n_attr {
            fail_n(st, None, "PathWalker::num_attributes differs from the number it was created with", format!("{} got {} / {}", label, a, b));
        }
    }
    // ---- the cumulative distances asked for, added in f32 in the walker's order
    let margin = 1e-3 * (1.0 + len);
    let mut want: Vec<f32> = Vec::new();
    let mut c = 0.0f32 + start.max(0.0);
    while c <= len + margin && want.len() <= WALK_LIMIT {
        want.push(c);
        c += pat.interval(want.len() - 1);
    }
    let n_must = want.iter().take_while(|c| **c <= len - margin).count();
    let n_may = want.len();
    if out.evs.len() < n_must || out.evs.len() > n_may {
        fail_n(st, if curved { Some(&dense.class) } else { None }, "number of pattern callbacks differs from the number of requested cumulative distances within the measured length", format!("{} measured length {} callbacks {} expected {}..={}", label, len, out.evs.len(), n_must, n_may));
    }
    for (k, ev) in out.evs.iter().enumerate() {
        if k < want.len() && ev.dist.to_bits() != want[k].to_bits() {
            fail_n(st, None, "walker event distance is not the sum of the start offset and the intervals handed out so far", format!("{} event {} distance {} expected {}", label, k, ev.dist, want[k]));
            break;
        }
    }
    // ---- (B) against the dense reference: position, tangent, attributes of every event
    let reported = report_events(st, dense, &out.evs, tol, &label);
    // ---- the sampler at the same distances against the same reference
    {
        let dists: Vec<f32> = out.evs.iter().map(|e| e.dist).take(60).collect();
        check_samples_against_dense(st, dense, m, path, tol, &dists, &format!("{}tol {}", spec_text(spec), tol));
    }
    // ---- (A) the sampler at the same distance (two routes through the library must agree)
    if len > 0.0 {
        let r = catch(AssertUnwindSafe(|| {
            let mut sampler = m.create_sampler_with_attributes(path, path, SampleType::Distance);
            let mut firsts: [Option<(usize, Point, Vector, Vec<f32>)>; 3] = [None, None, None];
            for (k, ev) in out.evs.iter().enumerate() {
                let d = ev.dist;
                // d -+ dd: at a tie (sub-path boundary, corner) either side is a point at distance d
                let dd = 5e-5 * (1.0 + d);
                let eps = 4.0 * dd + 1e-5 * (1.0 + dense.scale as f32);
                let tol_a = 0.05 + 0.01 * (1.0 + d);
                let mut best = 0usize;
                let mut first = None;
                for q in [d, d - dd, d + dd] {
                    let mut s = sampler.sample(q);
                    let (p, t) = (s.position(), s.tangent());
                    let a = s.attributes().to_vec();
                    let pos_ok = (p - ev.pos).length() <= eps;
                    let fin = |v: Vector| v.x.is_finite() && v.y.is_finite();
                    let tan_ok = (fin(t) && fin(ev.tan) && t.dot(ev.tan) >= 0.99) || (!fin(t) && !fin(ev.tan));
                    let att_ok = a.len() == ev.attrs.len() && a.iter().zip(ev.attrs.iter()).all(|(x, y)| (x - y).abs() <= tol_a);
                    let stage = if !pos_ok {
                        0
                    } else if !tan_ok {
                        1
                    } else if !att_ok {
                        2
                    } else {
                        3
                    };
                    if first.is_none() {
                        first = Some((p, t, a));
                    }
                    best = best.max(stage);
                }
                if best < 3 && firsts[best].is_none() {
                    let (p, t, a) = first.unwrap();
                    firsts[best] = Some((k, p, t, a));
                }
            }
            firsts
        }));
        match r {
            None => fail_n(st, None, "sampling at the walker's distances panicked", label.to_string()),
            Some(firsts) => {
                let whats = [
                    "walker event and sampler at the same distance give different positions",
                    "walker event and sampler at the same distance give different tangents",
                    "walker event and sampler at the same distance give different attributes",
                ];
                for (i, f) in firsts.iter().enumerate() {
                    if let Some((k, p, t, a)) = f {
                        let ev = &out.evs[*k];
                        if i == 2 && reported[2] {
                            // the same walk already reported against the dense reference
                            st.inc("walker_attribute_mismatch_also_against_sampler");
                            continue;
                        }
                        // a tangent that exists on one side only: the derivative vanishes there (part of K7)
                        let nan_tangent = i == 1 && !(t.x.is_finite() && t.y.is_finite() && ev.tan.x.is_finite() && ev.tan.y.is_finite());
                        fail_n(st, if nan_tangent && curved { Some(&dense.class) } else { None }, whats[i], format!("{} event {} d={} walker {:?} {:?} {:?} sampler {:?} {:?} {:?}", label, k, ev.dist, ev.pos, ev.tan, ev.attrs, p, t, a));
                    }
                }
            }
        }
    }
    // ---- returning false stops the walk at once
    if !out.evs.is_empty() {
        let k = rng.below(out.evs.len() as u64) as usize;
        st.inc("evaluations");
        st.inc("walker_stop_runs");
        match run_walk(spec, path, route, start, tol, pat, Some(k), WALK_LIMIT) {
            None => fail_n(st, None, "walker panicked when the callback returned false", label.to_string()),
            Some(o2) => {
                if o2.after_stop > 0 {
                    fail_n(st, None, "pattern callback invoked again after it returned false", format!("{} returned false at event {} of {}, then {} more callbacks", label, k, out.evs.len(), o2.after_stop));
                } else if o2.evs.len() != k + 1 || !o2.evs.iter().zip(out.evs.iter()).all(|(a, b)| a.same(b)) {
                    fail_n(st, None, "walk stopped by the callback differs from the prefix of the full walk", format!("{} stop at {} got {} events", label, k, o2.evs.len()));
                }
            }
        }
    }
    // ---- the attributes do not influence where the walker goes
    if route != 0 {
        if let Some(o0) = run_walk(spec, path, 0, start, tol, pat, None, WALK_LIMIT) {
            let same = o0.evs.len() == out.evs.len()
                && o0.evs.iter().zip(out.evs.iter()).all(|(a, b)| {
                    let mut b2 = b.clone();
                    b2.attrs.clear();
                    a.same(&b2)
                });
            if !same {
                fail_n(st, None, "walk_along_path and PathWalker::with_attributes visit different points on the same path", label.to_string());
            }
        } else {
            fail_n(st, None, "walker panicked", label.to_string());
        }
    }
}

/// A pattern that declines to start sub-path number `stop_sub` (Pattern::begin returns None: "path
/// walking stops"), and records every call it receives afterwards.
struct BeginStop {
    interval: f32,
    stop_sub: usize,
    begins: usize,
    stopped: bool,
    calls_after: usize,
    evs: Vec<Ev>,
}

impl Pattern for BeginStop {
    fn next(&mut self, e: WalkerEvent) -> Option<f32> {
        if self.stopped {
            self.calls_after += 1;
            return None;
        }
        if self.evs.len() >= WALK_LIMIT {
            self.stopped = true;
            return None;
        }
        self.evs.push(Ev { pos: e.position, tan: e.tangent, dist: e.distance, attrs: e.attributes.to_vec() });
        Some(self.interval)
    }
    fn begin(&mut self, distance: f32) -> Option<f32> {
        if self.stopped {
            self.calls_after += 1;
            return None;
        }
        self.begins += 1;
        if self.begins - 1 == self.stop_sub {
            self.stopped = true;
            return None;
        }
        Some(distance)
    }
}

/// Declining a sub-path in Pattern::begin stops the walk: nothing is called afterwards, and what was
/// visited before is what the full walk visits first.
fn check_begin_stop(st: &mut Stats, rng: &mut Rng, spec: &PathSpec, path: &Path, tol: f32) {
    let interval = *rng.pick(&[0.5f32, 1.0, 2.5]);
    let stop_sub = rng.below(spec.subs.len() as u64) as usize;
    let label = format!("{}tol {} interval {} begin declines sub-path {}", spec_text(spec), tol, interval, stop_sub);
    st.inc("evaluations");
    st.inc("walker_begin_declined_runs");
    let run = |stop_sub: usize| {
        catch(AssertUnwindSafe(|| {
            let mut p = BeginStop { interval, stop_sub, begins: 0, stopped: false, calls_after: 0, evs: vec![] };
            walk_along_path(path.iter(), 0.0, tol, &mut p);
            p
        }))
    };
    match (run(usize::MAX), run(stop_sub)) {
        (Some(full), Some(part)) => {
            if part.calls_after > 0 {
                fail_n(st, None, "pattern called again after Pattern::begin returned None", format!("{} {} more calls", label, part.calls_after));
            } else if part.evs.len() > full.evs.len() || !part.evs.iter().zip(full.evs.iter()).all(|(a, b)| a.same(b)) || (stop_sub == 0 && !part.evs.is_empty()) {
                fail_n(st, None, "walk stopped by Pattern::begin differs from the prefix of the full walk", format!("{} got {} events of {}", label, part.evs.len(), full.evs.len()));
            }
        }
        _ => fail_n(st, None, "walker panicked", label),
    }
}

/// Intervals that never advance (0) or go backwards (negative).  The property does not say what such a
/// request means beyond "the points at the cumulative distances asked for"; what is checked as a failure
/// is only: no panic, and event.distance is the requested cumulative distance.  That the walk never ends
/// on its own, and that events of a negative interval leave the path, are counted as observations.
fn check_nonpositive(st: &mut Stats, rng: &mut Rng, spec: &PathSpec, path: &Path, dense: &Dense, tol: f32, route: u8) {
    let interval = *rng.pick(&[0.0f32, 0.0, -0.5, -1.0, -3.0]);
    let start = *rng.pick(&[0.0f32, 1.0, 2.5, 6.0]);
    let limit = 40usize;
    let pat = PatKind::Regular(interval);
    let label = format!("{}tol {} start {} {:?} route {}", spec_text(spec), tol, start, pat, route);
    st.inc("evaluations");
    st.inc(if interval == 0.0 { "walker_zero_interval_runs" } else { "walker_negative_interval_runs" });
    let out = match run_walk(spec, path, route, start, tol, &pat, None, limit) {
        Some(o) => o,
        None => {
            fail_n(st, None, "walker panicked on a zero or negative interval", label.to_string());
            return;
        }
    };
    if out.evs.is_empty() {
        return; // start beyond the end of the path
    }
    if out.hit_limit {
        st.inc(if interval == 0.0 { "observed_zero_interval_walk_ended_only_by_callback" } else { "observed_negative_interval_walk_ended_only_by_callback" });
    }
    let mut c = 0.0f32 + start;
    for (k, ev) in out.evs.iter().enumerate() {
        if ev.dist.to_bits() != c.to_bits() {
            fail_n(st, None, "walker event distance is not the sum of the start offset and the intervals handed out so far", format!("{} event {} distance {} expected {}", label, k, ev.dist, c));
            break;
        }
        c += interval;
    }
    if interval == 0.0 {
        // asked for the same cumulative distance again and again: the same point every time
        let geo = |e: &Ev| Ev { attrs: vec![], ..e.clone() };
        if !out.evs.iter().all(|e| geo(e).same(&geo(&out.evs[0]))) {
            fail_n(st, None, "walker with interval 0 reports different positions or tangents for the same cumulative distance", label.to_string());
        }
        if let Some(k) = out.evs.iter().position(|e| !e.same(&Ev { attrs: out.evs[0].attrs.clone(), ..e.clone() })) {
            fail_n(st, None, "walker with interval 0 reports different attributes for the same cumulative distance", format!("{} event 0 {:?} event {} {:?}", label, out.evs[0].attrs, k, out.evs[k].attrs));
        }
        report_events(st, dense, &out.evs[..1], tol, &label);
    } else {
        let off = out.evs.iter().filter(|e| e.dist >= 0.0 && !matches!(dense.check_event(e, tol), Verdict::Ok)).count();
        if off > 0 {
            st.inc("observed_negative_interval_walks_leaving_the_path");
        }
    }
}

fn walker_checks(args: &Args, st: &mut Stats) {
    let mut rng = Rng::new(args.seed ^ 0x1919);
    let n = if args.thorough() { 3000 } else { 300 };
    let intervals = [0.25f32, 0.5, 0.75, 1.0, 1.5, 2.5, 4.0, 7.0];
    for it in 0..n {
        let n_attr = match it % 4 {
            0 | 1 => 0,
            2 => 1,
            _ => 2,
        };
        let kind = rng.below(10);
        let spec = if kind < 5 {
            random_curved(&mut rng, n_attr, 3, 3, 12)
        } else if kind < 7 {
            pyth_spec(&mut rng, n_attr)
        } else {
            degenerate_spec(&mut rng, n_attr)
        };
        let path = spec.build();
        let curved = !spec.polygonal();
        let tol = *rng.pick(&[0.01f32, 0.03, 0.1]);
        if curved {
            // same exclusion as above: curves on which lyon's flattening itself is off (K2 of C09)
            let analytic = approximate_length(path.iter(), 0.0005) as f64;
            let flat = poly_len(&flat_polyline(&path, 0.0005));
            if (analytic - flat).abs() > 0.005 * (1.0 + flat) {
                st.inc("skipped_flattening_defect_curves");
                continue;
            }
        }
        let m = match catch(AssertUnwindSafe(|| PathMeasurements::from_path(&path, tol))) {
            Some(m) => m,
            None => {
                fail_n(st, None, "measuring / sampling panicked", spec_text(&spec));
                continue;
            }
        };
        let len = m.length();
        let dense = Dense::new(&spec, 1024);
        st.note_case(&format!("walk {}", spec_text(&spec)), dense.edges.len() > 1);
        st.inc(if kind < 5 {
            "walker_paths_curved_generator"
        } else if kind < 7 {
            "walker_paths_integer_length_polylines"
        } else {
            "walker_paths_degenerate_generator"
        });
        // the measured length is the length of the flattening with the same tolerance - here the segments of
        // the builder program flattened one by one with lyon_geom's for_each_flattened (the flattening
        // ITERATOR of lyon_path cuts cubics differently and gives another length, up to 0.04 apart at
        // tolerance 0.1).  How far that is from the length of the curves themselves is C09's subject (the
        // vertices of a flattened cubic lie on its quadratic approximations: even slightly longer happens).
        {
            let flat = catch(AssertUnwindSafe(|| geom_flattened_length(&spec, tol)));
            match flat {
                None => fail_n(st, None, "flattening a segment panicked", spec_text(&spec)),
                Some(flat) => {
                    if (len as f64 - flat).abs() > 1e-4 * (1.0 + flat) {
                        fail_n(st, None, "measured length differs from the length of the path flattened with the same tolerance", format!("{}tol {} measured {} flattened {} dense reference {}", spec_text(&spec), tol, len, flat, dense.total));
                    }
                }
            }
        }
        let pat = if rng.chance(1, 2) {
            PatKind::Regular(*rng.pick(&intervals))
        } else {
            let k = 1 + rng.below(4) as usize;
            let mut v: Vec<f32> = (0..k).map(|_| *rng.pick(&intervals)).collect();
            if k > 1 && rng.chance(1, 8) {
                v[0] = 0.0; // the same point twice, then on
            }
            PatKind::Repeated(v, if rng.chance(1, 4) { rng.below(7) as usize } else { 0 })
        };
        let start = match rng.below(10) {
            0 | 1 | 2 | 3 => 0.0,
            4 => len + 1.0,
            _ => rng.range(1, 8) as f32 * 0.5,
        };
        let route = if n_attr == 0 { *rng.pick(&[0u8, 0, 0, 1, 2]) } else { 1 + (rng.below(2) as u8) };
        check_walk(st, &mut rng, &spec, &path, &dense, &m, tol, start, &pat, route);
        // an interval larger than the whole path: only the event at the start offset
        if rng.chance(1, 4) {
            let start = if rng.chance(1, 2) { 0.0 } else { (rng.unit_f64() as f32) * len };
            check_walk(st, &mut rng, &spec, &path, &dense, &m, tol, start, &PatKind::Regular(len + 5.0), route);
        }
        if rng.chance(1, 5) {
            check_nonpositive(st, &mut rng, &spec, &path, &dense, tol, route);
        }
        if spec.subs.len() > 1 && rng.chance(1, 3) {
            check_begin_stop(st, &mut rng, &spec, &path, tol);
        }
    }
}

// =====================================================================================
// Sampler / split_range corner cases: normalized against absolute distances, distances before the
// start and after the end, zero-length and empty paths, empty ranges, ranges in absolute distances.
// =====================================================================================
fn measure_edge_checks(args: &Args, st: &mut Stats) {
    let mut rng = Rng::new(args.seed ^ 0x1920);
    let n = if args.thorough() { 800 } else { 100 };
    for it in 0..n {
        let n_attr = (it % 3) as usize;
        let kind = rng.below(10);
        let spec = if kind < 4 {
            random_curved(&mut rng, n_attr, 3, 3, 12)
        } else if kind < 7 {
            pyth_spec(&mut rng, n_attr)
        } else if kind < 9 {
            degenerate_spec(&mut rng, n_attr)
        } else {
            // no length at all: nothing, or single points / repeated points
            let mut subs = Vec::new();
            for _ in 0..rng.below(3) {
                let p = point(rng.range(0, 9) as f32, rng.range(0, 9) as f32);
                let at = |r: &mut Rng| -> Vec<f32> { (0..n_attr).map(|_| r.range(-9, 9) as f32).collect() };
                let segs = (0..rng.below(3)).map(|_| Seg::Line(p, at(&mut rng))).collect();
                subs.push(Sub { start: p, start_attrs: at(&mut rng), segs, close: rng.chance(1, 2) });
            }
            PathSpec { n_attr, subs }
        };
        let path = spec.build();
        let curved = !spec.polygonal();
        let tol = 0.01f32;
        let label = spec_text(&spec);
        if curved {
            let analytic = approximate_length(path.iter(), 0.0005) as f64;
            let flat = poly_len(&flat_polyline(&path, 0.0005));
            if (analytic - flat).abs() > 0.005 * (1.0 + flat) {
                st.inc("skipped_flattening_defect_curves");
                continue;
            }
        }
        st.inc("evaluations");
        st.inc("sampler_corner_case_paths");
        st.note_case(&format!("corner {}", label), !spec.subs.is_empty());
        let dense = Dense::new(&spec, 1024);
        let m = match catch(AssertUnwindSafe(|| PathMeasurements::from_path(&path, tol))) {
            Some(m) => m,
            None => {
                fail_n(st, None, "measuring / sampling panicked", label.to_string());
                continue;
            }
        };
        let len = m.length();
        type S = (Point, Vector, Vec<f32>);
        let sample = |ty: SampleType, d: f32| -> Option<S> {
            catch(AssertUnwindSafe(|| {
                let mut s = m.create_sampler_with_attributes(&path, &path, ty);
                let mut r = s.sample(d);
                (r.position(), r.tangent(), r.attributes().to_vec())
            }))
        };
        let close = |a: &S, b: &S, eps: f32| -> bool {
            let f = |x: f32, y: f32| (x - y).abs() <= eps || (x.is_nan() && y.is_nan());
            f(a.0.x, b.0.x) && f(a.0.y, b.0.y) && f(a.1.x, b.1.x) && f(a.1.y, b.1.y) && a.2.len() == b.2.len() && a.2.iter().zip(b.2.iter()).all(|(x, y)| f(*x, *y))
        };
        if dense.edges.is_empty() {
            // ---- a path without length: every distance is the (first) point of the path; an empty path has no point
            st.inc("sampler_zero_length_paths");
            if len != 0.0 {
                fail_n(st, None, "measured length of a path without any non-degenerate segment is not 0", format!("{} length {}", label, len));
            }
            for ty in [SampleType::Distance, SampleType::Normalized] {
                for d in [0.0f32, 0.5, 1.0, -1.0, 3.0] {
                    match sample(ty, d) {
                        None => {
                            fail_n(st, None, "sampling a path of length zero panicked", format!("{} {:?} d={}", label, ty, d));
                        }
                        Some(s) => {
                            if !spec.subs.is_empty() && !spec.subs.iter().any(|sub| sub.start == s.0) {
                                fail_n(st, None, "sample on a path of length zero is not a point of the path", format!("{} {:?} d={} got {:?}", label, ty, d, s.0));
                            }
                        }
                    }
                }
            }
            // splitting has nothing to extract (the documentation allows a panic on an empty path)
            let r = catch(AssertUnwindSafe(|| {
                let mut s = m.create_sampler(&path, SampleType::Normalized);
                let mut out = Path::builder();
                s.split_range(0.0..1.0, &mut out);
                approximate_length(out.build().iter(), 0.001)
            }));
            match r {
                None => st.inc("observed_split_range_panics_on_zero_length_path"),
                Some(l) => {
                    if l != 0.0 {
                        fail_n(st, None, "split_range of a path of length zero has a length", format!("{} {}", label, l));
                    }
                }
            }
            continue;
        }
        if !(len > 0.0) {
            fail_n(st, None, "measured length of a path with a non-degenerate segment is not positive", format!("{} length {}", label, len));
            continue;
        }
        // ---- normalized distance u is the absolute distance u * length
        let eps = 1e-4 * (1.0 + dense.scale as f32);
        for u in [0.0f32, 1.0, rng.unit_f64() as f32, rng.unit_f64() as f32, -0.25, 1.5] {
            st.inc("sampler_normalized_queries");
            match (sample(SampleType::Normalized, u), sample(SampleType::Distance, u * len)) {
                (Some(a), Some(b)) => {
                    if !close(&a, &b, eps) {
                        fail_n(st, None, "normalized sample at u differs from the sample at distance u x length", format!("{} u={} {:?} vs {:?}", label, u, a, b));
                        break;
                    }
                }
                _ => {
                    fail_n(st, None, "measuring / sampling panicked", format!("{} u={}", label, u));
                    break;
                }
            }
        }
        // ---- distances before the start / after the end are those of the start / the end, which are points of the path at 0 / length
        for (d_out, d_in) in [(-1.0f32, 0.0f32), (-0.001, 0.0), (len + 1.0, len), (len * 1.001 + 0.001, len)] {
            st.inc("sampler_out_of_range_queries");
            match (sample(SampleType::Distance, d_out), sample(SampleType::Distance, d_in)) {
                (Some(a), Some(b)) => {
                    if !close(&a, &b, eps) {
                        fail_n(st, None, "sample outside of 0..length differs from the sample at the nearest end", format!("{} d={} {:?} vs d={} {:?}", label, d_out, a, d_in, b));
                        break;
                    }
                    let ev = Ev { pos: a.0, tan: a.1, dist: if d_in == 0.0 { 0.0 } else { dense.total as f32 }, attrs: vec![] };
                    if let Verdict::OffPath(e) = dense.check_event(&ev, tol) {
                        fail_n(st, if curved { Some(&dense.class) } else { None }, "sample is not the point at the requested distance along the path", format!("{} d={} got {:?}, {} away from the end of the dense reference", label, d_out, a.0, e));
                        break;
                    }
                }
                _ => {
                    fail_n(st, None, "measuring / sampling panicked", format!("{} d={}", label, d_out));
                    break;
                }
            }
        }
        // ---- sub-ranges in absolute distances (also reaching outside of the path), empty and reversed ranges
        let r = catch(AssertUnwindSafe(|| {
            let mut sampler = m.create_sampler(&path, SampleType::Distance);
            let mut cuts = [0.0f32; 3];
            for c in cuts.iter_mut() {
                *c = (rng.unit_f64() as f32) * 1.3 * len - 0.15 * len;
            }
            cuts.sort_by(|a, b| a.partial_cmp(b).unwrap());
            let mut lens = Vec::new();
            for (a, b) in [(cuts[0], cuts[1]), (cuts[1], cuts[2]), (cuts[0], cuts[2]), (cuts[1], cuts[1]), (cuts[2], cuts[0])] {
                let mut out = Path::builder();
                sampler.split_range(a..b, &mut out);
                lens.push(approximate_length(out.build().iter(), tol * 0.1));
            }
            (cuts, lens)
        }));
        st.inc("split_range_distance_mode_runs");
        match r {
            None => fail_n(st, None, "split_range panicked", label.to_string()),
            Some((cuts, lens)) => {
                let e = if curved { 0.03 * (1.0 + len) } else { 2e-3 * (1.0 + len) };
                let cl = |x: f32| x.max(0.0).min(len);
                if (lens[0] + lens[1] - lens[2]).abs() > e || (lens[2] - (cl(cuts[2]) - cl(cuts[0]))).abs() > e {
                    fail_n(st, if curved { Some(&dense.class) } else { None }, "lengths of split sub-ranges do not add up", format!("{} distance cuts {:?} lens {:?} total {}", label, cuts, lens, len));
                }
                if lens[3] != 0.0 || lens[4] != 0.0 {
                    fail_n(st, None, "split_range of an empty or reversed range is not empty", format!("{} cuts {:?} lens {:?}", label, cuts, lens));
                }
            }
        }
    }
}
