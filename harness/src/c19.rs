//! C19: measuring, sampling, walking, splitting by distance.
//! Sampler query sequences (cursor state) on paths with several sub-paths, single-point
//! sub-paths, curves; the table, the cursor after every query and the selected event are printed
//! for the Coq model.  Positions / attributes / lengths / split additivity / walker events are
//! checked directly against an independent f64 arc-length computation.
use crate::tess::*;
use crate::util::*;
use lyon_algorithms::length::approximate_length;
use lyon_algorithms::measure::{PathMeasurements, SampleType};
use lyon_algorithms::walk::{walk_along_path, Pattern, WalkerEvent};
use lyon_path::iterator::PathIterator;
use lyon_path::math::{point, Point};
use lyon_path::{Path, PathEvent};
use std::panic::AssertUnwindSafe;

pub const HEADER: &str =
    "From Coq Require Import QArith.\nFrom LV Require Import Base.Prelude Model.Bezier Model.Measure Run.C19.\nOpen Scope Q_scope.";

fn gq(v: f32) -> String {
    if v.is_finite() {
        gq32(v)
    } else {
        "(123456789 # 1)".into()
    }
}

/// polyline (in f64) of the flattened path, per sub-path, with the closing edge when closed
fn flat_polyline(path: &Path, tol: f32) -> Vec<Vec<(f64, f64)>> {
    let mut subs: Vec<Vec<(f64, f64)>> = Vec::new();
    for e in path.iter().flattened(tol) {
        match e {
            PathEvent::Begin { at } => subs.push(vec![(at.x as f64, at.y as f64)]),
            PathEvent::Line { to, .. } => subs.last_mut().unwrap().push((to.x as f64, to.y as f64)),
            PathEvent::End { first, close, .. } => {
                if close {
                    subs.last_mut().unwrap().push((first.x as f64, first.y as f64));
                }
            }
            _ => {}
        }
    }
    subs
}

fn poly_len(subs: &[Vec<(f64, f64)>]) -> f64 {
    subs.iter().map(|s| s.windows(2).map(|w| ((w[1].0 - w[0].0).powi(2) + (w[1].1 - w[0].1).powi(2)).sqrt()).sum::<f64>()).sum()
}

/// all points at path distance d (ties at sub-path boundaries give several)
fn points_at(subs: &[Vec<(f64, f64)>], d: f64, eps: f64) -> Vec<(f64, f64)> {
    let mut out = Vec::new();
    let mut acc = 0.0;
    for s in subs {
        if s.len() == 1 && (acc - d).abs() <= eps {
            out.push(s[0]);
        }
        for w in s.windows(2) {
            let l = ((w[1].0 - w[0].0).powi(2) + (w[1].1 - w[0].1).powi(2)).sqrt();
            if l == 0.0 && (acc - d).abs() <= eps {
                out.push(w[0]);
            }
            if d >= acc - eps && d <= acc + l + eps && l > 0.0 {
                let t = ((d - acc) / l).max(0.0).min(1.0);
                out.push((w[0].0 + (w[1].0 - w[0].0) * t, w[0].1 + (w[1].1 - w[0].1) * t));
            }
            acc += l;
        }
    }
    out
}

/// is p within `eps` of a point of the polyline whose arc-length position is within `ds` of s?
fn on_path_near(subs: &[Vec<(f64, f64)>], p: (f64, f64), s: f64, eps: f64, ds: f64) -> bool {
    let mut acc = 0.0;
    for sub in subs {
        for w in sub.windows(2) {
            let (vx, vy) = (w[1].0 - w[0].0, w[1].1 - w[0].1);
            let l = (vx * vx + vy * vy).sqrt();
            if l == 0.0 && ((w[0].0 - p.0).powi(2) + (w[0].1 - p.1).powi(2)).sqrt() <= eps && (acc - s).abs() <= ds {
                return true;
            }
            if l > 0.0 {
                let t = (((p.0 - w[0].0) * vx + (p.1 - w[0].1) * vy) / (l * l)).max(0.0).min(1.0);
                let (qx, qy) = (w[0].0 + vx * t, w[0].1 + vy * t);
                let d = ((qx - p.0).powi(2) + (qy - p.1).powi(2)).sqrt();
                if d <= eps && (acc + t * l - s).abs() <= ds {
                    return true;
                }
            }
            acc += l;
        }
    }
    false
}

/// Known-finding classes for curved paths (see known_findings.txt):
/// K7 = a curve with nearly collinear control points (hairpin, or straight with non-uniform
///      parameter speed): distance <-> parameter interpolation inside a flattened piece is off;
/// K8 = a curve whose control point coincides with an end point: derivative vanishes there.
fn curve_class(path: &Path) -> Option<&'static str> {
    let mut k8 = false;
    let mut k7 = false;
    for e in path.iter() {
        let near = |a: Point, b: Point, c: Point| -> bool {
            let (u, v) = (b - a, c - a);
            let (lu, lv) = (u.length(), v.length());
            lu < 1e-6 || lv < 1e-6 || (u.cross(v)).abs() / (lu * lv) < 0.35
        };
        match e {
            PathEvent::Quadratic { from, ctrl, to } => {
                if ctrl == from || ctrl == to {
                    k8 = true;
                }
                if near(from, ctrl, to) {
                    k7 = true;
                }
            }
            PathEvent::Cubic { from, ctrl1, ctrl2, to } => {
                if ctrl1 == from || ctrl2 == to {
                    k8 = true;
                }
                if near(from, ctrl1, to) || near(from, ctrl2, to) || near(ctrl1, ctrl2, to) {
                    k7 = true;
                }
            }
            _ => {}
        }
    }
    if k7 {
        Some("K7")
    } else if k8 {
        Some("K8")
    } else {
        None
    }
}

fn fail_c(st: &mut Stats, path: &Path, curved: bool, what: &str, input: String) {
    let mut fields = vec![("what", jstr(what)), ("input", jstr(&input))];
    if curved {
        if let Some(c) = curve_class(path) {
            fields.push(("class", jstr(c)));
        }
    }
    st.fail(jobj(&fields));
}

struct Pat {
    dists: Vec<f32>,
    k: usize,
    events: Vec<(Point, f32)>,
}
impl Pattern for Pat {
    fn next(&mut self, e: WalkerEvent) -> Option<f32> {
        self.events.push((e.position, e.distance));
        let r = self.dists.get(self.k).copied();
        self.k += 1;
        r
    }
}

pub fn main(args: &Args) -> std::io::Result<()> {
    use std::io::Write;
    let mut st = Stats::default();
    let mut w = ShardWriter::new(&args.out, "c19_cases", args.shards, HEADER, "bad_cases");
    w.disabled = args.direct_only();
    let mut idx = std::fs::File::create(args.out.join("c19_index.txt"))?;
    let mut rng = Rng::new(args.seed ^ 0x19);
    let n = if args.thorough() { 8000 } else { 1000 };
    let mut id = 0usize;
    for it in 0..n {
        // ---------------- paths: 3-4-5 polylines (exact lengths), single-point sub-paths, curves
        let curved = it % 3 == 2;
        let n_attr = (it % 4 == 1) as usize * 2;
        let spec = if curved {
            random_curved(&mut rng, n_attr, 3, 3, 12)
        } else {
            // steps from Pythagorean vectors so that every edge length is an integer
            let steps: [(f32, f32); 8] = [(3.0, 4.0), (4.0, 3.0), (-3.0, 4.0), (5.0, 0.0), (0.0, -5.0), (6.0, 8.0), (-4.0, -3.0), (0.0, 2.0)];
            let nsub = 1 + rng.below(4) as usize;
            let mut subs = Vec::new();
            for _ in 0..nsub {
                let mut p = point(rng.range(-5, 5) as f32, rng.range(-5, 5) as f32);
                let start = p;
                let attrs = |r: &mut Rng| -> Vec<f32> { (0..n_attr).map(|_| r.range(-8, 8) as f32).collect() };
                let start_attrs = attrs(&mut rng);
                let k = if rng.chance(1, 4) { 0 } else { 1 + rng.below(4) as usize };
                let mut segs = Vec::new();
                for _ in 0..k {
                    let s = *rng.pick(&steps);
                    p = point(p.x + s.0, p.y + s.1);
                    segs.push(Seg::Line(p, attrs(&mut rng)));
                }
                subs.push(Sub { start, start_attrs, segs, close: rng.chance(1, 3) });
            }
            PathSpec { n_attr, subs }
        };
        let path = spec.build();
        let tol = 0.01f32;
        let label = format!("{:?}", path);
        if curved {
            // Curves on which lyon's flattening itself is off (known finding K2 of C09: is_linear
            // overshoot, start == end) make every length-based reference meaningless: they are C09's
            // subject, skipped here and counted.
            let analytic = approximate_length(path.iter(), 0.0005) as f64;
            let flat = poly_len(&flat_polyline(&path, 0.0005));
            if (analytic - flat).abs() > 0.005 * (1.0 + flat) {
                st.inc("skipped_flattening_defect_curves");
                continue;
            }
        }
        // every way of building the measurements gives the same table (also an object re-initialised after other use)
        {
            let same = catch(AssertUnwindSafe(|| {
                let base = PathMeasurements::from_path(&path, tol).verif_table();
                let a = PathMeasurements::from_path_slice(&path.as_slice(), tol).verif_table();
                let b = PathMeasurements::from_iter(path.id_iter(), &path, tol).verif_table();
                let mut m = PathMeasurements::empty();
                let mut other = lyon_path::Path::builder();
                other.begin(lyon_path::math::point(100.0, 100.0));
                other.line_to(lyon_path::math::point(130.0, 140.0));
                other.quadratic_bezier_to(lyon_path::math::point(140.0, 100.0), lyon_path::math::point(150.0, 150.0));
                other.end(true);
                let other = other.build();
                m.initialize_with_path(&other, tol);
                m.initialize_with_path(&path, tol);
                let c = m.verif_table();
                m.initialize_with_path_slice(other.as_slice(), tol);
                m.initialize_with_path_slice(path.as_slice(), tol);
                let d = m.verif_table();
                m.initialize(other.id_iter(), &other, tol);
                m.initialize(path.id_iter(), &path, tol);
                let e = m.verif_table();
                base == a && base == b && base == c && base == d && base == e
            }));
            if same != Some(true) {
                st.fail(jobj(&[("what", jstr("the ways of building / re-initialising PathMeasurements disagree")), ("input", jstr(&format!("{:?} tol {}", path, tol)))]));
            }
        }
        let r = catch(AssertUnwindSafe(|| {
            let m = PathMeasurements::from_path(&path, tol);
            let (table, kinds) = m.verif_table();
            let len = m.length();
            let mut sampler = m.create_sampler_with_attributes(&path, &path, SampleType::Distance);
            let nq = 1 + rng.below(12) as usize;
            let mut queries = Vec::new();
            for q in 0..nq {
                let d = match rng.below(6) {
                    0 => 0.0,
                    1 => len,
                    2 => table[rng.below(table.len().max(1) as u64) as usize % table.len().max(1)].0,
                    3 => (rng.range(0, 40) as f32) * 0.5,
                    _ => (rng.unit_f64() as f32) * len * 1.1 - 0.05 * len,
                };
                let _ = q;
                let s = sampler.sample(d);
                let pos = s.position();
                let tan = s.tangent();
                let cursor = sampler.verif_cursor();
                let mut s2 = sampler.sample(d);
                let attrs = s2.attributes().to_vec();
                queries.push((d, cursor, pos, tan, attrs));
            }
            (table, kinds, len, queries)
        }));
        st.inc("evaluations");
        st.inc(if curved { "curved_paths" } else { "polyline_paths" });
        let (table, kinds, len, queries) = match r {
            Some(x) => x,
            None => {
                st.fail(jobj(&[("what", jstr("measuring / sampling panicked")), ("input", jstr(&label))]));
                continue;
            }
        };
        st.note_case(&label, table.len() > 2);
        // ---- direct checks
        let fine = flat_polyline(&path, if curved { 0.0005 } else { 0.01 });
        let want_len = poly_len(&fine);
        let slack = if curved { 0.02 * (1.0 + want_len) } else { 1e-4 * (1.0 + want_len) };
        if (len as f64 - want_len).abs() > slack {
            st.fail(jobj(&[("what", jstr("measured length differs from the length of the flattened path")), ("input", jstr(&format!("{} measured {} flattened {}", label, len, want_len)))]));
        }
        let al = approximate_length(path.iter(), tol);
        if (al as f64 - want_len).abs() > slack {
            st.fail(jobj(&[("what", jstr("approximate_length differs from the length of the flattened path")), ("input", jstr(&format!("{} {} vs {}", label, al, want_len)))]));
        }
        if len > 0.0 {
            for (d, _cursor, pos, tan, _attrs) in &queries {
                let dc = d.max(0.0).min(len) as f64;
                // the measured table is the reference for distances on curves: rescale
                let cands = points_at(&fine, dc * want_len / (len as f64), if curved { 0.05 } else { 1e-3 });
                let ok = if curved {
                    on_path_near(&fine, (pos.x as f64, pos.y as f64), dc * want_len / (len as f64), 0.03, 0.02 * want_len + 0.1)
                } else {
                    cands.iter().any(|c| ((c.0 - pos.x as f64).powi(2) + (c.1 - pos.y as f64).powi(2)).sqrt() <= 2e-3)
                };
                if !ok || !pos.x.is_finite() {
                    fail_c(&mut st, &path, curved, "sample is not the point at the requested distance along the path", format!("{} d={} got {:?} candidates {:?}", label, d, pos, cands));
                    break;
                }
                if !(tan.x.is_finite() && tan.y.is_finite()) || ((tan.x * tan.x + tan.y * tan.y).sqrt() - 1.0).abs() > 1e-3 {
                    // a zero-length segment has no tangent; only flag when the table has no zero-length rows
                    let zero_len_rows = table.windows(2).any(|w| w[0].0 == w[1].0 && kinds[w[1].1] == 1);
                    if !zero_len_rows {
                        fail_c(&mut st, &path, curved, "sample tangent is not a unit vector", format!("{} d={} tangent {:?}", label, d, tan));
                        break;
                    }
                }
            }
            // history independence: a fresh sampler gives the same answer (or another valid tie)
            let m = PathMeasurements::from_path(&path, tol);
            for (d, _c, pos, _t, attrs) in &queries {
                let mut fresh = m.create_sampler_with_attributes(&path, &path, SampleType::Distance);
                let mut s = fresh.sample(*d);
                let p2 = s.position();
                let a2 = s.attributes().to_vec();
                if (p2 - *pos).length() > 1e-3 {
                    // allowed only if both are points at distance d (tie between sub-paths)
                    let dc = d.max(0.0).min(len) as f64;
                    let cands = points_at(&fine, dc * want_len / (len as f64), 0.05);
                    let both = [p2, *pos].iter().all(|q| cands.iter().any(|c| ((c.0 - q.x as f64).powi(2) + (c.1 - q.y as f64).powi(2)).sqrt() <= 0.08));
                    if !both {
                        st.fail(jobj(&[("what", jstr("sample depends on the history of queries")), ("input", jstr(&format!("{} d={} {:?} vs fresh {:?}", label, d, pos, p2)))]));
                        break;
                    }
                } else if n_attr > 0 && attrs.iter().zip(a2.iter()).any(|(x, y)| (x - y).abs() > 1e-3) {
                    st.fail(jobj(&[("what", jstr("sampled attributes depend on the history of queries")), ("input", jstr(&format!("{} d={}", label, d)))]));
                    break;
                }
            }
            // split additivity: a..b and b..c add up to a..c
            let r = catch(AssertUnwindSafe(|| {
                let m = PathMeasurements::from_path(&path, tol);
                let mut sampler = m.create_sampler(&path, SampleType::Normalized);
                let mut cuts = [rng.unit_f64() as f32, rng.unit_f64() as f32, rng.unit_f64() as f32];
                cuts.sort_by(|a, b| a.partial_cmp(b).unwrap());
                let mut lens = Vec::new();
                for (a, b) in [(cuts[0], cuts[1]), (cuts[1], cuts[2]), (cuts[0], cuts[2])] {
                    let mut out = Path::builder();
                    sampler.split_range(a..b, &mut out);
                    lens.push(approximate_length(out.build().iter(), tol * 0.1));
                }
                (cuts, lens)
            }));
            match r {
                None => st.fail(jobj(&[("what", jstr("split_range panicked")), ("input", jstr(&label))])),
                Some((cuts, lens)) => {
                    let e = if curved { 0.03 * (1.0 + len) } else { 2e-3 * (1.0 + len) };
                    if (lens[0] + lens[1] - lens[2]).abs() > e || (lens[2] - (cuts[2] - cuts[0]) * len).abs() > e {
                        fail_c(&mut st, &path, curved, "lengths of split sub-ranges do not add up", format!("{} cuts {:?} lens {:?} total {}", label, cuts, lens, len));
                    }
                }
            }
        }
        // ---- model case: table + queries
        if len > 0.0 {
            writeln!(idx, "{}\t{}", id, label).ok();
            st.sample(format!("{} table {} rows, {} queries", label, table.len(), queries.len()));
            w.push(format!(
                "(CS (mkSC {} {} [{}]%Z {}))",
                id,
                glist(table.iter().map(|(d, i, t)| format!("({}, {}%Z, {})", gq(*d), i, gq(*t)))),
                kinds.iter().map(|k| format!("{}", k)).collect::<Vec<_>>().join("; "),
                glist(queries.iter().map(|(d, c, _, _, _)| {
                    let dc = d.max(0.0).min(len);
                    format!("({}, {}%Z, {}%Z)", gq(dc), c, table[*c].1)
                }))
            ));
            id += 1;
        }

        // ---------------- walker on the polyline paths (exact integer edge lengths)
        if !curved {
            let start = rng.range(0, 6) as f32 * 0.5;
            let pd: Vec<f32> = (0..(1 + rng.below(20))).map(|_| *rng.pick(&[0.5f32, 1.0, 1.5, 2.0, 3.0, 7.0, 0.25])).collect();
            let mut pat = Pat { dists: pd.clone(), k: 0, events: vec![] };
            let r = catch(AssertUnwindSafe(|| walk_along_path(path.iter(), start, tol, &mut pat)));
            st.inc("evaluations");
            st.inc("walker_runs");
            if r.is_none() {
                st.fail(jobj(&[("what", jstr("walker panicked")), ("input", jstr(&label))]));
            } else {
                // the walker visits exactly the cumulative distances it was asked for, on the path
                let mut want = start;
                for (k, (pos, dist)) in pat.events.iter().enumerate() {
                    if (dist - want).abs() > 1e-3 {
                        st.fail(jobj(&[("what", jstr("walker event is not at the cumulative requested distance")), ("input", jstr(&format!("{} start {} pattern {:?} event {} at {} expected {}", label, start, pd, k, dist, want)))]));
                        break;
                    }
                    // the walker does not count the gap between sub-paths, like the measured length
                    let cands = points_at(&fine, *dist as f64, 1e-3);
                    if !cands.iter().any(|c| ((c.0 - pos.x as f64).powi(2) + (c.1 - pos.y as f64).powi(2)).sqrt() <= 2e-3) {
                        st.fail(jobj(&[("what", jstr("walker event position is not at its distance along the path")), ("input", jstr(&format!("{} start {} pattern {:?} event {} {:?} d={}", label, start, pd, k, pos, dist)))]));
                        break;
                    }
                    want += pd.get(k).copied().unwrap_or(0.0);
                }
                // edge lengths as the walker sees them (zero-length edges are skipped by the code: d < 1e-5)
                let mut lengths: Vec<f32> = Vec::new();
                for s in &fine {
                    for wv in s.windows(2) {
                        let l = (((wv[1].0 - wv[0].0).powi(2) + (wv[1].1 - wv[0].1).powi(2)).sqrt()) as f32;
                        if l >= 1e-5 {
                            lengths.push(l);
                        }
                    }
                }
                // map each event to its edge number by cumulative length
                let mut evs = Vec::new();
                for (_, dist) in &pat.events {
                    let mut acc = 0.0f32;
                    let mut k = 0usize;
                    for (i, l) in lengths.iter().enumerate() {
                        if *dist <= acc + l {
                            k = i;
                            break;
                        }
                        acc += l;
                        k = i;
                    }
                    evs.push((k, *dist));
                }
                writeln!(idx, "{}\twalk {} start {} pattern {:?}", id, label, start, pd).ok();
                w.push(format!(
                    "(CW (mkWC {} {} {} {} {}))",
                    id,
                    glist(lengths.iter().map(|l| gq(*l))),
                    gq(start),
                    glist(pd.iter().map(|d| gq(*d))),
                    glist(evs.iter().map(|(k, d)| format!("({}%Z, {})", k, gq(*d))))
                ));
                id += 1;
            }
        }
    }
    // corpus: the single-point-first path
    {
        let mut b = Path::builder();
        b.begin(point(1.0, 1.0));
        b.end(false);
        b.begin(point(0.0, 0.0));
        b.line_to(point(3.0, 4.0));
        b.end(false);
        let path = b.build();
        let r = catch(AssertUnwindSafe(|| {
            let m = PathMeasurements::from_path(&path, 0.01);
            let mut s = m.create_sampler(&path, SampleType::Distance);
            let p0 = s.sample(0.0).position();
            let p1 = s.sample(5.0).position();
            (p0, p1)
        }));
        st.inc("evaluations");
        st.inc("corpus");
        match r {
            Some((p0, p1)) if (p0 == point(0.0, 0.0) || p0 == point(1.0, 1.0)) && p1 == point(3.0, 4.0) => {}
            other => st.fail(jobj(&[("what", jstr("sample on a path starting with a single-point sub-path")), ("input", jstr(&format!("{:?}", other)))])),
        }
    }
    w.finish()?;
    st.write(&args.out.join("c19_stats.json"))
}
