//! C01 / C02 (system level) / C03: fill coverage.  Paths are tessellated through every entry
//! point x fill rule x orientation; the outline (exact f32 values) and the triangles go to the
//! Coq-verified region comparator; the same property is evaluated directly on sample points with
//! an independent f64 crossing-number / orientation test.
use crate::tess::*;
use crate::util::*;
use lyon_path::iterator::PathIterator;
use lyon_path::math::{point, Point};
use lyon_path::{FillRule, PathEvent};
use lyon_tessellation::geometry_builder::VertexBuffers;
use lyon_tessellation::{FillOptions, FillTessellator, Orientation};
use std::panic::AssertUnwindSafe;

pub const HEADER: &str =
    "From Coq Require Import QArith.\nFrom LV Require Import Base.Prelude Model.Bezier Model.Winding Checker.Region Run.C01.\nOpen Scope Q_scope.";

fn gq(v: f32) -> String {
    if v.is_finite() {
        gq32(v)
    } else {
        "(123456789 # 1)".into()
    }
}
fn gp(p: Point) -> String {
    format!("({}, {})", gq(p.x), gq(p.y))
}

pub struct FillOut {
    pub ok: Option<bool>, // None = panicked
    pub positions: Vec<Point>,
    pub tris: Vec<(u32, u32, u32)>,
}

pub fn fill(entry: Entry, spec: &PathSpec, opts: &FillOptions) -> FillOut {
    let mut buffers: VertexBuffers<Point, u32> = VertexBuffers::new();
    let (ok, calls, positions) = {
        let mut rec = Recorder::new(&mut buffers, None);
        let ok = catch(AssertUnwindSafe(|| run_fill(entry, &mut FillTessellator::new(), spec, opts, &mut rec))).map(|r| r.is_ok());
        (ok, rec.calls.clone(), rec.positions.clone())
    };
    let mut pos = vec![point(f32::NAN, f32::NAN); buffers.vertices.len().max(positions.iter().map(|p| p.0 as usize + 1).max().unwrap_or(0))];
    for (id, p) in positions {
        pos[id as usize] = p;
    }
    let tris = calls.iter().filter_map(|c| if let GCall::Tri(a, b, c) = c { Some((*a, *b, *c)) } else { None }).collect();
    FillOut { ok, positions: pos, tris }
}

/// the outline as f64 edges (sub-paths implicitly closed); curves flattened finely
pub fn outline_edges(spec: &PathSpec, flat_tol: f32) -> Vec<((f64, f64), (f64, f64))> {
    let path = spec.build();
    let mut edges = Vec::new();
    for e in path.iter().flattened(flat_tol) {
        match e {
            PathEvent::Line { from, to } => edges.push(((from.x as f64, from.y as f64), (to.x as f64, to.y as f64))),
            PathEvent::End { last, first, .. } => edges.push(((last.x as f64, last.y as f64), (first.x as f64, first.y as f64))),
            _ => {}
        }
    }
    edges
}
pub fn outline_edges_f32(spec: &PathSpec, flat_tol: f32) -> Vec<(Point, Point)> {
    let path = spec.build();
    let mut edges = Vec::new();
    for e in path.iter().flattened(flat_tol) {
        match e {
            PathEvent::Line { from, to } => edges.push((from, to)),
            PathEvent::End { last, first, .. } => edges.push((last, first)),
            _ => {}
        }
    }
    edges
}

pub fn wn_f64(p: (f64, f64), edges: &[((f64, f64), (f64, f64))]) -> i32 {
    let mut w = 0;
    for &(a, b) in edges {
        if a.1 == b.1 {
            continue;
        }
        let (lo, hi, s) = if a.1 < b.1 { (a, b, 1) } else { (b, a, -1) };
        if lo.1 <= p.1 && p.1 < hi.1 {
            let x = lo.0 + (p.1 - lo.1) * (hi.0 - lo.0) / (hi.1 - lo.1);
            if x < p.0 {
                w += s;
            }
        }
    }
    w
}

pub fn dist_to_edges(p: (f64, f64), edges: &[((f64, f64), (f64, f64))]) -> f64 {
    let mut d = f64::MAX;
    for &(a, b) in edges {
        let (vx, vy) = (b.0 - a.0, b.1 - a.1);
        let l2 = vx * vx + vy * vy;
        let t = if l2 > 0.0 { (((p.0 - a.0) * vx + (p.1 - a.1) * vy) / l2).max(0.0).min(1.0) } else { 0.0 };
        let (qx, qy) = (a.0 + vx * t, a.1 + vy * t);
        d = d.min(((qx - p.0).powi(2) + (qy - p.1).powi(2)).sqrt());
    }
    d
}

/// (closed count, open count): triangles containing p including / excluding their boundary
pub fn cover_f64(p: (f64, f64), pos: &[Point], tris: &[(u32, u32, u32)]) -> (usize, usize) {
    let (mut closed, mut open) = (0, 0);
    for t in tris {
        let (a, b, c) = (pos[t.0 as usize], pos[t.1 as usize], pos[t.2 as usize]);
        let o = |u: Point, v: Point| (v.x as f64 - u.x as f64) * (p.1 - u.y as f64) - (v.y as f64 - u.y as f64) * (p.0 - u.x as f64);
        let (d1, d2, d3) = (o(a, b), o(b, c), o(c, a));
        let neg = d1 < 0.0 || d2 < 0.0 || d3 < 0.0;
        let posi = d1 > 0.0 || d2 > 0.0 || d3 > 0.0;
        if !(neg && posi) && (d1 != 0.0 || d2 != 0.0 || d3 != 0.0) {
            closed += 1;
        }
        if (d1 > 0.0 && d2 > 0.0 && d3 > 0.0) || (d1 < 0.0 && d2 < 0.0 && d3 < 0.0) {
            open += 1;
        }
    }
    (closed, open)
}

pub fn is_in(rule: FillRule, w: i32) -> bool {
    match rule {
        FillRule::EvenOdd => w % 2 != 0,
        FillRule::NonZero => w != 0,
    }
}

/// direct evaluation on sample points; returns a failing point if any
pub fn direct_coverage(
    edges: &[((f64, f64), (f64, f64))],
    pos: &[Point],
    tris: &[(u32, u32, u32)],
    rule: FillRule,
    band: f64,
    rng: &mut Rng,
    check_overlap: bool,
) -> Option<String> {
    if edges.is_empty() {
        return if tris.is_empty() { None } else { Some("triangles produced for an empty outline".into()) };
    }
    let (mut lx, mut hx, mut ly, mut hy) = (f64::MAX, f64::MIN, f64::MAX, f64::MIN);
    for &(a, b) in edges {
        for q in [a, b] {
            lx = lx.min(q.0);
            hx = hx.max(q.0);
            ly = ly.min(q.1);
            hy = hy.max(q.1);
        }
    }
    let (w, h) = ((hx - lx).max(1e-3), (hy - ly).max(1e-3));
    let n = 24;
    let mut pts: Vec<(f64, f64)> = Vec::new();
    for i in 0..=n {
        for j in 0..=n {
            pts.push((lx - 0.1 * w + 1.2 * w * (i as f64 + 0.37) / (n as f64 + 1.0), ly - 0.1 * h + 1.2 * h * (j as f64 + 0.61) / (n as f64 + 1.0)));
        }
    }
    for _ in 0..200 {
        pts.push((lx - 0.05 * w + 1.1 * w * rng.unit_f64(), ly - 0.05 * h + 1.1 * h * rng.unit_f64()));
    }
    // triangle centroids and edge midpoints pushed slightly inwards exercise the neighbourhood of every triangle
    for t in tris {
        let (a, b, c) = (pos[t.0 as usize], pos[t.1 as usize], pos[t.2 as usize]);
        pts.push(((a.x + b.x + c.x) as f64 / 3.0, (a.y + b.y + c.y) as f64 / 3.0));
    }
    for p in pts {
        if dist_to_edges(p, edges) <= band {
            continue;
        }
        let inside = is_in(rule, wn_f64(p, edges));
        let (closed, open) = cover_f64(p, pos, tris);
        // a point on a shared triangle edge is in the closure of both: use the closed count for
        // "inside => covered" and the open count for "outside => not covered" and for overlaps
        if inside && closed == 0 {
            return Some(format!("point ({}, {}) is inside the fill-rule interior but not covered", p.0, p.1));
        }
        if !inside && open >= 1 {
            return Some(format!("point ({}, {}) is outside the fill-rule interior but covered by {} triangle(s)", p.0, p.1, open));
        }
        if check_overlap && open > 1 {
            return Some(format!("point ({}, {}) is in the interior of {} triangles (overlap)", p.0, p.1, open));
        }
    }
    None
}

pub fn case_literal(id: usize, rule: FillRule, band: f64, edges: &[(Point, Point)], out: &FillOut) -> String {
    format!(
        "(mkRC {} {} {} {} {})",
        id,
        if rule == FillRule::EvenOdd { 0 } else { 1 },
        gq64(band * band),
        glist(edges.iter().map(|(a, b)| format!("({}, {})", gp(*a), gp(*b)))),
        glist(out.tris.iter().map(|t| format!("({}, {}, {})", gp(out.positions[t.0 as usize]), gp(out.positions[t.1 as usize]), gp(out.positions[t.2 as usize]))))
    )
}

struct Cx<'a> {
    w: &'a mut ShardWriter,
    st: &'a mut Stats,
    idx: &'a mut std::fs::File,
    id: usize,
    rng: Rng,
    overlap: bool,
}

fn run_poly(cx: &mut Cx, spec: &PathSpec, k: usize, origin: &str, to_coq: bool) {
    use std::io::Write;
    let rule = if k % 2 == 0 { FillRule::EvenOdd } else { FillRule::NonZero };
    let orient = if (k / 2) % 2 == 0 { Orientation::Vertical } else { Orientation::Horizontal };
    let tol = if (k / 4) % 2 == 0 { 0.1 } else { 0.01 };
    let entry = FILL_ENTRIES[(k / 8) % FILL_ENTRIES.len()];
    let opts = FillOptions::tolerance(tol).with_fill_rule(rule).with_sweep_orientation(orient);
    let label = format!("{:?} {:?} tol {} {:?} {}", rule, orient, tol, entry, spec.text());
    cx.st.inc("evaluations");
    cx.st.inc(&format!("origin_{}", origin));
    cx.st.inc(&format!("entry_{:?}", entry));
    let out = fill(entry, spec, &opts);
    let ok = match out.ok {
        None => {
            cx.st.fail(jobj(&[("what", jstr("fill tessellation panicked")), ("input", jstr(&label))]));
            return;
        }
        Some(ok) => ok,
    };
    cx.st.note_case(&label, !out.tris.is_empty());
    if !ok {
        cx.st.inc("returned_err");
        return;
    }
    cx.st.inc("returned_ok");
    // no triangle references the same vertex twice
    for t in &out.tris {
        if t.0 == t.1 || t.1 == t.2 || t.0 == t.2 {
            cx.st.fail(jobj(&[("what", jstr("triangle references the same vertex twice")), ("input", jstr(&label))]));
            break;
        }
    }
    let edges64 = outline_edges(spec, 0.01);
    let band = tol as f64;
    if let Some(msg) = direct_coverage(&edges64, &out.positions, &out.tris, rule, band + 1e-4, &mut cx.rng, true) {
        cx.st.fail(jobj(&[("what", jstr(&format!("fill does not cover exactly the fill-rule interior: {}", msg))), ("input", jstr(&label))]));
    }
    // area: sum of triangle areas = area of the filled region (computed from the signed areas is only
    // possible for simple regions; here: triangles do not overlap (checked above) and cover exactly)
    // the overlap run (C02) is costlier per case: a third of the subset
    let small_enough = out.tris.len() <= if cx.overlap { 12 } else { 40 };
    if to_coq && !small_enough {
        cx.st.inc("too_large_for_verified_checker_budget");
    }
    if to_coq && small_enough && !(cx.overlap && k % 3 != 0) {
        cx.st.sample(format!("{} -> {} triangles", label, out.tris.len()));
        writeln!(cx.idx, "{}\t{}", cx.id, label).ok();
        let edges32 = outline_edges_f32(spec, 0.01);
        cx.w.push(case_literal(cx.id, rule, band, &edges32, &out));
        cx.st.inc("cases_for_verified_checker");
        cx.id += 1;
    }
}

pub fn main(args: &Args) -> std::io::Result<()> {
    let mut st = Stats::default();
    // `--overlap`: the same cases go to the "covered at most once" check of C02 instead
    let overlap = args.extra.iter().any(|a| a == "--overlap");
    let (prefix, footer) = if overlap { ("c02sys", "overlap_bad_cases") } else { ("c01", "bad_cases") };
    let mut w = ShardWriter::new(&args.out, &format!("{}_cases", prefix), args.shards, HEADER, footer);
    w.disabled = args.direct_only();
    let mut idx = std::fs::File::create(args.out.join(format!("{}_index.txt", prefix)))?;
    let mut cx = Cx { w: &mut w, st: &mut st, idx: &mut idx, id: 0, rng: Rng::new(args.seed ^ 0x01), overlap };
    // exhaustive: every closed polygon with 3 or 4 vertices on a g x g lattice (all degeneracies of that size)
    let g: i64 = if args.thorough() { 4 } else { 3 };
    let n = g * g;
    let pt = |k: i64| ((k / g) as f32, (k % g) as f32);
    let mut k = 0usize;
    for a in 0..n {
        for b in 0..n {
            for c in 0..n {
                let spec = PathSpec::from_polylines(&[vec![pt(a), pt(b), pt(c)]], &[true]);
                run_poly(&mut cx, &spec, k, "exhaustive3", k % 7 == 0 || args.thorough());
                k += 1;
                for d in 0..n {
                    let spec = PathSpec::from_polylines(&[vec![pt(a), pt(b), pt(c), pt(d)]], &[k % 2 == 0]);
                    // the verified checker sees a rotating subset in the quick tier, everything is checked directly
                    run_poly(&mut cx, &spec, k, "exhaustive4", (k % 60 == 0) || (args.thorough() && k % 4 == 0));
                    k += 1;
                }
            }
        }
    }
    cx.st.add("exhaustive_lattice_side", g as u64);
    // random multi-sub-path lattice paths (open sub-paths, stars, nested, shared edges), non-lattice too
    let n_random = if args.thorough() { 6000 } else { 500 };
    for i in 0..n_random {
        let mut r = Rng::new(cx.rng.next_u64());
        let spec = match i % 5 {
            0 => random_polygonal(&mut r, 3, 7, 6),
            1 => {
                // star
                let m = 5 + r.below(4) as usize;
                let pts: Vec<(f32, f32)> = (0..m).map(|j| {
                    let a = (j * 2 % m) as f32 / m as f32 * std::f32::consts::TAU;
                    ((a.cos() * 5.0).round(), (a.sin() * 5.0).round())
                }).collect();
                PathSpec::from_polylines(&[pts], &[true])
            }
            2 => {
                // nested squares, same or opposite direction, shared edge
                let s = r.range(1, 3) as f32;
                let outer = vec![(0.0, 0.0), (6.0, 0.0), (6.0, 6.0), (0.0, 6.0)];
                let mut inner = vec![(s, s), (6.0 - s * (r.below(2) as f32), s), (6.0 - s * (r.below(2) as f32), 6.0 - s), (s, 6.0 - s)];
                if r.chance(1, 2) {
                    inner.reverse();
                }
                PathSpec::from_polylines(&[outer, inner], &[true, true])
            }
            3 => {
                // non-lattice
                let kk = 3 + r.below(5) as usize;
                let pts: Vec<(f32, f32)> = (0..kk).map(|_| ((r.unit_f64() * 10.0) as f32, (r.unit_f64() * 10.0) as f32)).collect();
                PathSpec::from_polylines(&[pts], &[true])
            }
            _ => random_polygonal(&mut r, 2, 10, 8),
        };
        run_poly(&mut cx, &spec, k, "random", i % 6 == 0 || (args.thorough() && i % 2 == 0));
        k += 1;
    }
    drop(cx);
    w.finish()?;
    st.write(&args.out.join(format!("{}_stats.json", prefix)))
}
