//! C01 / C02 (system level) / C03: fill coverage.  Paths are tessellated through every entry
//! point x fill rule x orientation; the outline (exact f32 values) and the triangles go to the
//! Coq-verified region comparator; the same property is evaluated directly on sample points with
//! an independent f64 crossing-number / orientation test.
use crate::tess::*;
use crate::util::*;
use lyon_path::iterator::PathIterator;
use lyon_path::math::{point, Point};
use lyon_path::{FillRule, PathEvent};
use lyon_tessellation::geometry_builder::VertexBuffers;
use lyon_tessellation::{FillOptions, FillTessellator, Orientation};
use std::panic::AssertUnwindSafe;

pub const HEADER: &str =
    "From Coq Require Import QArith.\nFrom LV Require Import Base.Prelude Model.Bezier Model.Winding Checker.Region Run.C01.\nOpen Scope Q_scope.";

fn gq(v: f32) -> String {
    if v.is_finite() {
        gq32(v)
    } else {
        "(123456789 # 1)".into()
    }
}
fn gp(p: Point) -> String {
    format!("({}, {})", gq(p.x), gq(p.y))
}

pub struct FillOut {
    pub ok: Option<bool>, // None = panicked
    pub positions: Vec<Point>,
    pub tris: Vec<(u32, u32, u32)>,
}

thread_local! {
    static FILL_CALLS: std::cell::Cell<u64> = std::cell::Cell::new(0);
    static REUSED: std::cell::RefCell<Option<FillTessellator>> = std::cell::RefCell::new(None);
    /// the last inputs the long-lived tessellator was given (most recent last), for the diagnosis of a failure
    static HISTORY: std::cell::RefCell<Vec<(Entry, PathSpec, FillOptions)>> = std::cell::RefCell::new(Vec::new());
    static LAST_ROUTE: std::cell::Cell<(bool, bool)> = std::cell::Cell::new((false, false));
}

/// how the last `fill` was run: (through the long-lived tessellator, into pre-filled buffers)
pub fn last_route() -> (bool, bool) {
    LAST_ROUTE.with(|c| c.get())
}

/// one fill through a given tessellator into empty buffers
fn fill_with(t: &mut FillTessellator, entry: Entry, spec: &PathSpec, opts: &FillOptions) -> FillOut {
    let mut buffers: VertexBuffers<Point, u32> = VertexBuffers::new();
    let (ok, calls, positions) = {
        let mut rec = Recorder::new(&mut buffers, None);
        let ok = catch(AssertUnwindSafe(|| run_fill(entry, t, spec, opts, &mut rec))).map(|r| r.is_ok());
        (ok, rec.calls.clone(), rec.positions.clone())
    };
    let mut pos = vec![point(f32::NAN, f32::NAN); buffers.vertices.len().max(positions.iter().map(|p| p.0 as usize + 1).max().unwrap_or(0))];
    for (id, p) in positions {
        pos[id as usize] = p;
    }
    let tris = calls.iter().filter_map(|c| if let GCall::Tri(a, b, c) = c { Some((*a, *b, *c)) } else { None }).collect();
    FillOut { ok, positions: pos, tris }
}

/// after a failure of a fill that went through the long-lived tessellator: the same input through a fresh one, and
/// through fresh ones that are first given the last 1, 2, ... inputs of the long-lived one.  `bad` decides an output.
pub fn diagnose_history(entry: Entry, spec: &PathSpec, opts: &FillOptions, bad: &mut dyn FnMut(&FillOut) -> bool) -> String {
    let fresh = fill_with(&mut FillTessellator::new(), entry, spec, opts);
    if bad(&fresh) {
        return "also with a fresh tessellator and empty buffers".to_string();
    }
    let hist: Vec<(Entry, PathSpec, FillOptions)> = HISTORY.with(|h| h.borrow().clone());
    // the current input is the last element of the history when it went through the long-lived tessellator
    let prior = if hist.is_empty() { &hist[..] } else { &hist[..hist.len() - 1] };
    for k in 1..=prior.len() {
        let mut t = FillTessellator::new();
        for (e, s, o) in &prior[prior.len() - k..] {
            let _ = fill_with(&mut t, *e, s, o);
        }
        let out = fill_with(&mut t, entry, spec, opts);
        if bad(&out) {
            let (e, s, o) = &prior[prior.len() - k];
            return format!(
                "NOT with a fresh tessellator; reproduced by a tessellator that was first given the previous {} input(s), the earliest being {:?} {:?} {:?} tol {} {}",
                k, e, o.fill_rule, o.sweep_orientation, o.tolerance, s.text()
            );
        }
    }
    "NOT with a fresh tessellator, and not reproduced from the last inputs of the long-lived tessellator either".to_string()
}

pub fn fill(entry: Entry, spec: &PathSpec, opts: &FillOptions) -> FillOut {
    let mut buffers: VertexBuffers<Point, u32> = VertexBuffers::new();
    let n = FILL_CALLS.with(|c| {
        c.set(c.get() + 1);
        c.get()
    });
    // half of the calls append to buffers that already hold another geometry (5 vertices far away, one triangle): the
    // result is then read the way a user reads it - the indices after the first geometry's, into the vertex buffer
    let prefilled = n % 4 >= 2;
    if prefilled {
        buffers.vertices = vec![point(-1.0e6, -1.0e6); 5];
        buffers.indices = vec![0, 1, 2];
    }
    let (ok, calls, positions) = {
        let mut rec = Recorder::new(&mut buffers, None);
        // every other call goes through one long-lived tessellator (the property does not depend on the tessellator's
        // history: C08); it is replaced after a call that failed or panicked
        LAST_ROUTE.with(|c| c.set((n % 2 == 0, prefilled)));
        let ok = if n % 2 == 0 {
            HISTORY.with(|h| {
                let mut h = h.borrow_mut();
                h.push((entry, spec.clone(), *opts));
                if h.len() > 5 {
                    h.remove(0);
                }
            });
            let mut t = REUSED.with(|t| t.borrow_mut().take()).unwrap_or_else(FillTessellator::new);
            let ok = catch(AssertUnwindSafe(|| run_fill(entry, &mut t, spec, opts, &mut rec))).map(|r| r.is_ok());
            if ok == Some(true) {
                REUSED.with(|c| *c.borrow_mut() = Some(t));
            } else {
                HISTORY.with(|h| h.borrow_mut().clear());
            }
            ok
        } else {
            catch(AssertUnwindSafe(|| run_fill(entry, &mut FillTessellator::new(), spec, opts, &mut rec))).map(|r| r.is_ok())
        };
        (ok, rec.calls.clone(), rec.positions.clone())
    };
    let mut pos = vec![point(f32::NAN, f32::NAN); buffers.vertices.len().max(positions.iter().map(|p| p.0 as usize + 1).max().unwrap_or(0))];
    for (id, p) in positions {
        pos[id as usize] = p;
    }
    if prefilled {
        let tris = buffers.indices[3.min(buffers.indices.len())..].chunks(3).filter(|c| c.len() == 3).map(|c| (c[0], c[1], c[2])).collect();
        return FillOut { ok, positions: buffers.vertices.clone(), tris };
    }
    let tris = calls.iter().filter_map(|c| if let GCall::Tri(a, b, c) = c { Some((*a, *b, *c)) } else { None }).collect();
    FillOut { ok, positions: pos, tris }
}

/// the outline as f64 edges (sub-paths implicitly closed); curves flattened finely
pub fn outline_edges(spec: &PathSpec, flat_tol: f32) -> Vec<((f64, f64), (f64, f64))> {
    let path = spec.build();
    let mut edges = Vec::new();
    for e in path.iter().flattened(flat_tol) {
        match e {
            PathEvent::Line { from, to } => edges.push(((from.x as f64, from.y as f64), (to.x as f64, to.y as f64))),
            PathEvent::End { last, first, .. } => edges.push(((last.x as f64, last.y as f64), (first.x as f64, first.y as f64))),
            _ => {}
        }
    }
    edges
}
pub fn outline_edges_f32(spec: &PathSpec, flat_tol: f32) -> Vec<(Point, Point)> {
    let path = spec.build();
    let mut edges = Vec::new();
    for e in path.iter().flattened(flat_tol) {
        match e {
            PathEvent::Line { from, to } => edges.push((from, to)),
            PathEvent::End { last, first, .. } => edges.push((last, first)),
            _ => {}
        }
    }
    edges
}

pub fn wn_f64(p: (f64, f64), edges: &[((f64, f64), (f64, f64))]) -> i32 {
    let mut w = 0;
    for &(a, b) in edges {
        if a.1 == b.1 {
            continue;
        }
        let (lo, hi, s) = if a.1 < b.1 { (a, b, 1) } else { (b, a, -1) };
        if lo.1 <= p.1 && p.1 < hi.1 {
            let x = lo.0 + (p.1 - lo.1) * (hi.0 - lo.0) / (hi.1 - lo.1);
            if x < p.0 {
                w += s;
            }
        }
    }
    w
}

pub fn dist_to_edges(p: (f64, f64), edges: &[((f64, f64), (f64, f64))]) -> f64 {
    let mut d = f64::MAX;
    for &(a, b) in edges {
        let (vx, vy) = (b.0 - a.0, b.1 - a.1);
        let l2 = vx * vx + vy * vy;
        let t = if l2 > 0.0 { (((p.0 - a.0) * vx + (p.1 - a.1) * vy) / l2).max(0.0).min(1.0) } else { 0.0 };
        let (qx, qy) = (a.0 + vx * t, a.1 + vy * t);
        d = d.min(((qx - p.0).powi(2) + (qy - p.1).powi(2)).sqrt());
    }
    d
}

/// (closed count, open count): triangles containing p including / excluding their boundary
pub fn cover_f64(p: (f64, f64), pos: &[Point], tris: &[(u32, u32, u32)]) -> (usize, usize) {
    let (mut closed, mut open) = (0, 0);
    for t in tris {
        let (a, b, c) = (pos[t.0 as usize], pos[t.1 as usize], pos[t.2 as usize]);
        let o = |u: Point, v: Point| (v.x as f64 - u.x as f64) * (p.1 - u.y as f64) - (v.y as f64 - u.y as f64) * (p.0 - u.x as f64);
        let (d1, d2, d3) = (o(a, b), o(b, c), o(c, a));
        let len = |u: Point, v: Point| ((v.x as f64 - u.x as f64).hypot(v.y as f64 - u.y as f64)).max(1e-30);
        let scale = [a, b, c].iter().fold(1.0f64, |m, q| m.max(q.x.abs() as f64).max(q.y.abs() as f64));
        let (e1, e2, e3) = (d1 / len(a, b), d2 / len(b, c), d3 / len(c, a));
        // closed triangle: a sample point that lies on an edge shared by two triangles up to the rounding of these f64
        // orientation tests (distance to the edge's line below 1e-9 of the coordinates) is in the closure of both
        let zero = 1e-9 * scale;
        let neg = e1 < -zero || e2 < -zero || e3 < -zero;
        let posi = e1 > zero || e2 > zero || e3 > zero;
        if !(neg && posi) && (d1 != 0.0 || d2 != 0.0 || d3 != 0.0) {
            closed += 1;
        }
        // interior with a margin: a sliver triangle (three almost collinear vertices, the f32 image of a degenerate
        // one) has no such interior, and a point within rounding distance of an edge is not counted twice
        let delta = 2e-5 * scale;
        if (e1 > delta && e2 > delta && e3 > delta) || (e1 < -delta && e2 < -delta && e3 < -delta) {
            open += 1;
        }
    }
    (closed, open)
}

pub fn is_in(rule: FillRule, w: i32) -> bool {
    match rule {
        FillRule::EvenOdd => w % 2 != 0,
        FillRule::NonZero => w != 0,
    }
}

/// direct evaluation on sample points; returns a failing point if any
pub fn direct_coverage(
    edges: &[((f64, f64), (f64, f64))],
    pos: &[Point],
    tris: &[(u32, u32, u32)],
    rule: FillRule,
    band: f64,
    rng: &mut Rng,
    check_overlap: bool,
) -> Option<String> {
    if edges.is_empty() {
        return if tris.is_empty() { None } else { Some("triangles produced for an empty outline".into()) };
    }
    let (mut lx, mut hx, mut ly, mut hy) = (f64::MAX, f64::MIN, f64::MAX, f64::MIN);
    for &(a, b) in edges {
        for q in [a, b] {
            lx = lx.min(q.0);
            hx = hx.max(q.0);
            ly = ly.min(q.1);
            hy = hy.max(q.1);
        }
    }
    let (w, h) = ((hx - lx).max(1e-3), (hy - ly).max(1e-3));
    let n = 24;
    let mut pts: Vec<(f64, f64)> = Vec::new();
    for i in 0..=n {
        for j in 0..=n {
            pts.push((lx - 0.1 * w + 1.2 * w * (i as f64 + 0.37) / (n as f64 + 1.0), ly - 0.1 * h + 1.2 * h * (j as f64 + 0.61) / (n as f64 + 1.0)));
        }
    }
    for _ in 0..200 {
        pts.push((lx - 0.05 * w + 1.1 * w * rng.unit_f64(), ly - 0.05 * h + 1.1 * h * rng.unit_f64()));
    }
    // triangle centroids and edge midpoints pushed slightly inwards exercise the neighbourhood of every triangle
    for t in tris {
        let (a, b, c) = (pos[t.0 as usize], pos[t.1 as usize], pos[t.2 as usize]);
        pts.push(((a.x + b.x + c.x) as f64 / 3.0, (a.y + b.y + c.y) as f64 / 3.0));
    }
    for p in pts {
        if dist_to_edges(p, edges) <= band {
            continue;
        }
        let inside = is_in(rule, wn_f64(p, edges));
        let (closed, open) = cover_f64(p, pos, tris);
        // a point on a shared triangle edge is in the closure of both: use the closed count for
        // "inside => covered" and the open count for "outside => not covered" and for overlaps
        if inside && closed == 0 {
            return Some(format!("point ({}, {}) is inside the fill-rule interior but not covered", p.0, p.1));
        }
        if !inside && open >= 1 {
            return Some(format!("point ({}, {}) is outside the fill-rule interior but covered by {} triangle(s)", p.0, p.1, open));
        }
        if check_overlap && open > 1 {
            return Some(format!("point ({}, {}) is in the interior of {} triangles (overlap)", p.0, p.1, open));
        }
    }
    None
}

pub fn case_literal(id: usize, rule: FillRule, band: f64, edges: &[(Point, Point)], out: &FillOut) -> String {
    format!(
        "(mkRC {} {} {} {} {})",
        id,
        if rule == FillRule::EvenOdd { 0 } else { 1 },
        gq64(band * band),
        glist(edges.iter().map(|(a, b)| format!("({}, {})", gp(*a), gp(*b)))),
        glist(out.tris.iter().map(|t| format!("({}, {}, {})", gp(out.positions[t.0 as usize]), gp(out.positions[t.1 as usize]), gp(out.positions[t.2 as usize]))))
    )
}

struct Cx<'a> {
    w: &'a mut ShardWriter,
    /// small cases for the whole-plane checker (lines + slabs)
    wp: &'a mut ShardWriter,
    plane_budget: usize,
    st: &'a mut Stats,
    idx: &'a mut std::fs::File,
    id: usize,
    rng: Rng,
    overlap: bool,
}


/// integer-lattice polygon in degenerate position: some vertex lies exactly on the interior of another edge, or two
/// edges are collinear and overlap in more than a point
pub fn degenerate_position(spec: &PathSpec) -> bool {
    let mut edges: Vec<((i64, i64), (i64, i64))> = Vec::new();
    let mut verts: Vec<(i64, i64)> = Vec::new();
    for s in &spec.subs {
        let mut pts = vec![(s.start.x as i64, s.start.y as i64)];
        for g in &s.segs {
            if let Seg::Line(p, _) = g {
                pts.push((p.x as i64, p.y as i64));
            } else {
                return false;
            }
        }
        for i in 0..pts.len() {
            let (a, b) = (pts[i], pts[(i + 1) % pts.len()]);
            if a != b {
                edges.push((a, b));
            }
        }
        verts.extend(pts);
    }
    let cross = |a: (i64, i64), b: (i64, i64), c: (i64, i64)| (b.0 - a.0) * (c.1 - a.1) - (b.1 - a.1) * (c.0 - a.0);
    let strictly_between = |a: (i64, i64), b: (i64, i64), p: (i64, i64)| -> bool {
        cross(a, b, p) == 0 && p != a && p != b && (p.0 - a.0) * (p.0 - b.0) <= 0 && (p.1 - a.1) * (p.1 - b.1) <= 0
    };
    for (a, b) in &edges {
        if verts.iter().any(|p| strictly_between(*a, *b, *p)) {
            return true;
        }
    }
    for (i, (a, b)) in edges.iter().enumerate() {
        for (c, d) in edges.iter().skip(i + 1) {
            if cross(*a, *b, *c) == 0 && cross(*a, *b, *d) == 0 {
                // collinear: overlap in more than a point if an endpoint of one is strictly inside the other, or equal edges
                if strictly_between(*a, *b, *c) || strictly_between(*a, *b, *d) || strictly_between(*c, *d, *a) || strictly_between(*c, *d, *b) || (a == c && b == d) || (a == d && b == c) {
                    return true;
                }
            }
        }
    }
    false
}

fn run_poly(cx: &mut Cx, spec: &PathSpec, k: usize, origin: &str, to_coq: bool) {
    use std::io::Write;
    let rule = if k % 2 == 0 { FillRule::EvenOdd } else { FillRule::NonZero };
    let orient = if (k / 2) % 2 == 0 { Orientation::Vertical } else { Orientation::Horizontal };
    let tol = if (k / 4) % 2 == 0 { 0.1 } else { 0.01 };
    let entry = FILL_ENTRIES[(k / 8) % FILL_ENTRIES.len()];
    // the meandering polygons are simple by construction (their two chains never touch): half of them are filled with
    // the no-self-intersection fast path (FillOptions::with_intersections(false)), which must give the same fill
    let fast_path = origin == "meandering_monotone" && (k / 16) % 2 == 0;
    let opts = FillOptions::tolerance(tol).with_fill_rule(rule).with_sweep_orientation(orient).with_intersections(!fast_path);
    let label = format!("{:?} {:?} tol {}{} {:?} {}", rule, orient, tol, if fast_path { " with_intersections(false)" } else { "" }, entry, spec.text());
    cx.st.inc("evaluations");
    cx.st.inc(&format!("origin_{}", origin));
    if fast_path {
        cx.st.inc("fills_assuming_no_intersection");
    }
    cx.st.inc(&format!("entry_{:?}", entry));
    let out = fill(entry, spec, &opts);
    let ok = match out.ok {
        None => {
            cx.st.fail(jobj(&[("what", jstr("fill tessellation panicked")), ("input", jstr(&label))]));
            return;
        }
        Some(ok) => ok,
    };
    cx.st.note_case(&label, !out.tris.is_empty());
    if !ok {
        cx.st.inc("returned_err");
        return;
    }
    cx.st.inc("returned_ok");
    // no triangle references the same vertex twice
    for t in &out.tris {
        if t.0 == t.1 || t.1 == t.2 || t.0 == t.2 {
            cx.st.fail(jobj(&[("what", jstr("triangle references the same vertex twice")), ("input", jstr(&label))]));
            break;
        }
    }
    let edges64 = outline_edges(spec, 0.01);
    let band = tol as f64;
    if let Some(msg) = direct_coverage(&edges64, &out.positions, &out.tris, rule, band + 1e-4, &mut cx.rng, true) {
        let (reused, prefilled) = last_route();
        let mut route = format!(" [route: {} tessellator, {} buffers", if reused { "long-lived" } else { "fresh" }, if prefilled { "pre-filled" } else { "empty" });
        if reused || prefilled {
            let mut probe_rng = Rng::new(0x5eed);
            let mut bad = |o: &FillOut| o.ok != Some(true) || direct_coverage(&edges64, &o.positions, &o.tris, rule, band + 1e-4, &mut probe_rng, true).is_some();
            route.push_str("; ");
            route.push_str(&diagnose_history(entry, spec, &opts, &mut bad));
        }
        route.push(']');
        let label = format!("{}{}", label, route);
        let mut f = vec![("what", jstr(&format!("fill does not cover exactly the fill-rule interior: {}", msg))), ("input", jstr(&label))];
        // known finding K14: many-vertex self-intersecting polygons in degenerate position (a vertex exactly on
        // the interior of another edge, or collinear overlapping edges)
        if origin == "tangle" && degenerate_position(spec) {
            f.push(("class", jstr("K14")));
        }
        // known finding K17 (budgeted): a vertex of one sub-path on an edge of another up to f32 rounding; the pinned
        // sweep fails on about one such input in 10^5
        if origin == "rounded_junction" {
            f.push(("class", jstr("K17")));
        }
        cx.st.fail(jobj(&f));
    }
    // area: sum of triangle areas = area of the filled region (computed from the signed areas is only
    // possible for simple regions; here: triangles do not overlap (checked above) and cover exactly)
    // the overlap run (C02) is costlier per case: a third of the subset
    let small_enough = out.tris.len() <= if cx.overlap { 12 } else { 40 };
    if to_coq && !small_enough {
        cx.st.inc("too_large_for_verified_checker_budget");
    }
    if to_coq && small_enough && !(cx.overlap && k % 3 != 0) {
        cx.st.sample(format!("{} -> {} triangles", label, out.tris.len()));
        writeln!(cx.idx, "{}\t{}", cx.id, label).ok();
        let edges32 = outline_edges_f32(spec, 0.01);
        cx.w.push(case_literal(cx.id, rule, band, &edges32, &out));
        cx.st.inc("cases_for_verified_checker");
        if cx.plane_budget > 0 && out.tris.len() <= 6 && edges32.len() <= 12 {
            cx.plane_budget -= 1;
            cx.wp.push(case_literal(cx.id, rule, band, &edges32, &out));
            cx.st.inc("cases_for_whole_plane_checker");
        }
        cx.id += 1;
    }
}

pub fn main(args: &Args) -> std::io::Result<()> {
    let mut st = Stats::default();
    // `--overlap`: the same cases go to the "covered at most once" check of C02 instead
    let overlap = args.extra.iter().any(|a| a == "--overlap");
    let (prefix, footer) = if overlap { ("c02sys", "overlap_bad_cases") } else { ("c01", "bad_cases") };
    let mut w = ShardWriter::new(&args.out, &format!("{}_cases", prefix), args.shards, HEADER, footer);
    w.disabled = args.direct_only();
    let mut idx = std::fs::File::create(args.out.join(format!("{}_index.txt", prefix)))?;
    let mut wp = ShardWriter::new(&args.out, &format!("{}plane_cases", prefix), args.shards, HEADER_PLANE, if overlap { "plane_overlap_undecided" } else { "plane_undecided" });
    wp.disabled = args.direct_only();
    let plane_budget = if args.thorough() { 480 } else { 96 };
    let mut cx = Cx { w: &mut w, wp: &mut wp, plane_budget, st: &mut st, idx: &mut idx, id: 0, rng: Rng::new(args.seed ^ 0x01), overlap };
    // exhaustive: every closed polygon with 3 or 4 vertices on a g x g lattice (all degeneracies of that size)
    let g: i64 = if args.thorough() { 4 } else { 3 };
    let n = g * g;
    let pt = |k: i64| ((k / g) as f32, (k % g) as f32);
    let mut k = 0usize;
    for a in 0..n {
        for b in 0..n {
            for c in 0..n {
                let spec = PathSpec::from_polylines(&[vec![pt(a), pt(b), pt(c)]], &[true]);
                run_poly(&mut cx, &spec, k, "exhaustive3", k % 7 == 0 || args.thorough());
                k += 1;
                for d in 0..n {
                    let spec = PathSpec::from_polylines(&[vec![pt(a), pt(b), pt(c), pt(d)]], &[k % 2 == 0]);
                    // the verified checker sees a rotating subset in the quick tier, everything is checked directly
                    run_poly(&mut cx, &spec, k, "exhaustive4", (k % 60 == 0) || (args.thorough() && k % 4 == 0));
                    k += 1;
                }
            }
        }
    }
    cx.st.add("exhaustive_lattice_side", g as u64);
    // random multi-sub-path lattice paths (open sub-paths, stars, nested, shared edges), non-lattice too
    let n_random = if args.thorough() { 6000 } else { 500 };
    for i in 0..n_random {
        let mut r = Rng::new(cx.rng.next_u64());
        let spec = match i % 5 {
            0 => random_polygonal(&mut r, 3, 7, 6),
            1 => {
                // star
                let m = 5 + r.below(4) as usize;
                let pts: Vec<(f32, f32)> = (0..m).map(|j| {
                    let a = (j * 2 % m) as f32 / m as f32 * std::f32::consts::TAU;
                    ((a.cos() * 5.0).round(), (a.sin() * 5.0).round())
                }).collect();
                PathSpec::from_polylines(&[pts], &[true])
            }
            2 => {
                // nested squares, same or opposite direction, shared edge
                let s = r.range(1, 3) as f32;
                let outer = vec![(0.0, 0.0), (6.0, 0.0), (6.0, 6.0), (0.0, 6.0)];
                let mut inner = vec![(s, s), (6.0 - s * (r.below(2) as f32), s), (6.0 - s * (r.below(2) as f32), 6.0 - s), (s, 6.0 - s)];
                if r.chance(1, 2) {
                    inner.reverse();
                }
                PathSpec::from_polylines(&[outer, inner], &[true, true])
            }
            3 => {
                // non-lattice
                let kk = 3 + r.below(5) as usize;
                let pts: Vec<(f32, f32)> = (0..kk).map(|_| ((r.unit_f64() * 10.0) as f32, (r.unit_f64() * 10.0) as f32)).collect();
                PathSpec::from_polylines(&[pts], &[true])
            }
            _ => random_polygonal(&mut r, 2, 10, 8),
        };
        run_poly(&mut cx, &spec, k, "random", i % 6 == 0 || (args.thorough() && i % 2 == 0));
        k += 1;
    }
    // tangles: one closed polygon with many random lattice vertices (many self-intersections, short active edges
    // between an edge and the edges it crosses further down)
    let n_tangle = if args.thorough() { 100000 } else { 12000 };
    for i in 0..n_tangle {
        let mut r = Rng::new(cx.rng.next_u64());
        let m = 6 + r.below(7) as usize;
        let grid = *r.pick(&[6i64, 10, 14]);
        let pts: Vec<(f32, f32)> = (0..m).map(|_| (r.range(-2, grid) as f32, r.range(-2, grid) as f32)).collect();
        let spec = PathSpec::from_polylines(&[pts], &[true]);
        run_poly(&mut cx, &spec, k, "tangle", i % 400 == 0 || (args.thorough() && i % 200 == 0));
        k += 1;
    }
    // rounded T-junctions: a vertex of one sub-path lies on an edge of another one up to f32 rounding (the point
    // a + t (b - a) computed in f32: a few ulp on either side of the edge), from either side, any direction
    let n_junction = if args.thorough() { 30000 } else { 4000 };
    for i in 0..n_junction {
        let r = &mut cx.rng;
        let g = |r: &mut Rng| point(r.range(-12, 12) as f32, r.range(-12, 12) as f32);
        let (a, b) = (g(r), g(r));
        if (b - a).square_length() < 9.0 {
            continue;
        }
        // the host polygon: a, b and two more lattice points on one side of a->b
        let n = lyon_path::math::vector(-(b - a).y, (b - a).x).normalize();
        let side = if r.chance(1, 2) { 1.0 } else { -1.0 };
        let far = |r: &mut Rng, base: lyon_path::math::Point| {
            let p = base + n * (side * (3.0 + r.below(8) as f32)) + (b - a).normalize() * (r.range(-3, 3) as f32);
            point(p.x.round(), p.y.round())
        };
        let host = vec![a, b, far(r, b), far(r, a)];
        // the guest: one or two vertices on the edge (rounded), the others on the other side
        let t1 = 0.07 + 0.86 * r.unit_f64() as f32;
        let v1 = a + (b - a) * t1;
        let mut guest = vec![v1];
        let away = |r: &mut Rng, base: lyon_path::math::Point| {
            let p = base - n * (side * (2.0 + r.below(9) as f32)) + (b - a).normalize() * (r.range(-4, 4) as f32);
            point(p.x.round() + if r.chance(1, 3) { 0.5 } else { 0.0 }, p.y.round())
        };
        guest.push(away(r, v1));
        if r.chance(1, 2) {
            guest.push(away(r, v1));
        }
        if r.chance(1, 3) {
            let t2 = 0.07 + 0.86 * r.unit_f64() as f32;
            guest.push(a + (b - a) * t2);
        } else {
            guest.push(away(r, v1));
        }
        let to_sub = |pts: &[lyon_path::math::Point], rev: bool| {
            let mut v: Vec<_> = pts.to_vec();
            if rev {
                v.reverse();
            }
            Sub { start: v[0], start_attrs: vec![], segs: v[1..].iter().map(|p| Seg::Line(*p, vec![])).collect(), close: true }
        };
        let (rh, rg, first_guest) = (r.chance(1, 2), r.chance(1, 2), r.chance(1, 2));
        let subs = if first_guest { vec![to_sub(&guest, rg), to_sub(&host, rh)] } else { vec![to_sub(&host, rh), to_sub(&guest, rg)] };
        let spec = PathSpec { n_attr: 0, subs };
        let k = 7000 + i;
        run_poly(&mut cx, &spec, k, "rounded_junction", i % 100 == 0 || (args.thorough() && i % 50 == 0));
    }
    // pending merge vertices: a shape with one to three notches cut in from the top (the tip of each notch is a merge
    // vertex of the sweep: two edges end there with the interior on both sides, and the merge stays unresolved until the
    // sweep reaches a vertex between its two neighbours) while, further down, another sub-path crosses itself or the
    // outline - the active edges are then re-sorted with merge edges among them.  Lattice coordinates, so the check
    // is exact; a transposed copy exercises the horizontal sweep the same way.
    let n_merge = if args.thorough() { 30000 } else { 4000 };
    for i in 0..n_merge {
        let mut r = Rng::new(cx.rng.next_u64());
        let wd = 12 + r.below(8) as i64;
        let ht = 10 + r.below(8) as i64;
        let notches = 1 + r.below(3) as i64;
        let mut outline: Vec<(i64, i64)> = vec![(0, 0)];
        let step = wd / (notches + 1);
        let mut tips = Vec::new();
        for j in 0..notches {
            let cxn = step * (j + 1);
            let half = 1 + r.below(2) as i64;
            let depth = 1 + r.below(4) as i64;
            let tipx = cxn + r.range(-1, 2);
            outline.push((cxn - half, 0));
            outline.push((tipx, depth));
            outline.push((cxn + half, 0));
            tips.push((tipx, depth));
        }
        outline.push((wd, 0));
        outline.push((wd + r.range(-1, 2), ht));
        outline.push((r.range(-1, 2), ht));
        // lower down: bow-ties / crossing quadrilaterals, each somewhere below the deepest notch tip
        let top = tips.iter().map(|t| t.1).max().unwrap() + 1;
        let mut polys: Vec<Vec<(i64, i64)>> = vec![outline];
        for _ in 0..1 + r.below(3) {
            let x0 = r.range(0, wd - 3);
            let y0 = r.range(top, ht - 2);
            let (w2, h2) = (2 + r.below(4) as i64, 1 + r.below((ht - y0).max(2) as u64 - 1) as i64);
            let q = match r.below(3) {
                0 => vec![(x0, y0), (x0 + w2, y0 + h2), (x0 + w2, y0), (x0, y0 + h2)],                 // bow-tie
                1 => vec![(x0, y0), (x0 + w2, y0 + h2), (x0, y0 + h2), (x0 + w2, y0)],                 // the other bow-tie
                _ => vec![(x0 - 2, y0), (x0 + w2 + 2, y0 + h2), (x0 + w2, y0 - 1), (x0 + 1, y0 + h2 + 1)], // may cross the outline
            };
            polys.push(q);
        }
        if r.chance(1, 2) {
            polys.reverse();
        }
        let transposed = r.chance(1, 2);
        let rev = r.chance(1, 2);
        let lines: Vec<Vec<(f32, f32)>> = polys
            .iter()
            .map(|p| {
                let mut v: Vec<(f32, f32)> = p.iter().map(|q| if transposed { (q.1 as f32, q.0 as f32) } else { (q.0 as f32, q.1 as f32) }).collect();
                if rev {
                    v.reverse();
                }
                v
            })
            .collect();
        let closed = vec![true; lines.len()];
        let spec = PathSpec::from_polylines(&lines, &closed);
        let k = 9000 + i;
        run_poly(&mut cx, &spec, k, "pending_merge", i % 100 == 0 || (args.thorough() && i % 60 == 0));
    }
    // simple y-monotone polygons whose two chains meander over the whole width (long pending chains in the
    // monotone tessellator): right chain downwards, then left chain upwards; a transposed copy for the
    // horizontal sweep
    let n_mono = if args.thorough() { 6000 } else { 700 };
    let x_at = |chain: &[(i64, i64)], y: i64| -> Option<(i64, i64)> {
        for wd in chain.windows(2) {
            let (a, b) = (wd[0], wd[1]);
            if a.1 <= y && y <= b.1 && a.1 != b.1 {
                return Some((a.0 * (b.1 - a.1) + (y - a.1) * (b.0 - a.0), b.1 - a.1));
            }
        }
        None
    };
    let mut made = 0;
    for _ in 0..n_mono * 6 {
        let mut r = Rng::new(cx.rng.next_u64());
        let kk = 3 + r.below(8) as usize;
        let verts: Vec<(i64, i64, bool)> = (0..kk).map(|i| (r.range(-6, 12), (i as i64 + 1) * 2, r.chance(1, 2))).collect();
        let (first, last) = ((0i64, 0i64), (r.range(-2, 4), (kk as i64 + 1) * 2));
        let mut left = vec![first];
        left.extend(verts.iter().filter(|v| v.2).map(|v| (v.0, v.1)));
        left.push(last);
        let mut right = vec![first];
        right.extend(verts.iter().filter(|v| !v.2).map(|v| (v.0, v.1)));
        right.push(last);
        let simple = (1..=kk as i64).all(|j| match (x_at(&left, j * 2), x_at(&right, j * 2)) {
            (Some((ln, ld)), Some((rn, rd))) => ln * rd < rn * ld,
            _ => false,
        });
        if !simple {
            continue;
        }
        let mut pts: Vec<(f32, f32)> = right.iter().map(|p| (p.0 as f32, p.1 as f32)).collect();
        pts.extend(left.iter().rev().skip(1).take(left.len().saturating_sub(2)).map(|p| (p.0 as f32, p.1 as f32)));
        if made % 2 == 1 {
            for p in pts.iter_mut() {
                *p = (p.1, p.0);
            }
        }
        let spec = PathSpec::from_polylines(&[pts], &[true]);
        run_poly(&mut cx, &spec, k, "meandering_monotone", made % 12 == 0 || (args.thorough() && made % 3 == 0));
        k += 1;
        made += 1;
        if made >= n_mono {
            break;
        }
    }
    drop(cx);
    w.finish()?;
    wp.finish()?;
    st.write(&args.out.join(format!("{}_stats.json", prefix)))
}

// ===================================================================== C03: curves and shapes

/// reference outline of a curved path: every curve sampled uniformly with `n` points (not lyon's
/// flattening), returned as f32 edges together with the largest chord deviation of the sampling
pub fn reference_outline(spec: &PathSpec, n: usize) -> (Vec<(Point, Point)>, f64) {
    use lyon_path::geom::{CubicBezierSegment, QuadraticBezierSegment};
    let mut edges = Vec::new();
    let mut dev = 0.0f64;
    for s in &spec.subs {
        let mut cur = s.start;
        let mut pts = vec![cur];
        for g in &s.segs {
            match g {
                Seg::Line(p, _) => {
                    pts.push(*p);
                    cur = *p;
                }
                Seg::Quad(c, p, _) => {
                    let q = QuadraticBezierSegment { from: cur, ctrl: *c, to: *p };
                    // chord deviation of a quadratic piece of parameter width h is |from - 2 ctrl + to| h^2 / 4
                    let dd = (cur.to_vector() - c.to_vector() * 2.0 + p.to_vector()).length() as f64;
                    dev = dev.max(dd / (4.0 * (n * n) as f64));
                    for i in 1..=n {
                        pts.push(if i == n { *p } else { q.sample(i as f32 / n as f32) });
                    }
                    cur = *p;
                }
                Seg::Cubic(c1, c2, p, _) => {
                    let q = CubicBezierSegment { from: cur, ctrl1: *c1, ctrl2: *c2, to: *p };
                    // |B''| <= 6 max(|P0 - 2P1 + P2|, |P1 - 2P2 + P3|); chord deviation <= |B''| h^2 / 8
                    let a = (cur.to_vector() - c1.to_vector() * 2.0 + c2.to_vector()).length() as f64;
                    let b = (c1.to_vector() - c2.to_vector() * 2.0 + p.to_vector()).length() as f64;
                    dev = dev.max(6.0 * a.max(b) / (8.0 * (n * n) as f64));
                    for i in 1..=n {
                        pts.push(if i == n { *p } else { q.sample(i as f32 / n as f32) });
                    }
                    cur = *p;
                }
            }
        }
        for w in pts.windows(2) {
            edges.push((w[0], w[1]));
        }
        edges.push((*pts.last().unwrap(), s.start));
    }
    (edges, dev)
}

pub const HEADER_PLANE: &str =
    "From Coq Require Import QArith.\nFrom LV Require Import Base.Prelude Model.Bezier Model.Winding Checker.Region Checker.Slab Run.C01.\nOpen Scope Q_scope.";
pub const HEADER_DEV: &str =
    "From Coq Require Import QArith.\nFrom LV Require Import Base.Prelude Model.Bezier Checker.Region Checker.CurveDev Run.C09.\nOpen Scope Q_scope.";

/// the curves of a path with the uniform samples `reference_outline` takes of them, as cases for the
/// verified curve-deviation checker: EVERY point of each curve must be within the claimed chord
/// deviation of the sampled polyline (this checks lyon's `sample` against the rational model and the
/// deviation bound used for the band, independently of lyon)
pub fn reference_curve_cases(spec: &PathSpec, n: usize, dev: f64, id0: usize) -> Vec<String> {
    use lyon_path::geom::{CubicBezierSegment, QuadraticBezierSegment};
    let tol = dev * 1.001 + 1e-5;
    let tol2 = gq64(tol * tol);
    let ts = glist((1..=n).map(|i| if i == n { "1".to_string() } else { gq32(i as f32 / n as f32) }));
    let mut out = Vec::new();
    for s in &spec.subs {
        let mut cur = s.start;
        for g in &s.segs {
            match g {
                Seg::Line(p, _) => cur = *p,
                Seg::Quad(c, p, _) => {
                    let q = QuadraticBezierSegment { from: cur, ctrl: *c, to: *p };
                    let pts = glist(std::iter::once(gp(cur)).chain((1..=n).map(|i| gp(if i == n { *p } else { q.sample(i as f32 / n as f32) }))));
                    out.push(format!("(QD {} {} {} {} (mkQuad {} {} {}) {} {})", id0, tol2, tol2, tol2, gp(cur), gp(*c), gp(*p), ts, pts));
                    cur = *p;
                }
                Seg::Cubic(c1, c2, p, _) => {
                    let q = CubicBezierSegment { from: cur, ctrl1: *c1, ctrl2: *c2, to: *p };
                    let pts = glist(std::iter::once(gp(cur)).chain((1..=n).map(|i| gp(if i == n { *p } else { q.sample(i as f32 / n as f32) }))));
                    out.push(format!("(CD {} {} {} {} (mkCubic {} {} {} {}) {} {})", id0, tol2, tol2, tol2, gp(cur), gp(*c1), gp(*c2), gp(*p), ts, pts));
                    cur = *p;
                }
            }
        }
    }
    out
}

/// points of the elliptic arc selected by an SVG endpoint-form arc (implementation notes F.6.5 / F.6.6), computed
/// here in f64 without lyon: m + 1 points from `from` to `to`; also returns the larger (possibly scaled) radius
pub fn svg_arc_reference(from: (f64, f64), to: (f64, f64), rx: f64, ry: f64, phi: f64, large: bool, sweep: bool, m: usize) -> (Vec<(f64, f64)>, f64) {
    let (mut rx, mut ry) = (rx.abs(), ry.abs());
    let (cp, sp) = (phi.cos(), phi.sin());
    let (dx, dy) = ((from.0 - to.0) / 2.0, (from.1 - to.1) / 2.0);
    let (x1, y1) = (cp * dx + sp * dy, -sp * dx + cp * dy);
    let lam = x1 * x1 / (rx * rx) + y1 * y1 / (ry * ry);
    if lam > 1.0 {
        rx *= lam.sqrt();
        ry *= lam.sqrt();
    }
    let num = rx * rx * ry * ry - rx * rx * y1 * y1 - ry * ry * x1 * x1;
    let den = rx * rx * y1 * y1 + ry * ry * x1 * x1;
    let mut coef = (num / den).max(0.0).sqrt();
    if large == sweep {
        coef = -coef;
    }
    let (cxp, cyp) = (coef * rx * y1 / ry, -coef * ry * x1 / rx);
    let (cx, cy) = (cp * cxp - sp * cyp + (from.0 + to.0) / 2.0, sp * cxp + cp * cyp + (from.1 + to.1) / 2.0);
    let ang = |ux: f64, uy: f64, vx: f64, vy: f64| -> f64 { (ux * vy - uy * vx).atan2(ux * vx + uy * vy) };
    let (ux, uy) = ((x1 - cxp) / rx, (y1 - cyp) / ry);
    let (vx, vy) = ((-x1 - cxp) / rx, (-y1 - cyp) / ry);
    let th1 = ang(1.0, 0.0, ux, uy);
    let mut dth = ang(ux, uy, vx, vy);
    if !sweep && dth > 0.0 {
        dth -= std::f64::consts::TAU;
    }
    if sweep && dth < 0.0 {
        dth += std::f64::consts::TAU;
    }
    let pts = (0..=m)
        .map(|i| {
            let th = th1 + dth * i as f64 / m as f64;
            (cx + rx * th.cos() * cp - ry * th.sin() * sp, cy + rx * th.cos() * sp + ry * th.sin() * cp)
        })
        .collect();
    (pts, rx.max(ry))
}

fn to64(e: &[(Point, Point)]) -> Vec<((f64, f64), (f64, f64))> {
    e.iter().map(|(a, b)| ((a.x as f64, a.y as f64), (b.x as f64, b.y as f64))).collect()
}

/// K2-prone curve in the path (see known_findings: flattening uses too few segments)
fn has_degenerate_curve(spec: &PathSpec) -> bool {
    let near = |a: Point, b: Point, c: Point| -> bool {
        // control point b seen from a..c: hairpin or overshoot
        let (u, v) = (b - a, c - a);
        let l2 = v.square_length();
        if l2 == 0.0 {
            return b != a;
        }
        let t = u.dot(v) / l2;
        if t < 0.0 || t > 1.0 {
            return true;
        }
        let (p, q) = (a - b, c - b);
        let (lp, lq) = (p.length(), q.length());
        lp > 0.0 && lq > 0.0 && p.dot(q) / (lp * lq) > 0.906
    };
    for s in &spec.subs {
        let mut cur = s.start;
        for g in &s.segs {
            match g {
                Seg::Line(p, _) => cur = *p,
                Seg::Quad(c, p, _) => {
                    if near(cur, *c, *p) {
                        return true;
                    }
                    cur = *p;
                }
                Seg::Cubic(c1, c2, p, _) => {
                    // cubics: cusps / loops / hairpins produce degenerate sub-quadratics; be generous
                    let d1 = *c1 - cur;
                    let d2 = *p - *c2;
                    let chord = *p - cur;
                    if near(cur, *c1, *p) || near(cur, *c2, *p) || d1.dot(d2) < 0.0 || d1.dot(chord) < 0.0 || d2.dot(chord) < 0.0 {
                        return true;
                    }
                    cur = *p;
                }
            }
        }
    }
    false
}

pub fn main_c03(args: &Args) -> std::io::Result<()> {
    use lyon_path::geom::euclid::default::Box2D;
    use lyon_path::math::{vector, Angle};
    use lyon_path::traits::PathBuilder;
    use lyon_path::Winding;
    use std::io::Write;
    let mut st = Stats::default();
    let mut w = ShardWriter::new(&args.out, "c03_cases", args.shards, HEADER, "bad_cases");
    w.disabled = args.direct_only();
    let mut wd = ShardWriter::new(&args.out, "c03dev_cases", args.shards, HEADER_DEV, "dev_bad_cases");
    wd.disabled = args.direct_only();
    let mut idx = std::fs::File::create(args.out.join("c03_index.txt"))?;
    let mut rng = Rng::new(args.seed ^ 0x03);
    let n = if args.thorough() { 5000 } else { 600 };
    let mut id = 0usize;
    for it in 0..n {
        let rule = if it % 2 == 0 { FillRule::EvenOdd } else { FillRule::NonZero };
        let tol = *rng.pick(&[1.0f32, 0.25, 0.1, 0.02]);
        let opts = FillOptions::tolerance(tol).with_fill_rule(rule);
        let entry = FILL_ENTRIES[(it / 2) % FILL_ENTRIES.len()];
        // ---- curved paths
        let mut spec = match it % 4 {
            3 => {
                // two sub-paths sharing a curved edge in opposite directions (crack / overlap detector)
                let a = point(rng.range(0, 4) as f32, rng.range(0, 4) as f32);
                let b = point(rng.range(8, 12) as f32, rng.range(6, 12) as f32);
                let c1 = point(rng.range(2, 10) as f32, rng.range(-6, 2) as f32);
                let c2 = point(rng.range(6, 14) as f32, rng.range(0, 6) as f32);
                let far1 = point(a.x - 3.0, b.y + 5.0);
                let far2 = point(b.x + 4.0, a.y - 6.0);
                PathSpec {
                    n_attr: 0,
                    subs: vec![
                        Sub { start: a, start_attrs: vec![], segs: vec![Seg::Cubic(c1, c2, b, vec![]), Seg::Line(far1, vec![])], close: true },
                        Sub { start: b, start_attrs: vec![], segs: vec![Seg::Cubic(c2, c1, a, vec![]), Seg::Line(far2, vec![])], close: true },
                    ],
                }
            }
            _ => random_curved(&mut rng, 0, 2, 4, 14),
        };
        for s in spec.subs.iter_mut() {
            s.close = true;
        }
        let label = format!("{:?} tol {} {:?} {}", rule, tol, entry, spec.text());
        st.inc("evaluations");
        st.inc("curved_paths");
        let out = fill(entry, &spec, &opts);
        match out.ok {
            None => st.fail(jobj(&[("what", jstr("fill tessellation panicked")), ("input", jstr(&label))])),
            Some(false) => st.inc("returned_err"),
            Some(true) => {
                st.note_case(&label, !out.tris.is_empty());
                let (fine, dev_fine) = reference_outline(&spec, 200);
                let band = tol as f64 * (1.0 + 1.0 / 64.0) + dev_fine + 1e-4;
                if let Some(msg) = direct_coverage(&to64(&fine), &out.positions, &out.tris, rule, band, &mut rng, true) {
                    let mut fields = vec![("what", jstr(&format!("curved fill is off by more than the tolerance: {}", msg))), ("input", jstr(&label))];
                    if has_degenerate_curve(&spec) {
                        fields.push(("class", jstr("K2")));
                    } else {
                        // within the 1.5 e flattening budget (K6)?
                        let band6 = tol as f64 * 1.5 + dev_fine + 1e-4;
                        let mut r2 = Rng::new(7);
                        if direct_coverage(&to64(&fine), &out.positions, &out.tris, rule, band6, &mut r2, true).is_none() {
                            fields.push(("class", jstr("K6")));
                        }
                    }
                    st.fail(jobj(&fields));
                } else if it % 6 == 0 && out.tris.len() <= 40 && !has_degenerate_curve(&spec) {
                    // verified checker on a coarser reference (band widened by its own deviation and by the
                    // flattening budget 1.5 e so that K6 does not produce witnesses)
                    let (coarse, dev) = reference_outline(&spec, 12);
                    let band_c = tol as f64 * 1.5 + dev + 1e-3;
                    st.sample(format!("{} -> {} triangles", label, out.tris.len()));
                    writeln!(idx, "{}\t{}", id, label).ok();
                    w.push(case_literal(id, rule, band_c, &coarse, &out));
                    st.inc("cases_for_verified_checker");
                    for c in reference_curve_cases(&spec, 12, dev, id) {
                        wd.push(c);
                        st.inc("reference_curves_for_verified_deviation_checker");
                    }
                    id += 1;
                }
            }
        }
        // ---- built-in shapes against the exact shape (fine polygon of the true circle / ellipse)
        let shape = match it % 5 {
            0 => Shape::Circle(rng.range(-5, 5) as f32, rng.range(-5, 5) as f32, 0.5 + rng.below(400) as f32 * 0.25),
            1 => Shape::Ellipse(rng.range(-5, 5) as f32, rng.range(-5, 5) as f32, 1.0 + rng.below(40) as f32, 1.0 + rng.below(40) as f32, rng.range(0, 6) as f32 * 0.5),
            2 => Shape::Rect(rng.range(-5, 5) as f32, rng.range(-5, 5) as f32, 1.0 + rng.below(20) as f32, 1.0 + rng.below(20) as f32),
            3 => Shape::Circle(0.0, 0.0, 425.0),
            _ => Shape::Circle(1.0, 2.0, 1.0 + rng.below(50) as f32),
        };
        let stol = *rng.pick(&[1.0f32, 0.139, 0.1, 0.02]);
        let sopts = FillOptions::tolerance(stol).with_fill_rule(rule);
        let slabel = format!("{:?} tol {} {:?}", shape, stol, rule);
        st.inc("evaluations");
        st.inc("shapes");
        let mut buffers: VertexBuffers<Point, u32> = VertexBuffers::new();
        let (ok, calls, positions) = {
            let mut rec = Recorder::new(&mut buffers, None);
            let ok = catch(AssertUnwindSafe(|| run_fill_shape(&mut FillTessellator::new(), &shape, &sopts, &mut rec))).map(|r| r.is_ok());
            (ok, rec.calls.clone(), rec.positions.clone())
        };
        if ok != Some(true) {
            st.fail(jobj(&[("what", jstr("shape tessellation failed or panicked")), ("input", jstr(&slabel))]));
            continue;
        }
        let mut pos = vec![point(f32::NAN, f32::NAN); positions.iter().map(|p| p.0 as usize + 1).max().unwrap_or(0)];
        for (i, p) in positions {
            pos[i as usize] = p;
        }
        let tris: Vec<(u32, u32, u32)> = calls.iter().filter_map(|c| if let GCall::Tri(a, b, c) = c { Some((*a, *b, *c)) } else { None }).collect();
        // exact outline
        let m = 2880;
        let exact: Vec<((f64, f64), (f64, f64))> = match &shape {
            Shape::Circle(x, y, r) => (0..m).map(|i| {
                let a0 = i as f64 / m as f64 * std::f64::consts::TAU;
                let a1 = (i + 1) as f64 / m as f64 * std::f64::consts::TAU;
                ((*x as f64 + *r as f64 * a0.cos(), *y as f64 + *r as f64 * a0.sin()), (*x as f64 + *r as f64 * a1.cos(), *y as f64 + *r as f64 * a1.sin()))
            }).collect(),
            Shape::Ellipse(x, y, rx, ry, rot) => {
                let (c, s) = ((*rot as f64).cos(), (*rot as f64).sin());
                let f = |a: f64| {
                    let (ex, ey) = (*rx as f64 * a.cos(), *ry as f64 * a.sin());
                    (*x as f64 + c * ex - s * ey, *y as f64 + s * ex + c * ey)
                };
                (0..m).map(|i| (f(i as f64 / m as f64 * std::f64::consts::TAU), f((i + 1) as f64 / m as f64 * std::f64::consts::TAU))).collect()
            }
            Shape::Rect(x, y, w, h) => {
                let p = [(*x as f64, *y as f64), ((*x + *w) as f64, *y as f64), ((*x + *w) as f64, (*y + *h) as f64), (*x as f64, (*y + *h) as f64)];
                (0..4).map(|i| (p[i], p[(i + 1) % 4])).collect()
            }
        };
        let rmax = match &shape { Shape::Circle(_, _, r) => *r as f64, Shape::Ellipse(_, _, a, b, _) => a.max(*b) as f64, _ => 0.0 };
        let poly_err = rmax * (1.0 - (std::f64::consts::PI / m as f64).cos());
        st.note_case(&slabel, !tris.is_empty());
        if let Some(msg) = direct_coverage(&exact, &pos, &tris, rule, stol as f64 * (1.0 + 1.0 / 64.0) + poly_err + 1e-4, &mut rng, true) {
            let mut fields = vec![("what", jstr(&format!("shape fill is off by more than the tolerance: {}", msg))), ("input", jstr(&slabel))];
            // K3: fill_circle rounds the recursion depth down (num_segments.log2() as u32)
            if matches!(shape, Shape::Circle(..)) {
                let mut r2 = Rng::new(9);
                if direct_coverage(&exact, &pos, &tris, rule, stol as f64 * 4.0 + poly_err + 1e-4, &mut r2, true).is_none() {
                    fields.push(("class", jstr("K3")));
                }
            } else if matches!(shape, Shape::Ellipse(..)) {
                // ellipses go through arc flattening (K10: locally-constant-radius step)
                let mut r2 = Rng::new(9);
                if direct_coverage(&exact, &pos, &tris, rule, stol as f64 * 4.0 + poly_err + 1e-4, &mut r2, true).is_none() {
                    fields.push(("class", jstr("K10")));
                } else {
                    // K15: arcs become quadratic Beziers spanning an eighth of a turn, whatever the tolerance: 0.0031 r off
                    let mut r3 = Rng::new(9);
                    if direct_coverage(&exact, &pos, &tris, rule, stol as f64 * 1.5 + 0.0035 * rmax + poly_err + 1e-4, &mut r3, true).is_none() {
                        fields.push(("class", jstr("K15")));
                    }
                }
            }
            st.fail(jobj(&fields));
        }
        // ---- an SVG arc and its chord as a closed sub-path (Path::svg_builder().arc_to), against the arc computed
        // independently of lyon from the SVG implementation notes (F.6.5 / F.6.6), in f64
        {
            use lyon_path::traits::SvgPathBuilder;
            let a = point(rng.range(-10, 10) as f32, rng.range(-10, 10) as f32);
            let mut c = point(rng.range(-10, 10) as f32, rng.range(-10, 10) as f32);
            if (c - a).length() < 2.0 {
                c.x += 5.0;
            }
            let chord = (c - a).length();
            let (rx, ry) = match it % 4 {
                0 => (chord * (0.6 + rng.unit_f64() as f32), chord * (0.6 + rng.unit_f64() as f32)),
                1 => (chord * 0.3, chord * 0.2), // too small: scaled up
                2 => (chord * 0.75, chord * 0.75),
                _ => (2.0 + rng.below(20) as f32, 2.0 + rng.below(20) as f32),
            };
            let rot = if it % 3 == 0 { 0.0 } else { rng.range(-6, 6) as f32 * 0.25 };
            let (large, sweep) = ((it / 4) % 2 == 0, (it / 8) % 2 == 0);
            let atol = *rng.pick(&[0.5f32, 0.1, 0.02]);
            let aopts = FillOptions::tolerance(atol).with_fill_rule(rule);
            let alabel = format!("M {:?} A {} {} {} {} {} {:?} Z tol {} {:?}", a, rx, ry, rot, large as u8, sweep as u8, c, atol, rule);
            st.inc("evaluations");
            st.inc("svg_arc_segments");
            let r = catch(AssertUnwindSafe(|| {
                let mut b = lyon_path::Path::svg_builder();
                b.move_to(a);
                b.arc_to(vector(rx, ry), Angle::radians(rot), lyon_path::ArcFlags { large_arc: large, sweep }, c);
                b.close();
                let path = b.build();
                let mut buffers: VertexBuffers<Point, u32> = VertexBuffers::new();
                let ok = FillTessellator::new()
                    .tessellate_path(&path, &aopts, &mut lyon_tessellation::geometry_builder::BuffersBuilder::new(&mut buffers, lyon_tessellation::geometry_builder::Positions))
                    .is_ok();
                (ok, buffers)
            }));
            match r {
                None | Some((false, _)) => st.fail(jobj(&[("what", jstr("filling an SVG arc segment failed or panicked")), ("input", jstr(&alabel))])),
                Some((true, buffers)) => {
                    let tris: Vec<(u32, u32, u32)> = buffers.indices.chunks(3).map(|t| (t[0], t[1], t[2])).collect();
                    st.note_case(&alabel, !tris.is_empty());
                    let m = 1440;
                    let (pts, rmax) = svg_arc_reference((a.x as f64, a.y as f64), (c.x as f64, c.y as f64), rx as f64, ry as f64, rot as f64, large, sweep, m);
                    let mut exact: Vec<((f64, f64), (f64, f64))> = pts.windows(2).map(|w| (w[0], w[1])).collect();
                    exact.push((*pts.last().unwrap(), pts[0]));
                    let poly_err = rmax * (1.0 - (std::f64::consts::PI / m as f64).cos()) + 1e-4 * (1.0 + rmax);
                    if let Some(msg) = direct_coverage(&exact, &buffers.vertices, &tris, rule, atol as f64 * (1.0 + 1.0 / 64.0) + poly_err + 1e-4, &mut rng, true) {
                        let mut fields = vec![("what", jstr(&format!("the fill of an SVG arc segment is off by more than the tolerance: {}", msg))), ("input", jstr(&alabel))];
                        let mut r3 = Rng::new(9);
                        if direct_coverage(&exact, &buffers.vertices, &tris, rule, atol as f64 * 1.5 + 0.0035 * rmax + poly_err + 1e-4, &mut r3, true).is_none() {
                            fields.push(("class", jstr("K15")));
                        }
                        st.fail(jobj(&fields));
                    }
                }
            }
        }
        // path-level helpers: add_circle / add_ellipse / add_rounded_rectangle / add_rectangle through the fill builder
        if it % 3 == 0 {
            let r = catch(AssertUnwindSafe(|| {
                let mut buffers: VertexBuffers<Point, u32> = VertexBuffers::new();
                let mut tess = FillTessellator::new();
                let mut rec = Recorder::new(&mut buffers, None);
                let mut b = tess.builder(&sopts, &mut rec);
                match it % 4 {
                    0 => b.add_circle(point(0.0, 0.0), 10.0, Winding::Positive),
                    1 => b.add_ellipse(point(1.0, 1.0), vector(12.0, 5.0), Angle::radians(0.4), Winding::Negative),
                    2 => b.add_rounded_rectangle(&Box2D { min: point(0.0, 0.0), max: point(20.0, 10.0) }, &lyon_path::builder::BorderRadii::new(3.0), Winding::Positive),
                    _ => b.add_rectangle(&Box2D { min: point(0.0, 0.0), max: point(20.0, 10.0) }, Winding::Positive),
                }
                let ok = lyon_path::traits::Build::build(b).is_ok();
                (ok, rec.calls.len())
            }));
            st.inc("evaluations");
            st.inc("path_level_shape_helpers");
            if !matches!(r, Some((true, n)) if n > 3) {
                st.fail(jobj(&[("what", jstr("path-level shape helper through the fill builder failed")), ("input", jstr(&format!("helper {} {:?}", it % 4, r)))]));
            }
        }
    }
    // rounded rectangles: per-corner radii (some zero), both windings, through the fill builder and through a Path;
    // the offset of a rounded rectangle by m is the rounded rectangle with box and radii grown / shrunk by m
    {
        use lyon_path::builder::BorderRadii;
        let n_rr = if args.thorough() { 1500 } else { 200 };
        for it in 0..n_rr {
            let (x0, y0) = (rng.range(-10, 10) as f32, rng.range(-10, 10) as f32);
            let (wd, ht) = (4.0 + rng.below(36) as f32, 4.0 + rng.below(36) as f32);
            let half = wd.min(ht) * 0.5;
            let mut rad = |r: &mut Rng| -> f32 { if r.chance(1, 3) { 0.0 } else { (1 + r.below(8)) as f32 / 8.0 * half } };
            let mut radii = BorderRadii { top_left: rad(&mut rng), top_right: rad(&mut rng), bottom_left: rad(&mut rng), bottom_right: rad(&mut rng) };
            // the shape expected: the radii as given - or, one case in four, one radius for all corners that does not fit
            // (half the smaller side up to far beyond it, either sign): the corners then take half the smaller side and
            // the shape is a stadium (a circle for a square)
            let mut expected = radii;
            if it % 4 == 3 {
                let r = half * *rng.pick(&[1.0f32, 1.25, 1.5, 2.0, 3.0, 50.0]) * if rng.chance(1, 3) { -1.0 } else { 1.0 };
                radii = BorderRadii::new(r);
                expected = BorderRadii::new(half);
                st.inc("rounded_rectangles_with_radii_that_do_not_fit");
            }
            let winding = if rng.chance(1, 2) { Winding::Positive } else { Winding::Negative };
            let tol = *rng.pick(&[0.02f32, 0.1]);
            let rule = if rng.chance(1, 2) { FillRule::EvenOdd } else { FillRule::NonZero };
            let opts = FillOptions::tolerance(tol).with_fill_rule(rule);
            let rect = Box2D { min: point(x0, y0), max: point(x0 + wd, y0 + ht) };
            let via_path = rng.chance(1, 2);
            let label = format!("add_rounded_rectangle {:?} {:?} {:?} tol {} {:?} via {}", rect, radii, winding, tol, rule, if via_path { "Path" } else { "FillBuilder" });
            st.inc("evaluations");
            st.inc("rounded_rectangles");
            st.note_case(&label, true);
            let r = catch(AssertUnwindSafe(|| {
                let mut buffers: VertexBuffers<Point, u32> = VertexBuffers::new();
                let mut tess = FillTessellator::new();
                let ok = if via_path {
                    let mut pb = lyon_path::Path::builder();
                    pb.add_rounded_rectangle(&rect, &radii, winding);
                    let p = pb.build();
                    tess.tessellate_path(&p, &opts, &mut lyon_tessellation::geometry_builder::BuffersBuilder::new(&mut buffers, lyon_tessellation::geometry_builder::Positions)).is_ok()
                } else {
                    let mut sb = lyon_tessellation::geometry_builder::BuffersBuilder::new(&mut buffers, lyon_tessellation::geometry_builder::Positions);
                    let mut b = tess.builder(&opts, &mut sb);
                    b.add_rounded_rectangle(&rect, &radii, winding);
                    lyon_path::traits::Build::build(b).is_ok()
                };
                (ok, buffers)
            }));
            let (ok, buffers) = match r {
                Some(x) => x,
                None => {
                    st.fail(jobj(&[("what", jstr("filling a rounded rectangle panicked")), ("input", jstr(&label))]));
                    continue;
                }
            };
            if !ok {
                st.fail(jobj(&[("what", jstr("filling a rounded rectangle failed")), ("input", jstr(&label))]));
                continue;
            }
            // inside test for the rounded rectangle offset by m (m < 0 shrinks)
            let inside = |q: (f64, f64), m: f64| -> bool {
                let (lx, ly, hx, hy) = (x0 as f64 - m, y0 as f64 - m, (x0 + wd) as f64 + m, (y0 + ht) as f64 + m);
                if q.0 <= lx || q.0 >= hx || q.1 <= ly || q.1 >= hy {
                    return false;
                }
                // (corner position, radius, direction into the rectangle); y grows downwards: "top" is min y
                let corners = [
                    ((lx, ly), expected.top_left as f64, (1.0, 1.0)),
                    ((hx, ly), expected.top_right as f64, (-1.0, 1.0)),
                    ((lx, hy), expected.bottom_left as f64, (1.0, -1.0)),
                    ((hx, hy), expected.bottom_right as f64, (-1.0, -1.0)),
                ];
                for (c, r0, d) in corners {
                    let r = (r0 + m).max(0.0);
                    let centre = (c.0 + d.0 * r, c.1 + d.1 * r);
                    let (dx, dy) = ((q.0 - centre.0) * d.0, (q.1 - centre.1) * d.1);
                    if dx < 0.0 && dy < 0.0 && dx * dx + dy * dy >= r * r {
                        return false;
                    }
                }
                true
            };
            let tris: Vec<(u32, u32, u32)> = buffers.indices.chunks(3).map(|t| (t[0], t[1], t[2])).collect();
            let m = tol as f64 + 1e-3;
            let g = 40;
            let mut reported = false;
            for gy in 0..=g {
                for gx in 0..=g {
                    let q = (x0 as f64 - 2.0 + (wd as f64 + 4.0) * (gx as f64 + 0.31) / g as f64, y0 as f64 - 2.0 + (ht as f64 + 4.0) * (gy as f64 + 0.47) / g as f64);
                    let (closed, _) = cover_f64(q, &buffers.vertices, &tris);
                    let bad = if inside(q, -m) && closed == 0 {
                        Some("a point of the rounded rectangle farther than the tolerance from its boundary is not covered")
                    } else if !inside(q, m) && closed > 0 {
                        Some("a point outside the rounded rectangle, farther than the tolerance from its boundary, is covered")
                    } else {
                        None
                    };
                    if let (Some(b), false) = (bad, reported) {
                        st.fail(jobj(&[("what", jstr(b)), ("input", jstr(&format!("point {:?} :: {}", q, label)))]));
                        reported = true;
                    }
                }
            }
            let _ = it;
        }
    }
    // add_circle / add_ellipse / add_rectangle with both windings, through the fill builder and through a Path
    {
        let n_sh = if args.thorough() { 2000 } else { 300 };
        for it in 0..n_sh {
            let ctr = point(rng.range(-10, 10) as f32, rng.range(-10, 10) as f32);
            let winding = if rng.chance(1, 2) { Winding::Positive } else { Winding::Negative };
            let tol = *rng.pick(&[0.02f32, 0.1]);
            let rule = if rng.chance(1, 2) { FillRule::EvenOdd } else { FillRule::NonZero };
            let orient = if rng.chance(1, 2) { Orientation::Vertical } else { Orientation::Horizontal };
            let opts = FillOptions::tolerance(tol).with_fill_rule(rule).with_sweep_orientation(orient);
            let via_path = rng.chance(1, 2);
            let kind = it % 3;
            let (r1, r2) = (2.0 + rng.below(60) as f32 * 0.5, 2.0 + rng.below(60) as f32 * 0.5);
            // ellipses: moderate eccentricity (K10 is about eccentric ones) 
            let (rx, ry) = if kind == 1 { (r1, r1 * (0.6 + 0.8 * rng.unit_f64() as f32)) } else { (r1, r2) };
            let rot = rng.range(0, 6) as f32 * 0.5;
            let label = format!("{} centre {:?} r ({}, {}) rot {} {:?} tol {} {:?} {:?} via {}", ["add_circle", "add_ellipse", "add_rectangle"][kind], ctr, rx, ry, rot, winding, tol, rule, orient, if via_path { "Path" } else { "FillBuilder" });
            st.inc("evaluations");
            st.inc("path_level_shapes");
            st.note_case(&label, true);
            let rect = Box2D { min: ctr, max: point(ctr.x + rx, ctr.y + ry) };
            let r = catch(AssertUnwindSafe(|| {
                let mut buffers: VertexBuffers<Point, u32> = VertexBuffers::new();
                let mut tess = FillTessellator::new();
                let ok = if via_path {
                    let mut pb = lyon_path::Path::builder();
                    match kind {
                        0 => pb.add_circle(ctr, rx, winding),
                        1 => pb.add_ellipse(ctr, vector(rx, ry), Angle::radians(rot), winding),
                        _ => pb.add_rectangle(&rect, winding),
                    }
                    let p = pb.build();
                    tess.tessellate_path(&p, &opts, &mut lyon_tessellation::geometry_builder::BuffersBuilder::new(&mut buffers, lyon_tessellation::geometry_builder::Positions)).is_ok()
                } else {
                    let mut sb = lyon_tessellation::geometry_builder::BuffersBuilder::new(&mut buffers, lyon_tessellation::geometry_builder::Positions);
                    let mut b = tess.builder(&opts, &mut sb);
                    match kind {
                        0 => b.add_circle(ctr, rx, winding),
                        1 => b.add_ellipse(ctr, vector(rx, ry), Angle::radians(rot), winding),
                        _ => b.add_rectangle(&rect, winding),
                    }
                    lyon_path::traits::Build::build(b).is_ok()
                };
                (ok, buffers)
            }));
            let (ok, buffers) = match r {
                Some(x) => x,
                None => {
                    st.fail(jobj(&[("what", jstr("filling a path-level shape panicked")), ("input", jstr(&label))]));
                    continue;
                }
            };
            if !ok {
                st.fail(jobj(&[("what", jstr("filling a path-level shape failed")), ("input", jstr(&label))]));
                continue;
            }
            // inside the shape shrunk (m < 0) / grown (m > 0) by |m|
            let inside = |q: (f64, f64), m: f64| -> bool {
                match kind {
                    0 => (q.0 - ctr.x as f64).hypot(q.1 - ctr.y as f64) < rx as f64 + m,
                    1 => {
                        let (c0, s0) = ((rot as f64).cos(), (rot as f64).sin());
                        let (dx, dy) = (q.0 - ctr.x as f64, q.1 - ctr.y as f64);
                        let (u, v) = (c0 * dx + s0 * dy, -s0 * dx + c0 * dy);
                        let (a, b) = (rx as f64 + m, ry as f64 + m);
                        a > 0.0 && b > 0.0 && (u / a).powi(2) + (v / b).powi(2) < 1.0
                    }
                    _ => q.0 > rect.min.x as f64 - m && q.0 < rect.max.x as f64 + m && q.1 > rect.min.y as f64 - m && q.1 < rect.max.y as f64 + m,
                }
            };
            let tris: Vec<(u32, u32, u32)> = buffers.indices.chunks(3).map(|t| (t[0], t[1], t[2])).collect();
            // ellipses: the radii-offset ellipse is only an approximation of the parallel curve: wider margin
            let m = if kind == 1 { 3.0 * tol as f64 + 0.02 * rx.max(ry) as f64 } else { tol as f64 + 1e-3 };
            let ext = rx.max(ry) as f64 + 2.0;
            let g = 36;
            let mut reported = false;
            for gy in 0..=g {
                for gx in 0..=g {
                    let base = if kind == 2 { (ctr.x as f64 + rx as f64 * 0.5, ctr.y as f64 + ry as f64 * 0.5) } else { (ctr.x as f64, ctr.y as f64) };
                    let q = (base.0 - ext + 2.0 * ext * (gx as f64 + 0.31) / g as f64, base.1 - ext + 2.0 * ext * (gy as f64 + 0.47) / g as f64);
                    let (closed, _) = cover_f64(q, &buffers.vertices, &tris);
                    let bad = if inside(q, -m) && closed == 0 {
                        Some("a point of a path-level shape farther than the tolerance from its boundary is not covered")
                    } else if !inside(q, m) && closed > 0 {
                        Some("a point outside a path-level shape, farther than the tolerance from its boundary, is covered")
                    } else {
                        None
                    };
                    if let (Some(b), false) = (bad, reported) {
                        let mut f = vec![("what", jstr(b)), ("input", jstr(&format!("point {:?} :: {}", q, label)))];
                        // K15 (circles and ellipses built from eighth-of-a-turn quadratic Beziers): gone with 0.0035 r more
                        let m15 = m + 0.0035 * rx.max(ry) as f64;
                        if kind != 2 && !(inside(q, -m15) && closed == 0) && !(!inside(q, m15) && closed > 0) {
                            f.push(("class", jstr("K15")));
                        }
                        st.fail(jobj(&f));
                        reported = true;
                    }
                }
            }
        }
    }
    w.finish()?;
    wd.finish()?;
    st.write(&args.out.join("c03_stats.json"))
}
